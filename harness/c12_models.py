"""
C12 streams B and C: a tiny Modelica model behind the CSV / PI / NetCDF mixins (optimisation) and
the CSV / PI mixins (simulation), with generated input folders in temp dirs.
"""
import datetime
import math
import os
import shutil

import numpy as np

from . import c11_pi as P11
from .common import fr, quiet_fd, unfr

NAN = float("nan")
BASE = P11.BASE

MO = """
model M
  Real x(start=0.0);
  input Real u(fixed=false, min=-5.0, max=5.0);
  input Real c(fixed=true);
  output Real y;
  output Real z;
equation
  der(x) = (u + c) / 3600.0;
  y = 2 * x;
  z = c - x;
end M;
"""

MO_SIM = """
model S
  Real x(start=0.0);
  input Real u(fixed=true);
  input Real c(fixed=true);
  output Real y;
  output Real x_out;
equation
  der(x) = (u + c) / 3600.0;
  y = 2 * x;
  x_out = x;
end S;
"""

IDS = P11.Ids(["c", "u", "u_Max", "u_Min", "x", "y", "x_out", "z"],
              {"c": ("In", "C", []), "u": ("Ctl", "U", ["q1"]), "u_Max": ("Ctl", "U_Max", []), "u_Min": ("Ctl", "U_Min", []),
               "x": ("St", "X", []), "y": ("Out", "Y", ["q2", "q1"]), "x_out": ("Out", "X", []), "z": ("Out", "Z", [])})


def isnan(x):
    return isinstance(x, float) and math.isnan(x)


def dtm(s):
    return BASE + datetime.timedelta(seconds=int(s))


def sec(d):
    return int((d - BASE).total_seconds())


class _Timeout(Exception):
    pass


def _alarm(signum, frame):
    raise _Timeout("no result after the time limit")


def call(fn, *a, **k):
    """run one instance; exceptions become ('raise', ...); a run that does not end within
    RUN_LIMIT seconds (e.g. a simulation whose time step became 0 on a broken tree) is cut off"""
    import signal

    old = signal.signal(signal.SIGALRM, _alarm)
    signal.alarm(RUN_LIMIT)
    try:
        return ("ok", fn(*a, **k))
    except _Timeout as e:
        TIMEOUTS[0] += 1
        return ("raise", "Timeout: %s" % e)
    except Exception as e:
        return ("raise", "%s: %s" % (type(e).__name__, str(e)[:200]))
    finally:
        signal.alarm(0)
        signal.signal(signal.SIGALRM, old)


RUN_LIMIT = 40
TIMEOUTS = [0]  # runs cut off so far; after three a stream stops generating new instances


def eqv(a, b, tol=0.0):
    a, b = list(map(float, a)), list(map(float, b))
    return len(a) == len(b) and all(
        (isnan(x) and isnan(y)) or x == y or abs(x - y) <= tol * max(1.0, abs(x), abs(y)) for x, y in zip(a, b))


# ---------------------------------------------------------------------------------------------
# instance + input folders


def gen_instance(rng, sim=False):
    n = rng.choice([3, 4, 5, 6]) if not sim else rng.choice([3, 5, 6, 8, 9])
    d = rng.choice([1800, 3600, 3600, 7200, 25200])
    start = rng.choice([0, 86400 * rng.randint(0, 6000), rng.randint(0, 10 ** 8)])
    dts = [start + i * d for i in range(n)]
    k0 = rng.choice([0, 0, rng.randrange(n - 1), rng.randrange(n - 1)])
    if not sim and rng.random() < 0.4:
        # non-equidistant import stamps; half of them with a horizon whose FIRST step equals its MEAN step
        # (an end-point test would take such a horizon for equidistant)
        unit = rng.choice([1800, 3600])
        if rng.random() < 0.5:
            steps = rng.choice([[2, 1, 3], [2, 1, 3, 2], [2, 3, 1], [3, 1, 5, 3], [2, 1, 2, 3]])
        else:
            steps = [rng.choice([1, 2, 3, 5]) for _ in range(rng.randint(2, 4))]
            if len(set(steps)) == 1:
                steps[-1] += 1
        k0 = rng.choice([0, 0, 1, 2])
        before = [rng.choice([1, 2, 4]) for _ in range(k0)]
        dts = [start]
        for g in before + steps:
            dts.append(dts[-1] + g * unit)
        n = len(dts)
        d = None
    last_gap = (dts[k0] - dts[k0 - 1]) if k0 > 0 else 0
    E = 1 if sim else rng.choice([1, 1, 2, 3])
    members = []
    delta0 = rng.choice([0.0, 0.1, -0.2])
    c0 = round(rng.uniform(-1, 1), 3)
    for m in range(E):
        cvals = [round(rng.uniform(-1, 1), 3) for _ in range(n)]
        if k0 > 0:
            cvals[k0] = c0  # the control is shared: the initial derivative must be reachable for all members
        for i in range(k0):
            if rng.random() < 0.3:
                cvals[i] = NAN  # gaps before t0 are allowed
        x0 = round(rng.uniform(-2, 2), 3)
        xvals = [round(rng.uniform(-2, 2), 3) if i < k0 else (x0 if i == k0 else NAN) for i in range(n)]
        if k0 > 0:  # keep the initial derivative implied by the history within reach of the control bounds
            xvals[k0 - 1] = round(x0 - delta0 * last_gap / 3600.0, 6)
        s = {"c": cvals, "x": xvals}
        if sim:
            s["u"] = [round(rng.uniform(-1, 1), 3) for _ in range(n)]
        members.append(s)
    if E > 1 and rng.random() < 0.3:
        members[-1] = {k: list(v) for k, v in members[0].items()}  # coincidence between members
    umax = [rng.choice([2.0, 1.5, NAN]) for _ in range(n)] if (not sim and rng.random() < 0.6) else None
    return {"dts": dts, "d": d, "k0": k0, "E": E, "members": members, "u_Max": umax}


def wire(vs):
    return [fr(float(x)) for x in vs]


def fmt(x):
    return "nan" if isnan(x) else repr(float(x))


def write_csv_input(folder, inst, m, names):
    os.makedirs(folder, exist_ok=True)
    rows = ["time," + ",".join(names)]
    for i, t in enumerate(inst["dts"]):
        vals = []
        for nm in names:
            src = inst["u_Max"] if nm == "u_Max" else inst["members"][m][nm]
            vals.append(fmt(src[i]))
        rows.append(dtm(t).strftime("%Y-%m-%d %H:%M:%S") + "," + ",".join(vals))
    with open(os.path.join(folder, "timeseries_import.csv"), "w") as f:
        f.write("\n".join(rows) + "\n")


def series_names(inst, sim=False):
    names = ["c", "x"] + (["u"] if sim else [])
    if inst["u_Max"] is not None:
        names.append("u_Max")
    return names


def make_csv_folder(root, inst, sim=False):
    inp, out = os.path.join(root, "in"), os.path.join(root, "out")
    os.makedirs(inp)
    os.makedirs(out)
    names = series_names(inst, sim)
    if inst["E"] == 1:
        write_csv_input(inp, inst, 0, names)
    else:
        with open(os.path.join(inp, "ensemble.csv"), "w") as f:
            f.write("name,probability\n" + "".join("member%d,1.0\n" % m for m in range(inst["E"])))
        for m in range(inst["E"]):
            write_csv_input(os.path.join(inp, "member%d" % m), inst, m, names)
            os.makedirs(os.path.join(out, "member%d" % m))
    if sim:
        with open(os.path.join(inp, "initial_state.csv"), "w") as f:
            f.write("x\n%s\n" % fmt(inst["members"][0]["x"][inst["k0"]]))
    return inp, out


def f32(v):
    """the value a float32 record holds"""
    return v if isnan(v) else float(np.float32(v))


def make_pi_folder(root, inst, sim=False, binary=False):
    inp, out = os.path.join(root, "in"), os.path.join(root, "out")
    os.makedirs(inp)
    os.makedirs(out)
    with open(os.path.join(inp, "rtcDataConfig.xml"), "w") as f:
        f.write(IDS.config_xml())
    with open(os.path.join(inp, "rtcParameterConfig.xml"), "w") as f:
        f.write('<pi:parameters xmlns:pi="http://www.wldelft.nl/fews/PI" version="1.5"></pi:parameters>')
    dts, k0, E = inst["dts"], inst["k0"], inst["E"]
    recs, stream = [], []
    for m in range(E):
        for nm in series_names(inst, sim):
            if nm == "u_Max" and m > 0:
                continue
            src = inst["u_Max"] if nm == "u_Max" else inst["members"][m][nm]
            evs = [fr(-999.0) if isnan(v) else fr(float(v)) for v in src]
            # binary PI: the XML holds the headers only, the .bin the float32 records of the series in header order
            recs.append({"hdr": {"var": IDS.rank[nm], "member": m if E > 1 else None, "step": inst["d"], "start": dts[0],
                                 "stop": dts[-1], "forecast": dts[k0], "miss": fr(-999.0), "unit": "m"},
                         "evt": [] if binary else list(dts), "evs": [] if binary else evs})
            stream += evs
    P11.write_file(inp, "timeseries_import", {"tz": fr(0.0), "recs": recs, "bin": stream if binary else None}, IDS)
    return inp, out


def make_nc_folder(root, inst):
    from netCDF4 import Dataset

    inp, out = os.path.join(root, "in"), os.path.join(root, "out")
    os.makedirs(inp)
    os.makedirs(out)
    dts, E = inst["dts"], inst["E"]
    ds = Dataset(os.path.join(inp, "timeseries_import.nc"), "w", format="NETCDF3_CLASSIC")
    ds.createDimension("time", None)
    ds.createDimension("station", 1)
    ds.createDimension("char_leng_id", 3)
    if E > 1:
        ds.createDimension("realization", E)
        r = ds.createVariable("realization", "i", ("realization",))
        r.standard_name = "realization"
        r[:] = list(range(E))
    t = ds.createVariable("time", "f8", ("time",))
    t.standard_name = "time"
    t.axis = "T"
    t.units = "seconds since %s" % dtm(dts[0])
    t[:] = [float(x - dts[0]) for x in dts]
    sid = ds.createVariable("station_id", "c", ("station", "char_leng_id"))
    sid.cf_role = "timeseries_id"
    sid[0, :] = list("loc")
    for nm in series_names(inst):
        if E > 1 and nm != "u_Max":
            v = ds.createVariable(nm, "f8", ("time", "station", "realization"), fill_value=np.nan)
            for m in range(E):
                v[:, 0, m] = np.array(inst["members"][m][nm], dtype=float)
        else:
            v = ds.createVariable(nm, "f8", ("time", "station"), fill_value=np.nan)
            src = inst["u_Max"] if nm == "u_Max" else inst["members"][0][nm]
            v[:, 0] = np.array(src, dtype=float)
    ds.close()
    return inp, out


# ---------------------------------------------------------------------------------------------
# problem classes


def opt_classes():
    from rtctools.optimization.collocated_integrated_optimization_problem import CollocatedIntegratedOptimizationProblem
    from rtctools.optimization.csv_mixin import CSVMixin
    from rtctools.optimization.modelica_mixin import ModelicaMixin
    from rtctools.optimization.netcdf_mixin import NetCDFMixin
    from rtctools.optimization.pi_mixin import PIMixin

    class Base:
        t0_index = None  # set: move the reference datetime to this import stamp (public io API)

        def read(self):
            super().read()
            if self.t0_index:
                self.io.reference_datetime = self.io.datetimes[self.t0_index]

        def objective(self, ensemble_member):
            xf = self.state_at("x", self.times()[-1], ensemble_member=ensemble_member)
            return (xf - 1.0) ** 2

        def path_objective(self, ensemble_member):
            return 1e-2 * self.state("u") ** 2

        def compiler_options(self):
            o = super().compiler_options()
            o["cache"] = False
            o["library_folders"] = []
            return o

        def solver_options(self):
            o = super().solver_options()
            o["ipopt"] = {"print_level": 0, "sb": "yes"}
            o["print_time"] = 0
            return o

    class Csv(Base, CSVMixin, ModelicaMixin, CollocatedIntegratedOptimizationProblem):
        pass

    class CsvEns(Csv):
        csv_ensemble_mode = True

    class Pi(Base, PIMixin, ModelicaMixin, CollocatedIntegratedOptimizationProblem):
        pass

    class PiBin(Pi):
        pi_binary_timeseries = True

    class Nc(Base, NetCDFMixin, ModelicaMixin, CollocatedIntegratedOptimizationProblem):
        def netcdf_id_to_variable(self, station_id, parameter):
            return parameter

        def netcdf_id_from_variable(self, variable_name):
            return ("loc", variable_name)

    return Csv, CsvEns, Pi, PiBin, Nc


def observe(p, E):
    return {
        "datetimes": [sec(d) for d in p.io.datetimes],
        "ref": sec(p.io.reference_datetime),
        "times": [float(t) for t in p.times()],
        "results": [{k: [float(x) for x in v] for k, v in p.extract_results(m).items()} for m in range(E)],
        "outputs": sorted(s.name() for s in p.output_variables),
        "hist_x": [([float(t) for t in p.history(m)["x"].times], [float(v) for v in p.history(m)["x"].values])
                   for m in range(E)],
    }


def read_csv_export(out, E):
    import rtctools.data.csv as csv

    res = []
    for m in range(E):
        folder = out if E == 1 else os.path.join(out, "member%d" % m)
        r = np.atleast_1d(csv.load(os.path.join(folder, "timeseries_export.csv"), with_time=True))
        res.append(([sec(t) for t in r["time"]], {k: [float(x) for x in r[k]] for k in r.dtype.names[1:]}))
    return res


def read_pi_export(inp, out, E, binary=False):
    import rtctools.data.pi as pi
    import rtctools.data.rtc as rtc

    r = pi.Timeseries(rtc.DataConfig(inp), out, "timeseries_export", binary=binary)
    res = []
    for m in range(E):
        res.append(([sec(t) for t in r.times], {k: [float(x) for x in v] for k, v in r.items(m)}))
    return res, sec(r.forecast_datetime), r.ensemble_size


def decode_pi_export(out, E, binary):
    """the PI export decoded WITHOUT rtctools' reader, the way the format prescribes: the <series> headers of the
    .xml in document order; XML flavour: the <event>s of each series; binary flavour: the float32 records of the
    .bin in the same order as the headers, one block of (endDate - startDate) / timeStep + 1 records per series.
    -> ([(stamps, {variable: values}) per member], [problems])"""
    f = P11.parse_xml_file(os.path.join(out, "timeseries_export.xml"), IDS,
                           os.path.join(out, "timeseries_export.bin") if binary else None)
    floats = None if f["bin"] is None else [float(unfr(x)) for x in f["bin"]]
    res, problems, pos = [{} for _ in range(E)], [], 0
    if binary and floats is None:
        return None, ["binary export without .bin file"]
    for r in f["recs"]:
        h = r["hdr"]
        name, m = IDS.names[h["var"]], (h["member"] or 0)
        if binary:
            if r["evt"]:
                problems.append("events in the XML of a binary export")
            if h["step"] is None:
                problems.append("binary series without a time step")
                continue
            n = (h["stop"] - h["start"]) // h["step"] + 1
            stamps = [h["start"] + i * h["step"] for i in range(n)]
            vals = floats[pos:pos + n]
            pos += n
        else:
            stamps, vals = list(r["evt"]), [float(unfr(x)) for x in r["evs"]]
        miss = float(unfr(h["miss"]))
        vals = [NAN if v == miss else v for v in vals]
        if (h["member"] is None) != (E == 1):
            problems.append("ensembleMemberIndex present/absent against the ensemble size")
        if m >= E or name in res[m]:
            problems.append("series (%s, member %s) listed twice / for a member that does not exist" % (name, m))
            continue
        res[m][name] = (stamps, vals)
    if binary and pos != len(floats):
        problems.append("the .bin holds %d records, the headers announce %d" % (len(floats), pos))
    out_ = []
    for m in range(E):
        sts = [st for st, _ in res[m].values()]
        if any(st != sts[0] for st in sts):
            problems.append("series of one member on different stamps")
        out_.append((sts[0] if sts else [], {k: v for k, (_, v) in res[m].items()}))
    return out_, problems


def read_nc_export(out, E):
    import rtctools.data.netcdf as nc

    d = nc.ImportDataset(out, "timeseries_export")
    ts = [sec(t) for t in d.read_import_times()]
    res = []
    for m in range(E):
        res.append((ts, {p: [float(x) for x in d.read_timeseries_values(0, p, m)] for p in d.find_timeseries_variables()}))
    return res, d.ensemble_size


# ---------------------------------------------------------------------------------------------


def check_export(c, case, backend, obs, exported, tol, what_extra=""):
    """oracle: exported stamps are reference + times(); values are the results at those stamps"""
    inst = case["instance"]
    exp_stamps = inst["dts"][inst["k0"]:]
    for m, (stamps, cols) in enumerate(exported):
        if stamps != exp_stamps:
            c.fail("%s export: time stamps are not the import stamps from t0 on%s" % (backend, what_extra), case,
                   {"member": m, "stamps": stamps, "expected": exp_stamps})
            return False
        for var in obs["outputs"]:
            if var not in cols:
                c.fail("%s export: output variable %s is missing" % (backend, var), case, sorted(cols))
                return False
            if not eqv(cols[var], obs["results"][m][var], tol):
                c.fail("%s export: values of %s differ from extract_results() at the same stamps" % (backend, var), case,
                       {"member": m, "file": cols[var], "results": obs["results"][m][var]})
                return False
    return True


def stream_backends(c, N, tmp):
    rng = c.rng
    Csv, CsvEns, Pi, PiBin, Nc = opt_classes()
    mo = os.path.join(tmp, "mo")
    os.makedirs(mo)
    with open(os.path.join(mo, "M.mo"), "w") as f:
        f.write(MO)
    c.programs += 1
    lines, cases = [], []
    for i in range(N):
        if TIMEOUTS[0] >= 3:
            c.hit("backends/skipped after repeated timeouts")
            continue
        inst = gen_instance(rng)
        k0, E, dts = inst["k0"], inst["E"], inst["dts"]
        case = {"stream": "backends", "instance": inst}
        runs = {}
        for backend in ("pi", "pib", "csv", "nc"):
            if backend == "nc" and k0 > 0:
                continue  # NetCDFMixin with a moved reference datetime: see the probe
            if backend == "pib" and inst["d"] is None:
                continue  # the binary PI format has no place for the stamps of a non-equidistant series
            root = os.path.join(tmp, "b%d_%s" % (i, backend))
            os.makedirs(root)

            def real():
                if backend == "csv":
                    inp, out = make_csv_folder(root, inst)
                    cls = CsvEns if E > 1 else Csv
                elif backend in ("pi", "pib"):
                    inp, out = make_pi_folder(root, inst, binary=(backend == "pib"))
                    cls = PiBin if backend == "pib" else Pi
                else:
                    inp, out = make_nc_folder(root, inst)
                    cls = Nc
                p = cls(model_name="M", model_folder=mo, input_folder=inp, output_folder=out)
                if inst["d"] is None:
                    p.csv_equidistant = False
                if backend not in ("pi", "pib"):
                    p.t0_index = k0
                with quiet_fd():
                    ok = p.optimize()
                obs = observe(p, E)
                obs["success"] = bool(ok)
                if backend == "csv":
                    exported = read_csv_export(out, E)
                elif backend in ("pi", "pib"):
                    exported, fc, es = read_pi_export(inp, out, E, binary=(backend == "pib"))
                    obs["export_forecast"] = fc
                    obs["export_E"] = es
                    obs["decoded"] = decode_pi_export(out, E, backend == "pib")
                else:
                    exported, es = read_nc_export(out, E)
                    obs["export_E"] = es
                return obs, exported

            r = call(real)
            shutil.rmtree(root, ignore_errors=True)
            runs[backend] = r
            steps = [b - a for a, b in zip(dts[k0:], dts[k0 + 1:])]
            kind = "equidistant" if inst["d"] is not None else (
                "nonequidistant, first step = mean step" if steps[0] * len(steps) == sum(steps) else "nonequidistant")
            c.count(("backend", backend, len(dts), k0, E, inst["u_Max"] is not None, kind))
            c.hit("backends/%s %s" % (backend, kind))
            c.hit("backends/%s %s" % (backend, "t0 first" if k0 == 0 else "t0 inside"))
            c.hit("backends/E=%d" % E)
        cases.append((case, runs))
        lines.append({"op": "axis", "dts": dts, "ref": dts[k0]})
        c.sample(case, limit=2)
    outs = c.model(lines)
    for k, (case, runs) in enumerate(cases):
        inst = case["instance"]
        dts, k0, E = inst["dts"], inst["k0"], inst["E"]
        ts = [d - dts[k0] for d in dts]
        good = {}
        for backend, r in runs.items():
            if r[0] == "raise":
                c.fail("%s back-end: pre/optimize/export raised" % backend, case, r[1])
                continue
            obs, exported = r[1]
            if not obs["success"]:
                c.hit("backends/solver failed")
                continue
            # axis
            if obs["datetimes"] != dts or obs["ref"] != dts[k0] or obs["times"] != [float(t) for t in ts[k0:]]:
                c.fail("%s back-end: the axis is not seconds relative to t0 / the horizon does not start at t0" % backend,
                       case, {k2: obs[k2] for k2 in ("datetimes", "ref", "times")})
                continue
            stored = (lambda v: f32(v)) if backend == "pib" else (lambda v: v)  # a binary import holds float32 records
            for m in range(E):
                ht, hv = obs["hist_x"][m]
                if ht != [float(t) for t in ts[:k0 + 1]] or not eqv(hv, [stored(v) for v in inst["members"][m]["x"][:k0 + 1]]):
                    c.fail("%s back-end: history of x is not the series up to t0" % backend, case, obs["hist_x"][m])
            # initial condition taken at t0 for every member
            for m in range(E):
                if abs(obs["results"][m]["x"][0] - inst["members"][m]["x"][k0]) > 1e-6:
                    c.fail("%s back-end: x(t0) of member %d is not the stored value at t0" % (backend, m), case,
                           obs["results"][m]["x"])
            # CSV: 6 decimals; binary PI: float32 records
            tol = 6e-7 if backend == "csv" else (2e-7 if backend == "pib" else 0.0)
            ok_exp = check_export(c, case, backend, obs, exported, tol)
            if backend in ("pi", "pib"):
                # the same statement on the file decoded independently of rtctools' reader (headers in document
                # order; binary: float32 records in the same order): every (variable, member) series holds the
                # results of that member at the stamps from t0 on
                dec, problems = obs["decoded"]
                c.hit("backends/%s export decoded independently, E=%d, %d series" % (
                    backend, E, sum(len(cols) for _, cols in (dec or []))))
                if problems:
                    c.fail("%s export: the file is not a well-formed PI series file" % backend, case, problems)
                    ok_exp = False
                elif not check_export(c, case, backend, obs, dec, tol,
                                      " (file decoded by hand: headers in document order%s)" % (
                                          ", float32 records in the same order" if backend == "pib" else "")):
                    ok_exp = False
            if ok_exp:
                good[backend] = (obs, exported)
            if backend in ("pi", "pib") and (obs["export_forecast"] != dts[k0]):
                c.fail("%s export: forecast date is not t0" % backend, case, obs["export_forecast"])
            if backend in ("pi", "pib", "nc") and obs["export_E"] != E:
                c.fail("%s export: ensemble size differs" % backend, case, obs["export_E"])
            # correspondence with the Lean model: stamps of the export rows
            if outs is not None:
                mo_ = outs[k]
                stamps = exported[0][0]
                model_stamps = mo_["nc_export"] if backend == "nc" else mo_["export"]
                if mo_ == "raise" or stamps != model_stamps or [float(x) for x in mo_["horizon"]] != obs["times"]:
                    c.disagree("%s export stamps" % backend, case, mo_, stamps)
        # the back-ends agree with each other (same problem data -> same solution)
        names = sorted(good)
        for a in names:
            for b in names:
                if a < b:
                    for m in range(E):
                        for var in good[a][0]["outputs"]:
                            # (a binary PI run starts from float32 inputs and exports float32 records)
                            if not eqv(good[a][1][m][1][var], good[b][1][m][1][var], 5e-6 if "pib" in (a, b) else 2e-6):
                                c.fail("exports of the %s and %s back-ends differ" % (a, b), case,
                                       {"var": var, a: good[a][1][m][1][var], b: good[b][1][m][1][var]})


# ---------------------------------------------------------------------------------------------
# simulation


def sim_classes():
    from rtctools.simulation.csv_mixin import CSVMixin
    from rtctools.simulation.pi_mixin import PIMixin
    from rtctools.simulation.simulation_problem import SimulationProblem

    class Base:
        def compiler_options(self):
            o = super().compiler_options()
            o["cache"] = False
            o["library_folders"] = []
            return o

    class Rec:
        """records every value set on the model through the public `set_var`, with the model time at that moment"""

        def set_var(self, name, value):
            log = self.__dict__.setdefault("_c12_set_log", [])
            try:
                now = float(self.get_current_time())
            except Exception:
                now = None
            log.append((name, float(value), now))
            return super().set_var(name, value)

    class SCsv(Rec, Base, CSVMixin, SimulationProblem):
        pass

    class SPi(Rec, Base, PIMixin, SimulationProblem):
        pass

    return SCsv, SPi


def stream_simulation(c, N, tmp):
    rng = c.rng
    SCsv, SPi = sim_classes()
    mo = os.path.join(tmp, "mos")
    os.makedirs(mo)
    with open(os.path.join(mo, "S.mo"), "w") as f:
        f.write(MO_SIM)
    c.programs += 1
    sim_batch = []
    for i in range(N):
        if TIMEOUTS[0] >= 3:
            c.hit("simulation/skipped after repeated timeouts")
            continue
        inst = gen_instance(rng, sim=True)
        backend = rng.choice(["csv", "pi", "pi"])
        if backend == "csv":
            inst["k0"] = 0  # the CSV mixin always starts at the first stamp
            inst["members"][0]["x"] = [inst["members"][0]["x"][0] if not isnan(inst["members"][0]["x"][0]) else 0.5] + \
                [NAN] * (len(inst["dts"]) - 1)
        k0, dts, d = inst["k0"], inst["dts"], inst["d"]
        s = inst["members"][0]
        for j in range(len(dts)):
            if isnan(s["c"][j]):
                s["c"][j] = 0.0
        case = {"stream": "simulation", "backend": backend, "instance": inst}
        root = os.path.join(tmp, "s%d" % i)
        os.makedirs(root)

        # explicit stepping: update(dt) with dt = 1, 2 or 3 import steps, mixed (plan = multiples per call)
        plan = None
        if rng.random() < 0.5 and len(dts) - k0 >= 3:
            left, plan = len(dts) - 1 - k0, []
            while left > 0:
                mlt = min(left, rng.choice([1, 2, 2, 3]))
                plan.append(mlt)
                left -= mlt
            if all(x == 1 for x in plan):
                plan[0:2] = [2]
            case["update_steps"] = [x * d for x in plan]
        new_u = None
        if backend == "pi" and rng.random() < 0.5:
            # the user replaces the input u from t0 on (values cover forecastDate .. endDate)
            new_u = [round(rng.uniform(-1, 1), 3) for _ in range(len(dts) - k0)]
            case["set_u_from_t0"] = new_u
        seen = {}

        def real():
            if backend == "csv":
                inp, out = make_csv_folder(root, inst, sim=True)
                p = SCsv(model_name="S", model_folder=mo, input_folder=inp, output_folder=out)
            else:
                inp, out = make_pi_folder(root, inst, sim=True)

                class SPiSet(SPi):
                    def pre(self):
                        super().pre()
                        if new_u is not None:
                            # with explicit coarser stepping the series is input only (the export has
                            # fewer stamps than a series covering every import stamp)
                            self.set_timeseries("u", np.array(new_u), output=plan is None)
                            seen["u"] = [float(x) for x in self.get_timeseries("u")]

                p = SPiSet(model_name="S", model_folder=mo, input_folder=inp, output_folder=out)
            with quiet_fd():
                if plan is None:
                    p.simulate()
                else:  # the user steps the model himself, with steps that are multiples of the import step
                    p.pre()
                    p.initialize()
                    for mult in plan:
                        p.update(mult * d)
                    p.post()
            er = p.extract_results()
            seen["set_log"] = list(p.__dict__.get("_c12_set_log", []))
            res = {k: [float(x) for x in er[k]] for k in ("y", "x_out")}
            times = [float(t) for t in p.times()]
            if backend == "csv":
                exported = read_csv_export(out, 1)
            else:
                exported, fc, _ = read_pi_export(inp, out, 1)
            return res, times, exported

        r = call(real)
        shutil.rmtree(root, ignore_errors=True)
        c.count(("sim", backend, len(dts), k0))
        c.hit("simulation/%s %s" % (backend, "t0 first" if k0 == 0 else "t0 inside"))
        c.sample(case, limit=1)
        if r[0] == "raise":
            c.fail("simulation %s: simulate/export raised" % backend, case, r[1])
            continue
        res, times, exported = r[1]
        if new_u is not None:
            c.hit("simulation/pi set_timeseries from t0")
            if not eqv(seen.get("u", []), [NAN] * k0 + new_u):
                c.fail("simulation PIMixin.set_timeseries: values given from t0 on are not stored from t0 on", case, seen)
            s = {**s, "u": [NAN] * k0 + new_u}
        if times != [float(t - dts[k0]) for t in dts[k0:]]:
            c.fail("simulation: times() is not the stamps from t0 on", case, times)
        reached = [k0]
        for mlt in (plan or [1] * (len(dts) - 1 - k0)):
            reached.append(reached[-1] + mlt)
        if plan is not None:
            c.hit("simulation/explicit update(dt), dt != import step")
        stamps, cols = exported[0]
        if stamps != [dts[i] for i in reached]:
            c.fail("simulation %s export: stamps are not the import stamps from t0 on" % backend, case, stamps)
            continue
        # feed, observed directly: the input values set on the model (public set_var) before solve j are the values
        # stored for the stamp at which output row j is recorded -- also at t0, where the result does not show it
        for nm in ("u", "c"):
            got = [v for (name, v, _t) in seen.get("set_log", []) if name == nm]
            exp = [s[nm][i] for i in reached if not isnan(s[nm][i])]
            if len(got) != len(exp) or any(abs(a - b) > 1e-9 for a, b in zip(got, exp)):
                c.fail("simulation: the input values set on the model before a solve are not the values stored for "
                       "the stamp of the output row it produces", case, {"input": nm, "set": got, "stored_at_stamps": exp})
                break
        if all(dts[j + 1] - dts[j] == d for j in range(len(dts) - 1)):
            # the Lean feed/record model (Model/C12Io.lean: simRun) on the same axis and the same update(dt) calls
            sim_batch.append((case, [t - dts[k0] for t in dts],
                              [-1] * (len(dts) - 1 - k0) if plan is None else [mlt * d for mlt in plan],
                              [t - dts[k0] for t in stamps], list(reached),
                              {nm: list(s[nm]) for nm in ("u", "c", "x")}, seen.get("set_log", [])))
        tol = 6e-7 if backend == "csv" else 0.0
        for var in ("y", "x_out"):
            if var not in cols or not eqv(cols[var], res[var], tol):
                c.fail("simulation %s export: values of %s differ from extract_results()" % (backend, var), case,
                       {"file": cols.get(var), "results": res[var]})
        # feed: the inputs of stamp t0 + j*dt drive step j (backward Euler: x_j - x_{j-1} = dt (u_j + c_j))
        x = res["x_out"]
        if abs(x[0] - s["x"][k0]) > 1e-9:
            c.fail("simulation: x(t0) is not the initial state at t0", case, x)
        if len(x) != len(reached):
            c.fail("simulation: number of recorded steps", case, x)
            continue
        for j in range(1, len(x)):
            i_now, step = reached[j], (reached[j] - reached[j - 1]) * d
            rhs = step * (s["u"][i_now] + s["c"][i_now]) / 3600.0
            if abs((x[j] - x[j - 1]) - rhs) > 1e-7 * max(1.0, abs(rhs)):
                c.fail("simulation: step %d is not driven by the inputs of its own stamp" % j, case,
                       {"x": x, "expected_increment": rhs})
                break
    if sim_batch:
        outs = c.model([{"op": "sim", "ts": ts, "dts": steps, "feeds": [wire(ser[nm]) for nm in ("u", "c", "x")]}
                        for _, ts, steps, _, _, ser, _ in sim_batch])
        for k, (case, ts, steps, rel_stamps, reached, ser, log) in enumerate(sim_batch):
            if outs is None:
                break
            mo = outs[k]
            c.hit("simulation/feed-record model compared")
            if mo == "raise" or mo["stamps"] != rel_stamps or mo["recorded"] != rel_stamps or mo["fed"] != reached:
                c.disagree("simulation feed / record (stamps listed, rows fed)", case, mo,
                           {"exported_stamps": rel_stamps, "rows_reached": reached})
                continue
            # what the code really set on the model before each solve (public set_var, recorded with the model
            # time): the finite value of the fed import row, nothing for a missing one
            # (the inputs only: SimulationProblem.initialize() sets the states through set_var itself as well)
            for q, nm in enumerate(("u", "c")):
                exp = [(float(unfr(v)), float(t)) for v, t in zip(mo["fed_values"][q], mo["fed_time"]) if v != "skip"]
                got = [(v, t) for (name, v, t) in log if name == nm]
                c.hit("simulation/values set on the model compared", len(got))
                if len(exp) != len(got) or any(abs(a[0] - b[0]) > 1e-9 or a[1] != b[1] for a, b in zip(exp, got)):
                    c.disagree("simulation: values set on the model before each solve (%s)" % nm, case, exp, got)


# ---------------------------------------------------------------------------------------------


def corpus(c, tmp):
    """inputs of repaired findings, checked as ordinary cases"""
    import random

    rng = random.Random(12)
    # F45 (fixed 8e294aa): simulation PIMixin.set_timeseries when t0 is the second of the import stamps
    SCsv, SPi = sim_classes()
    mos = os.path.join(tmp, "mos_c")
    os.makedirs(mos)
    with open(os.path.join(mos, "S.mo"), "w") as f:
        f.write(MO_SIM)
    inst = gen_instance(rng, sim=True)
    while inst["k0"] != 1:
        inst = gen_instance(rng, sim=True)
    inst["members"][0]["c"] = [0.0 if isnan(v) else v for v in inst["members"][0]["c"]]
    root = os.path.join(tmp, "c_sp")
    os.makedirs(root)
    seen = {}

    class SP2(SPi):
        def pre(self):
            super().pre()
            n = len(self.times())
            seen["r"] = call(self.set_timeseries, "u", np.arange(n) * 1.0)
            seen["stored"] = call(lambda: [float(x) for x in self.get_timeseries("u")])

    def real_sp():
        inp, out = make_pi_folder(root, inst, sim=True)
        p = SP2(model_name="S", model_folder=mos, input_folder=inp, output_folder=out)
        with quiet_fd():
            p.pre()

    call(real_sp)
    n_h = len(inst["dts"]) - 1
    ok = seen.get("r", ("raise", "not run"))[0] == "ok" and seen["stored"][0] == "ok" and \
        eqv(seen["stored"][1], [NAN] + [float(j) for j in range(n_h)])
    c.count(("corpus", "F45"))
    if not ok:
        c.fail("simulation PIMixin.set_timeseries with values from forecastDate to endDate (t0 = second stamp) "
               "does not store them from t0 on", {"corpus": "F45", "instance": inst}, seen)
    shutil.rmtree(root, ignore_errors=True)
