"""
C12, stream D — what each accessor of the optimisation `IOMixin` hands out.

A synthetic `IOMixin` problem on top of a stub parent that supplies its own `bounds / history / seed /
constant_inputs / parameters` dictionaries.  For a generated import axis (any t0 position), 1-3
members and series with NaN patterns for x (state), u (control), c (constant input) and the bound
series x_Min / x_Max / u_Min / u_Max, every accessor is called once through the public API and
compared (a) with the property re-stated in plain Python (oracle) and (b) with the Lean model
`Model/C12Io.lean` (`boundsEntry`, `historyEntry`, `seedEntry`, `constInputEntry`, `parametersMerge`)
evaluated on the same store.  Afterwards every stored series is read back: no accessor may change
the data store (F46: bounds(); the NaN -> 0 of seed()).
"""
import random

import numpy as np

from .c12 import BIG, NAN, call, dtm, eqv, gen_axis, gen_series, isnan, wire_vals
from .common import fr, unfr

NAMES = ["x", "u", "c", "x_Min", "x_Max", "u_Min", "u_Max"]
PARS = ["p0", "p1", "p2", "p3"]


def make_class():
    import casadi as ca
    from rtctools._internal.alias_tools import AliasDict, AliasRelation
    from rtctools.optimization.io_mixin import IOMixin
    from rtctools.optimization.optimization_problem import OptimizationProblem
    from rtctools.optimization.timeseries import Timeseries

    class Stub(OptimizationProblem):
        """the parent in the MRO: its dictionaries are what IOMixin starts from"""

        def _d(self, items):
            d = AliasDict(self.alias_relation)
            for k, v in items.items():
                d[k] = v
            return d

        def bounds(self):
            return self._d(dict(self._parent["bounds"]))

        def history(self, ensemble_member):
            return self._d({k: Timeseries(np.array(t, dtype=float), np.array(v, dtype=float))
                            for k, (t, v) in self._parent["history"].items()})

        def seed(self, ensemble_member):
            return self._d(dict(self._parent["seed"]))

        def constant_inputs(self, ensemble_member):
            return self._d({k: Timeseries(np.array(t, dtype=float), np.array(v, dtype=float))
                            for k, (t, v) in self._parent["cinputs"].items()})

        def parameters(self, ensemble_member):
            return self._d(dict(self._parent["parameters"]))

    class P(IOMixin, Stub):
        def __init__(self, data, parent, **kw):
            self._ar = AliasRelation()
            self._data = data
            self._parent = parent
            self._syms = {n: ca.MX.sym(n) for n in ("x", "u", "c")}
            super().__init__(**kw)

        alias_relation = property(lambda self: self._ar)

        @property
        def dae_variables(self):
            s = self._syms
            return {"states": [s["x"]], "algebraics": [], "control_inputs": [s["u"]], "constant_inputs": [s["c"]],
                    "free_variables": [s["x"], s["u"]]}

        def read(self):
            dts, ref, series, pars = self._data
            self.io.reference_datetime = ref
            for (m, var), vals in series:
                self.io.set_timeseries(var, dts, np.array(vals, dtype=float), m)
            for (m, name), val in pars:
                self.io.set_parameter(name, val, m)

        def write(self):
            pass

    for nm in P.__abstractmethods__:
        if nm not in ("read", "write", "alias_relation", "dae_variables"):
            setattr(P, nm, lambda self, *a, **k: None)
    P.__abstractmethods__ = frozenset()
    return P


def ser(s):
    return ([float(x) for x in s.times], [float(x) for x in s.values])


def canon_bound(b):
    """a bound side as handed out: None, a float, or a Timeseries"""
    if b is None:
        return None
    if hasattr(b, "times"):
        return ser(b)
    return float(b)


def stream_slices(c, N):
    rng = random.Random(c.seed * 7919 + 1203)  # own stream: the cases of streams A-C stay what they were
    P = make_class()
    cases, lines = [], []
    for i in range(N):
        dts, k0 = gen_axis(rng)
        n = len(dts)
        E = rng.choice([1, 1, 2, 3])
        ref = dts[k0]
        ts = [d - ref for d in dts]
        series = []
        for m in range(E):
            for var in NAMES:
                if rng.random() < (0.6 if m == 0 else 0.45):
                    vals = gen_series(rng, n)
                    if var == "c" and rng.random() < 0.6:  # mostly acceptable constant inputs: NaN only before t0
                        vals = [v if (j < k0 and rng.random() < 0.5) or not isnan(v) else float(rng.randint(-5, 5))
                                for j, v in enumerate(vals)]
                    series.append(((m, var), vals))
        if not series:
            series.append(((0, "c"), [1.0] * n))
        pars = [((m, rng.choice(PARS)), float(rng.randint(-9, 9))) for m in range(E) for _ in range(rng.randint(0, 3))]
        last_par = {}
        for k, v in pars:
            last_par[k] = v
        # the parent's dictionaries
        parent = {"bounds": {}, "history": {}, "seed": {}, "cinputs": {}, "parameters": {}}
        has_bound_series = {v: any(mm == 0 and vv in (v + "_Min", v + "_Max") for (mm, vv), _ in series) for v in ("x", "u")}
        for v in ("x", "u"):
            # a parent entry together with a bound series is the class of known finding F5 (entry replaced, not
            # intersected): kept rare, and only the correspondence (what the code does) is checked for it
            if rng.random() < (0.12 if has_bound_series[v] else 0.5):
                parent["bounds"][v] = (float(rng.randint(-9, 0)), float(rng.randint(1, 9)))
        for v in ("x", "u", "c"):
            if rng.random() < 0.3:
                parent["history"][v] = ([-7.0, 0.0], [float(rng.randint(-9, 9)), float(rng.randint(-9, 9))])
        for v in ("x", "u"):
            if rng.random() < 0.3:
                parent["seed"][v] = float(rng.randint(-9, 9))
        if rng.random() < 0.3:
            parent["cinputs"]["c"] = ([0.0, 10.0], [1.5, 2.5])
        for nm in PARS:
            if rng.random() < 0.4:
                parent["parameters"][nm] = float(rng.randint(10, 19))
        p = P(([dtm(d) for d in dts], dtm(ref), series, pars), parent)
        r = call(p.pre)
        # members exist up to the highest index something was stored for (a member nothing was stored for does
        # not exist: its accessors raise KeyError, which is not a statement of this property)
        E = 1 + max([0] + [m for (m, _), _ in series] + [m for (m, _), _ in pars])
        case = {"stream": "slices", "dts": dts, "t0_index": k0, "E": E, "series": [[list(k), v] for k, v in series],
                "io_parameters": [[list(k), v] for k, v in pars], "parent": parent}
        c.hit("slices/t0 " + ("first" if k0 == 0 else "last" if k0 == n - 1 else "inside"))
        obs = {"pre": r[0]}
        if r[0] == "ok":
            before = {(m, v): call(lambda: [float(x) for x in p.get_timeseries(v, m).values])
                      for m in range(E) for v in NAMES}
            # seed and constant_inputs first, bounds afterwards, history last: any order must leave the store alone
            order = ["seed", "constant_inputs", "bounds", "history", "parameters"]
            rng.shuffle(order)
            for what in order:
                if what == "bounds":
                    b = call(p.bounds)
                    obs["bounds"] = "raise" if b[0] == "raise" else {k: (canon_bound(v[0]), canon_bound(v[1])) for k, v in b[1].items()}
                elif what == "parameters":
                    obs["parameters"] = {}
                    for m in range(E):
                        q = call(p.parameters, m)
                        obs["parameters"][m] = "raise" if q[0] == "raise" else {k: float(v) for k, v in q[1].items()}
                else:
                    obs[what] = {}
                    for m in range(E):
                        q = call(getattr(p, what), m)
                        obs[what][m] = "raise" if q[0] == "raise" else {
                            k: (ser(v) if hasattr(v, "times") else float(v)) for k, v in q[1].items()}
            after = {(m, v): call(lambda: [float(x) for x in p.get_timeseries(v, m).values])
                     for m in range(E) for v in NAMES}
            obs["store_changed"] = [list(k) for k in before if before[k][0] != after[k][0] or (
                before[k][0] == "ok" and not eqv(before[k][1], after[k][1]))]
            obs["order"] = order
            obs["store_after"] = {k: (r_[1] if r_[0] == "ok" else None) for k, r_ in after.items()}
        cases.append((case, obs, ts, k0, series, last_par, parent))
        store = [[] for _ in range(E)]
        for (m, var), vals in series:
            store[m] = [e for e in store[m] if e[0] != NAMES.index(var)] + [[NAMES.index(var), wire_vals(vals)]]
        for v in ("x", "u", "c"):
            for m in range(E):
                lines.append({"op": "slices", "ts": ts, "store": store, "iv": NAMES.index(v),
                              "imin": NAMES.index(v + "_Min") if v != "c" else 99,
                              "imax": NAMES.index(v + "_Max") if v != "c" else 99, "m": m, "big": fr(BIG)})
        for m in range(E):
            lines.append({"op": "params",
                          "parent": [[PARS.index(k), fr(v)] for k, v in parent["parameters"].items()],
                          "io": [[PARS.index(k[1]), fr(v)] for k, v in pars if k[0] == m]})
        c.count(("slices", n, k0, E, tuple(sorted((m, v) for (m, v), _ in series)), tuple(sorted(parent["bounds"]))))
        c.sample(case, limit=5)
    outs = c.model(lines)
    pos = 0
    for case, obs, ts, k0, series, last_par, parent in cases:
        E = case["E"]
        my = None
        if outs is not None:
            my = {}
            for v in ("x", "u", "c"):
                for m in range(E):
                    my[(v, m)] = outs[pos]
                    pos += 1
            for m in range(E):
                my[("params", m)] = outs[pos]
                pos += 1
        if obs["pre"] != "ok":
            c.fail("reading well-formed series raised", case, obs)
            continue
        stored = {}
        for (m, var), vals in series:
            stored[(m, var)] = list(vals)
        fts = [float(t) for t in ts]
        hor = fts[k0:]
        # ------------------------------------------------------------------ oracle
        if obs["store_changed"]:
            c.fail("an accessor (bounds / seed / constant_inputs / history) changes the stored series "
                   "(a stored value is no longer what is retrieved)", case, {"changed": obs["store_changed"], "order": obs["order"]})
        b = obs["bounds"]
        if b == "raise":
            c.fail("bounds() raised on well-formed bound series", case)
        else:
            for v in ("x", "u"):
                lo, hi = stored.get((0, v + "_Min")), stored.get((0, v + "_Max"))
                if lo is None and hi is None:
                    exp = parent["bounds"].get(v)
                    if (b.get(v) is None) != (exp is None) or (exp is not None and tuple(b[v]) != tuple(exp)):
                        c.fail("bounds(): a variable without bound series does not keep the parent's bounds", case,
                               {"var": v, "got": b.get(v)})
                    continue
                if v in parent["bounds"]:
                    c.hit("slices/F5 class: parent bounds and bound series (correspondence only)")
                got = b.get(v)
                for side, src, fill, nm in ((0, lo, -BIG, "_Min"), (1, hi, BIG, "_Max")):
                    if src is None:
                        if got is not None and got[side] is not None and v not in parent["bounds"]:
                            c.fail("bounds(): a side without series is bounded", case, {"var": v, "got": got})
                        continue
                    exp_v = [fill if isnan(x) else x for x in src[k0:]]
                    if got is None or not isinstance(got[side], tuple) or got[side][0] != hor or not eqv(got[side][1], exp_v):
                        c.fail("bounds from %s%s do not bind %s from t0 on (missing value = no bound)" % (v, nm, v), case,
                               {"var": v, "got": got})
                c.hit("slices/bounds from series")
        for m in range(E):
            h = obs["history"][m]
            sd = obs["seed"][m]
            ci = obs["constant_inputs"][m]
            if h == "raise" or sd == "raise":
                c.fail("history()/seed() raised", case, {"member": m})
                continue
            exp_ht = [t for t in fts if t <= 0]
            for v in ("x", "u", "c"):
                src = stored.get((m, v))
                if src is not None:
                    if v not in h or h[v][0] != exp_ht or not eqv(h[v][1], src[:len(exp_ht)]):
                        c.fail("history is not the stored series of this member up to and including t0", case,
                               {"member": m, "var": v, "got": h.get(v)})
                elif v in parent["history"]:
                    if v not in h or h[v] != tuple(parent["history"][v]):
                        c.fail("history: the parent's entry of a variable without series is lost", case, {"member": m, "var": v})
                elif v in h:
                    c.fail("history: entry for a variable without series", case, {"member": m, "var": v})
            for v in ("x", "u"):
                src = stored.get((m, v))
                if src is not None:
                    exp = [0.0 if isnan(x) else x for x in src]
                    if v not in sd or not isinstance(sd[v], tuple) or sd[v][0] != fts or not eqv(sd[v][1], exp):
                        c.fail("seed is not the stored series of this member on the import stamps (missing = 0)", case,
                               {"member": m, "var": v, "got": sd.get(v)})
                elif (sd.get(v) if v in sd else None) != parent["seed"].get(v):
                    c.fail("seed: the parent's entry of a variable without series is not kept", case, {"member": m, "var": v})
            src = stored.get((m, "c"))
            if src is None:
                if ci == "raise" or (("c" in ci) != ("c" in parent["cinputs"])):
                    c.fail("constant_inputs: the parent's entry is not kept for an input without series", case, {"member": m})
            else:
                bad = any(isnan(x) for x in src[k0:])
                c.hit("slices/constant input " + ("with a gap at or after t0" if bad else "complete from t0"))
                if bad != (ci == "raise"):
                    c.fail("constant_inputs: a series is rejected exactly when a value at or after t0 is missing", case,
                           {"member": m, "series": src, "raised": ci == "raise"})
                elif not bad and ("c" not in ci or ci["c"][0] != fts or not eqv(ci["c"][1], src)):
                    c.fail("constant_inputs is not the stored series of this member on the import stamps", case,
                           {"member": m, "got": ci.get("c")})
            q = obs["parameters"][m]
            exp = dict(parent["parameters"])
            for (mm, nm), val in last_par.items():
                if mm == m:
                    exp[nm] = val
            if q == "raise" or q != exp:
                c.fail("parameters(): a data-store parameter of this member does not override the parent's value / "
                       "another parameter is changed", case, {"member": m, "got": q, "expected": exp})
        # ------------------------------------------------------------------ correspondence
        if my is None or b == "raise":
            continue

        def ms(j):  # model series -> floats
            return None if j is None else ([float(x) for x in j["times"]], [float(unfr(x)) for x in j["values"]])

        def same_ser(a, b_):
            return (a is None and b_ is None) or (a is not None and isinstance(b_, tuple) and a[0] == b_[0] and eqv(a[1], b_[1]))

        for v in ("x", "u"):
            for side, key in (("_Min", "store_min"), ("_Max", "store_max")):
                mv, cur = my[(v, 0)][key], obs["store_after"].get((0, v + side))
                if (mv is None) != (cur is None) or (mv is not None and not eqv([float(unfr(x)) for x in mv], cur)):
                    c.disagree("stored bound series after bounds()", case, mv, cur)
            mb = my[(v, 0)]["bounds"]
            got = b.get(v)
            if mb == "inherited":
                exp = parent["bounds"].get(v)
                if (got is None) != (exp is None) or (exp is not None and tuple(got) != tuple(exp)):
                    c.disagree("bounds entry (model: inherited)", case, mb, got)
            elif got is None or not same_ser(ms(mb["m"]), got[0]) or not same_ser(ms(mb["M"]), got[1]):
                c.disagree("bounds entry", case, mb, got)
        for m in range(E):
            h, sd, ci = obs["history"][m], obs["seed"][m], obs["constant_inputs"][m]
            if h == "raise" or sd == "raise":
                continue
            for v in ("x", "u", "c"):
                mm = my[(v, m)]
                if (mm["history"] == "inherited") != ((m, v) not in stored) or (
                        mm["history"] != "inherited" and not same_ser(ms(mm["history"]), h.get(v))):
                    c.disagree("history entry", case, mm["history"], h.get(v))
                if v != "c":
                    if mm["seed"] != "inherited" and not same_ser(ms(mm["seed"]), sd.get(v)):
                        c.disagree("seed entry", case, mm["seed"], sd.get(v))
                else:
                    if (mm["cinput"] == "raise") != (ci == "raise"):
                        c.disagree("constant input raise/value", case, mm["cinput"], ci)
                    elif ci != "raise" and mm["cinput"] != "inherited" and not same_ser(ms(mm["cinput"]), ci.get("c")):
                        c.disagree("constant input entry", case, mm["cinput"], ci.get("c"))
            q = obs["parameters"][m]
            mp = {PARS[int(k)]: float(unfr(x)) for k, x in my[("params", m)]}
            if q != "raise" and mp != q:
                c.disagree("parameters", case, mp, q)
