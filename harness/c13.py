"""
C13 — aliases are transparent: any alias name addresses the same quantity, signed.

Proof obligations: lean/RtcVerif/Props/C13.lean.  Correspondence:

* the real `AliasDict` over real pymoca `AliasRelation`s (random alias graphs: chains, negations,
  several aliases per quantity, `-name` keys) under random operation sequences against the Lean
  operation machine (Drivers/C13.lean); exhaustive for all sequences up to a length over three
  names with signs;
* generated Modelica models with negated alias chains, non-unit nominals and a history with several
  points before t0 (harness/c13_models.py): `bounds()`, `variable_nominal()`, `history()`,
  `seed()`, `extract_results()`, state goals, and the accessors `state_at / der_at / states_in /
  integral` (before t0, at t0, inside the horizon; as CasADi functions of X at several probe
  vectors) in optimisation, and `get_var/set_var` sequences in simulation.

* PI export (harness/c13_pi.py): generated models with positive and negated output aliases run
  through the real optimisation `PIMixin`; `timeseries_export.xml` is parsed and every exported
  alias series (also under a mapped `-name` id) must be sign * the series of the quantity.

* data read under alias names (harness/c13_io.py): generated models run through the real optimisation
  `CSVMixin` -- plain and with `csv_ensemble_mode = True`, several members -- and the simulation
  `CSVMixin`, with `timeseries_import.csv` / `initial_state.csv` columns named through a random name
  (canonical, alias, negated alias) of each quantity; `history / seed / constant_inputs / bounds /
  get_timeseries / timeseries_at` (resp. `get_var` after `initialize / update`) through every name
  must be sign * what the file gives; model correspondence: the Lean `AliasDict` updated with the
  file columns and read through every name.

* second tie: harness/translate_c13.py translates the small methods of `AliasDict` from the source
  into lean/RtcVerif/Gen/AliasDict.lean on every run, with theorems `...Gen_eq_model` (extra
  proof obligations).

Independent oracle: quantities are identified by a union-find with sign parity built from the
generator's own alias equations (never from `canonical_signed`); the value seen through a name is
`sign(name) * value(quantity)`.
"""
import itertools
import math

import numpy as np

from .common import fr

NAN = float("nan")
INF = float("inf")


# ---------------------------------------------------------------------------------------------
# independent alias bookkeeping: union-find with parity


class SignedUF:
    def __init__(self):
        self.parent = {}
        self.par = {}  # parity relative to the parent (+1 / -1)

    @staticmethod
    def split(name):
        return (name[1:], -1) if name.startswith("-") else (name, 1)

    def find(self, name):
        """-> (root, sign) with  name == sign * root"""
        base, s = self.split(name)
        self.parent.setdefault(base, base)
        self.par.setdefault(base, 1)
        while self.parent[base] != base:
            s *= self.par[base]
            base = self.parent[base]
        return base, s

    def union(self, a, b):
        """record a == b (signed names); False if that contradicts what is known"""
        ra, sa = self.find(a)
        rb, sb = self.find(b)
        if ra == rb:
            return sa == sb
        # ra = sa*a = sa*b = sa*sb*rb
        self.parent[rb] = ra
        self.par[rb] = sa * sb
        return True


def gen_relation(rng, names=None):
    """a consistent random alias graph, built with the real pymoca AliasRelation"""
    from rtctools._internal.alias_tools import AliasRelation

    if names is None:
        names = ["v%d" % i for i in range(rng.randint(2, 7))]
    ar = AliasRelation()
    uf = SignedUF()
    shape = rng.choice(["random", "random", "chain", "star", "none"])
    edges = []
    if shape == "chain":
        order = names[:]
        rng.shuffle(order)
        edges = [(order[i], order[i + 1]) for i in range(rng.randint(1, len(order) - 1))]
    elif shape == "star":
        hub = rng.choice(names)
        others = [n for n in names if n != hub]
        edges = [(rng.choice([hub, o]), rng.choice([hub, o])) for o in others[: rng.randint(1, len(others))]]
        edges = [(a, b) if a != b else (hub, o) for (a, b), o in zip(edges, others)]
    elif shape == "random":
        edges = [tuple(rng.sample(names, 2)) for _ in range(rng.randint(0, 7))]
    adds = []
    for a, b in edges:
        sa, sb = rng.choice(["", "", "-"]), rng.choice(["", "-"])
        probe = SignedUF()
        probe.parent, probe.par = dict(uf.parent), dict(uf.par)
        if not probe.union(sa + a, sb + b):
            continue  # would state x == -x
        uf.union(sa + a, sb + b)
        ar.add(sa + a, sb + b)
        adds.append((sa + a, sb + b))
    for n in names:
        uf.find(n)
    return ar, names, uf, adds


def rel_table(ar, names):
    rows = []
    for n in names:
        for key in (n, "-" + n):
            c, s = ar.canonical_signed(key)
            rows.append([key, c, int(s)])
    return rows


# ---------------------------------------------------------------------------------------------
# values


def gen_num(rng):
    return rng.choice([float(rng.randint(-9, 9)), float(rng.randint(-9, 9)), rng.uniform(-50, 50), 0.0, 1.0,
                       INF, -INF, NAN, rng.randint(-5, 5) / 8])


def gen_ts(rng):
    from rtctools.optimization.timeseries import Timeseries

    n = rng.randint(2, 4)
    times = np.array(sorted(rng.sample(range(0, 12), n)), dtype=float)
    return Timeseries(times, np.array([gen_num(rng) for _ in range(n)]))


def gen_atom(rng):
    return gen_ts(rng) if rng.random() < 0.25 else gen_num(rng)


def gen_val(rng, malformed=False):
    kind = rng.choice(["num", "num", "pair", "pair", "list", "ts", "arr"])
    if malformed and rng.random() < 0.5:
        kind = "badtuple"
    if kind == "num":
        return gen_num(rng)
    if kind == "pair":
        r = rng.random()
        if r < 0.5:
            lo = rng.choice([-INF, float(rng.randint(-9, 0))])
            hi = rng.choice([INF, float(rng.randint(0, 9))])
            return (lo, hi)
        if r < 0.8:
            # a missing (None) side -- one or both (finding F56: must stay missing under a negated name)
            return rng.choice([(None, gen_atom(rng)), (gen_atom(rng), None), (None, None),
                               (None, float(rng.randint(0, 9))), (float(rng.randint(-9, 0)), None)])
        return (gen_atom(rng), gen_atom(rng))
    if kind == "list":
        return [gen_num(rng) for _ in range(rng.randint(0, 4))]
    if kind == "arr":
        return np.array([gen_num(rng) for _ in range(rng.randint(1, 4))])
    if kind == "ts":
        return gen_ts(rng)
    n = rng.choice([0, 1, 3])
    return tuple(gen_num(rng) for _ in range(n))


def atom_wire(x):
    from rtctools.optimization.timeseries import Timeseries

    if isinstance(x, Timeseries):
        return {"k": "ts", "t": [fr(t) for t in np.asarray(x.times, dtype=float)],
                "v": [fr(v) for v in np.asarray(x.values, dtype=float)]}
    if isinstance(x, (bool, np.bool_)):
        raise TypeError("bool value")
    if isinstance(x, (int, float, np.floating, np.integer)):
        return {"k": "num", "v": fr(float(x))}
    raise TypeError("not an atom: %r" % (x,))


def side_wire(x):
    """a tuple element: None is a missing side"""
    return {"k": "none"} if x is None else atom_wire(x)


def to_wire(v):
    if isinstance(v, tuple):
        return {"k": "tup", "v": [side_wire(x) for x in v]}
    if isinstance(v, list):
        return {"k": "list", "v": [atom_wire(x) for x in v]}
    if isinstance(v, np.ndarray):
        return {"k": "list", "v": [atom_wire(x) for x in v.ravel()]}
    return atom_wire(v)


def _neg_num(s):
    if s == "nan":
        return "nan"
    if s == "inf":
        return "-inf"
    if s == "-inf":
        return "inf"
    if s == "0":
        return "0"
    return s[1:] if s.startswith("-") else "-" + s


def _neg_atom(a):
    if a["k"] == "none":
        return a  # a missing side stays missing
    if a["k"] == "num":
        return {"k": "num", "v": _neg_num(a["v"])}
    return {"k": "ts", "t": a["t"], "v": [_neg_num(x) for x in a["v"]]}


def spec_signed(s, w):
    """the property's notion of 'seen through a negated alias', on wire values: a bound pair is
    swapped and negated (a missing side stays missing), a list/array/time series is negated
    element-wise, a number negated"""
    if s > 0:
        return w
    if w["k"] == "tup":
        assert len(w["v"]) == 2
        return {"k": "tup", "v": [_neg_atom(w["v"][1]), _neg_atom(w["v"][0])]}
    if w["k"] == "list":
        return {"k": "list", "v": [_neg_atom(x) for x in w["v"]]}
    return _neg_atom(w)


# ---------------------------------------------------------------------------------------------
# running operation sequences on the real AliasDict


def call(fn):
    try:
        return fn()
    except KeyError:
        return "KeyError"
    except AssertionError:
        return "AssertionError"
    except Exception as e:  # anything else is unexpected
        return "raise:" + type(e).__name__


class Real:
    """the real AliasDict pair (current dictionary, last copy)"""

    def __init__(self, ar, signed, init=None):
        from rtctools._internal.alias_tools import AliasDict

        self.AliasDict = AliasDict
        self.ar = ar
        self.cur = AliasDict(ar, init, signed_values=signed) if init is not None else AliasDict(ar, signed_values=signed)
        self.alt = AliasDict(ar, signed_values=signed)

    def items(self, d):
        return [[k, to_wire(v)] for k, v in d.items()]

    def do(self, op):
        o = op["o"]
        d = self.cur
        if o == "set":
            def f():
                d[op["k"]] = op["pv"]
                return "ok"
            return call(f)
        if o == "get":
            r = call(lambda: {"val": to_wire(d[op["k"]])})
            return r
        if o == "del":
            def f():
                del d[op["k"]]
                return "ok"
            return call(f)
        if o == "contains":
            return call(lambda: bool(op["k"] in d))
        if o == "len":
            return call(lambda: len(d))
        if o == "keys":
            ks = call(lambda: list(d.keys()))
            it = call(lambda: list(iter(d)))
            return ks if ks == it else {"keys": ks, "iter": it}
        if o == "values":
            return call(lambda: [to_wire(v) for v in d.values()])
        if o == "items":
            return call(lambda: {"items": self.items(d)})
        if o == "update":
            def f():
                d.update(dict(op["pkvs"]))
                return "ok"
            return call(f)
        if o == "setdefault":
            return call(lambda: {"val": to_wire(d.setdefault(op["k"], op["pv"]))})
        if o == "getD":
            return call(lambda: {"val": to_wire(d.get(op["k"], op["pv"]))})
        if o == "copy":
            def f():
                self.alt = d.copy()
                return {"items": self.items(self.alt)}
            return call(f)
        if o == "swap":
            self.cur, self.alt = self.alt, self.cur
            return "ok"
        raise ValueError(o)


def wire_op(op):
    if "_w" in op:
        return op["_w"]
    w = {"o": op["o"]}
    if "k" in op:
        w["k"] = op["k"]
    if "pv" in op:
        w["v"] = to_wire(op["pv"])
    if "pkvs" in op:
        w["kvs"] = [[k, to_wire(v)] for k, v in op["pkvs"]]
    op["_w"] = w
    return w


class Oracle:
    """the property, stated on quantities (union-find roots), independent of canonical names"""

    def __init__(self, uf, signed):
        self.uf = uf
        self.signed = signed
        self.cur = {}  # root -> wire value in the root's orientation (insertion ordered)
        self.alt = {}

    def q(self, name):
        root, s = self.uf.find(name)
        return root, (s if self.signed else 1)

    def _set(self, k, w):
        if w["k"] == "tup" and len(w["v"]) != 2:
            return "AssertionError"
        root, s = self.q(k)
        self.cur[root] = spec_signed(s, w)
        return "ok"

    def _items_ok(self, got, ref):
        """items in insertion order; each (name, value) consistent with reading through that name"""
        if not isinstance(got, list) or len(got) != len(ref):
            return False
        for (name, w), root in zip(got, ref):
            r, s = self.q(name)
            if r != root or spec_signed(s, ref[root]) != w:
                return False
        return True

    def check(self, op, wop, out):
        """returns None if `out` is what the property demands, else a description"""
        o = op["o"]
        if o == "set":
            exp = self._set(op["k"], wop["v"])
            return None if out == exp else "set: expected %r" % (exp,)
        if o == "get":
            root, s = self.q(op["k"])
            exp = {"val": spec_signed(s, self.cur[root])} if root in self.cur else "KeyError"
            return None if out == exp else "get through %s: expected %r" % (op["k"], exp)
        if o == "del":
            root, s = self.q(op["k"])
            if root in self.cur:
                del self.cur[root]
                exp = "ok"
            else:
                exp = "KeyError"
            return None if out == exp else "del: expected %r" % (exp,)
        if o == "contains":
            exp = self.q(op["k"])[0] in self.cur
            return None if out is exp else "contains: expected %r" % (exp,)
        if o == "len":
            return None if out == len(self.cur) and not isinstance(out, bool) else "len: expected %d" % len(self.cur)
        if o == "keys":
            ok = isinstance(out, list) and [self.uf.find(k)[0] for k in out] == list(self.cur)
            return None if ok else "keys: expected one name per stored quantity, in insertion order"
        if o == "values":
            # raw stored values (no names): each is the stored quantity, in one of its orientations
            ok = isinstance(out, list) and len(out) == len(self.cur) and all(
                w == v or (self.signed and w == spec_signed(-1, v)) for w, v in zip(out, self.cur.values()))
            return None if ok else "values differ from the stored quantities"
        if o == "items":
            ok = isinstance(out, dict) and self._items_ok(out.get("items"), self.cur)
            return None if ok else "items inconsistent with reading through the listed names"
        if o == "update":
            exp = "ok"
            for k, w in wop["kvs"]:
                r = self._set(k, w)
                if r != "ok":
                    exp = r
                    break
            return None if out == exp else "update: expected %r" % (exp,)
        if o == "setdefault":
            root, s = self.q(op["k"])
            if root in self.cur:
                exp = {"val": spec_signed(s, self.cur[root])}
            else:
                r = self._set(op["k"], wop["v"])
                exp = {"val": wop["v"]} if r == "ok" else r
            return None if out == exp else "setdefault: expected %r" % (exp,)
        if o == "getD":
            root, s = self.q(op["k"])
            exp = {"val": spec_signed(s, self.cur[root]) if root in self.cur else wop["v"]}
            return None if out == exp else "get(default): expected %r" % (exp,)
        if o == "copy":
            self.alt = dict(self.cur)
            ok = isinstance(out, dict) and self._items_ok(out.get("items"), self.alt)
            return None if ok else "copy differs from the original"
        if o == "swap":
            self.cur, self.alt = self.alt, self.cur
            return None
        return "unknown op"


KEYED = ["set", "set", "set", "get", "get", "get", "del", "contains", "setdefault", "getD"]
UNKEYED = ["len", "keys", "values", "items", "update", "copy", "swap"]


def gen_ops(rng, names, malformed):
    ops = []
    for _ in range(rng.randint(1, 15)):
        o = rng.choice(KEYED) if rng.random() < 0.72 else rng.choice(UNKEYED)
        op = {"o": o}
        if o in KEYED:
            k = rng.choice(names)
            if rng.random() < 0.1:
                k = "-" + k
            if rng.random() < 0.03:
                k = "unknown"
            op["k"] = k
        if o in ("set", "setdefault", "getD"):
            op["pv"] = gen_val(rng, malformed)
        if o == "update":
            ks = rng.sample(names, rng.randint(0, min(3, len(names))))
            op["pkvs"] = [(k, gen_val(rng, malformed)) for k in ks]
        ops.append(op)
    return ops


def run_sequences(c, cases, stream):
    """cases: list of (ar, names, uf, signed, ops, init) -- runs real, model and oracle"""
    lines = []
    for (ar, names, uf, signed, ops, init) in cases:
        line = {"op": "dict", "signed": signed, "rel": rel_table(ar, names), "ops": [wire_op(op) for op in ops]}
        if init:
            line["ops"] = [{"o": "update", "kvs": [[k, to_wire(v)] for k, v in init]}] + line["ops"]
        lines.append(line)
    outs = c.model(lines)
    for i, (ar, names, uf, signed, ops, init) in enumerate(cases):
        line = lines[i]
        case = {"stream": stream, "signed": signed, "rel": line["rel"], "ops": line["ops"]}
        # idempotence of the real relation (hypothesis of the theorems)
        for row in line["rel"]:
            cc = ar.canonical_signed(row[1])
            if (cc[0], int(cc[1])) != (row[1], 1):
                c.disagree("AliasRelation: canonical name is not its own canonical (+)", case, None, [row, cc])
                break
        orc = Oracle(uf, signed)
        routs = []
        wops = line["ops"]
        k0 = 0
        failed = False
        if init:
            # constructor with `other` == update
            r0 = call(lambda: Real(ar, signed, dict(init)))
            real, out0 = (r0, "ok") if isinstance(r0, Real) else (Real(ar, signed, None), r0)
            routs.append(out0)
            bad = orc.check({"o": "update"}, wops[0], out0)
            if bad:
                failed = True
                c.fail("AliasDict(relation, other): " + bad, case, {"op": wops[0], "got": out0})
            k0 = 1
        else:
            real = Real(ar, signed, None)
        for op, wop in zip(ops, wops[k0:]):
            out = real.do(op)
            routs.append(out)
            bad = orc.check(op, wop, out)
            if bad and not failed:
                failed = True
                c.fail("AliasDict: " + bad, case, {"op": wop, "got": out})
        fin = {"cur": real.items(real.cur), "alt": real.items(real.alt)}
        if not failed and not (orc._items_ok(fin["cur"], orc.cur) and orc._items_ok(fin["alt"], orc.alt)):
            c.fail("AliasDict: final contents differ from the quantities stored", case, fin)
        kinds = tuple(sorted({op["o"] for op in ops}))
        c.count((stream, signed, len(ops), kinds, tuple(r if isinstance(r, str) else "" for r in routs)))
        for op, r in zip(ops, routs[k0:]):
            c.hit("dict/" + op["o"])
            if isinstance(r, str) and r != "ok":
                c.hit("dict/" + r)
        c.hit("dict/signed" if signed else "dict/unsigned")
        if stream == "random":
            c.sample(case, limit=3)
        if outs is None:
            continue
        mo = outs[i]
        if mo in ("bad-op", "bad-json"):
            c.disagree("model driver rejected the case", case, mo, None)
            continue
        if mo["outs"] != routs:
            j = next((j for j, (a, b) in enumerate(zip(mo["outs"], routs)) if a != b), None)
            c.disagree("AliasDict op outputs", case, {"at": j, "out": mo["outs"][j] if j is not None else mo["outs"]},
                       {"at": j, "out": routs[j] if j is not None else routs})
        elif mo["cur"] != fin["cur"] or mo["alt"] != fin["alt"]:
            c.disagree("AliasDict final contents", case, {"cur": mo["cur"], "alt": mo["alt"]}, fin)


def stream_random(c, N):
    rng = c.rng
    cases = []
    for _ in range(N):
        ar, names, uf, adds = gen_relation(rng)
        signed = rng.random() < 0.65
        malformed = rng.random() < 0.15
        ops = gen_ops(rng, names, malformed)
        init = None
        if rng.random() < 0.25:
            ks = rng.sample(names, rng.randint(1, min(3, len(names))))
            init = [(k, gen_val(rng)) for k in ks]
        if len(adds) > 0:
            c.hit("rel/aliased")
        if any(a.startswith("-") != b.startswith("-") for a, b in adds):
            c.hit("rel/negated")
        cases.append((ar, names, uf, signed, ops, init))
    run_sequences(c, cases, "random")


def exhaustive_alphabet():
    return [
        {"o": "set", "k": "a", "pv": 2.0},
        {"o": "set", "k": "b", "pv": (1.0, 3.0)},
        {"o": "set", "k": "c", "pv": -4.0},
        {"o": "set", "k": "b", "pv": 5.0},
        {"o": "set", "k": "b", "pv": (None, 3.0)},
        {"o": "get", "k": "a"},
        {"o": "get", "k": "b"},
        {"o": "get", "k": "c"},
        {"o": "del", "k": "a"},
        {"o": "del", "k": "b"},
        {"o": "del", "k": "c"},
        {"o": "contains", "k": "b"},
        {"o": "len"},
        {"o": "keys"},
        {"o": "setdefault", "k": "b", "pv": 7.0},
        {"o": "setdefault", "k": "c", "pv": (0.0, 1.0)},
        {"o": "getD", "k": "a", "pv": 9.0},
        {"o": "update", "pkvs": [("a", 1.0), ("c", (2.0, 5.0))]},
        {"o": "copy"},
        {"o": "swap"},
    ]


def stream_exhaustive(c, length):
    """ALL operation sequences of exactly `length` ops (their prefixes cover the shorter ones)
    over three names with signs: (b = -a, c free) and (b = -a, c = -b), signed and unsigned"""
    from rtctools._internal.alias_tools import AliasRelation

    alphabet = exhaustive_alphabet()
    configs = []
    for adds in ([("a", "-b")], [("b", "-a"), ("c", "-b")]):
        ar = AliasRelation()
        uf = SignedUF()
        for a, b in adds:
            ar.add(a, b)
            uf.union(a, b)
        for signed in (True, False):
            configs.append((ar, uf, signed))
    for ar, uf, signed in configs:
        cases = [(ar, ["a", "b", "c"], uf, signed, list(seq), None)
                 for seq in itertools.product(alphabet, repeat=length)]
        # in chunks, to bound memory
        for s in range(0, len(cases), 20000):
            run_sequences(c, cases[s:s + 20000], "exhaustive")
    return len(alphabet)


# ---------------------------------------------------------------------------------------------


def run(c):
    from . import c13_io, c13_models, c13_pi

    c.rule = (
        "random consistent alias graphs (2-7 names; chains, stars, random edges, negations, `-name` keys) built "
        "with the real pymoca AliasRelation x signed/unsigned AliasDict x random sequences of 1-15 operations "
        "(set/get/del/contains/len/keys/values/items/update/setdefault/get-default/copy/swap) over value kinds "
        "number (incl. 0, 1, nan, +-inf), bound pair (floats and Timeseries; one or both sides None), list, ndarray, Timeseries, "
        "malformed tuple; all sequences of a fixed length over three names (exhaustive stream); generated "
        "Modelica models with negated alias chains, non-unit nominals and multi-point histories in optimisation "
        "(dictionaries, state goals, accessors before/at/after t0 at 3 probe vectors) and simulation; generated "
        "models with aliased states / controls / constant inputs / algebraics run through the optimisation CSVMixin "
        "(plain and csv_ensemble_mode with 2-3 members) and the simulation CSVMixin, every column of "
        "timeseries_import.csv / initial_state.csv headed by a random (possibly negated) name of its quantity.  "
        "distinct = (stream, signedness, length, op kinds, error pattern) resp. (model shape, observable) tuples"
    )
    c.assumptions = [
        "pymoca AliasRelation is modelled abstractly as canonical_signed : Name -> Name x Sign with the law "
        "canon(canon(n).1) = (canon(n).1, +); the law is re-checked on every generated relation",
        "values stored in signed dictionaries support unary minus (numbers, Timeseries, arrays); Python "
        "aliasing of mutable values (a list stored under a positive sign is stored by reference) is outside the model",
        "pymoca's alias detection and its merging of alias attributes into the canonical variable are trusted",
        "simulation get_var/set_var values compared with 1e-9 relative tolerance (a quotient by the nominal is formed)",
    ]
    from .translate_c13 import gen_alias_dict

    c.prove(extra=gen_alias_dict(c))  # + AliasDict's methods translated from the source on every run
    L = 4 if c.big else 3
    nalpha = stream_exhaustive(c, L)
    stream_random(c, c.n(400, 6000))
    c13_models.run_models(c, c.n(8, 80))
    c13_pi.run_pi(c, c.n(4, 30))
    c13_io.run_io(c, c.n(4, 40))
    c.exhaustive = False
    c.extra["exhaustive_subspace"] = (
        "all %d^%d operation sequences of length %d (hence all shorter ones) over the names a, b, c with "
        "b = -a (c free) and b = -a, c = -b, signed and unsigned" % (nalpha, L, L))
    c.notes.append("the exhaustive sub-space ties the model to the code there; the random streams are samples; "
                   "the unbounded claim (all relations, all sequences, all value types with an involutive minus) "
                   "is carried by the theorems")


def from_wire(w):
    from rtctools.optimization.timeseries import Timeseries
    from .common import unfr

    def num(x):
        return float(unfr(x))

    def atom(a):
        if a["k"] == "none":
            return None
        if a["k"] == "num":
            return num(a["v"])
        return Timeseries(np.array([num(t) for t in a["t"]]), np.array([num(v) for v in a["v"]]))

    if w["k"] == "tup":
        return tuple(atom(a) for a in w["v"])
    if w["k"] == "list":
        return [atom(a) for a in w["v"]]
    return atom(w)


def replay(c, rp):
    """re-runs the recorded AliasDict cases (real code, oracle, model); prints model-based cases"""
    from rtctools._internal.alias_tools import AliasRelation

    from .translate_c13 import gen_alias_dict

    c.prove(extra=gen_alias_dict(c))  # + AliasDict's methods translated from the source on every run
    todo = [f for f in rp.get("failures", []) + rp.get("correspondence_disagreements", []) + rp.get("disagreements", []) if f]
    cases = []
    for f in todo:
        case = f["case"]
        print("replaying:", f["what"])
        if not isinstance(case, dict) or "ops" not in case or "rel" not in case:
            print("  case:", case.get("model", case) if isinstance(case, dict) else case)
            continue
        ar, uf = AliasRelation(), SignedUF()
        names = sorted({row[0] for row in case["rel"] if not row[0].startswith("-")})
        for key, canon, sign in case["rel"]:
            if not key.startswith("-") and key != canon:
                other = ("-" if sign < 0 else "") + canon
                if uf.union(key, other):
                    ar.add(key, other)
        ops = []
        for w in case["ops"]:
            op = {"o": w["o"]}
            if "k" in w:
                op["k"] = w["k"]
            if "v" in w:
                op["pv"] = from_wire(w["v"])
            if "kvs" in w:
                op["pkvs"] = [(k, from_wire(v)) for k, v in w["kvs"]]
            ops.append(op)
        cases.append((ar, names, uf, case["signed"], ops, None))
    if cases:
        run_sequences(c, cases, "replay")
    print("replayed %d dictionary case(s): %d failure(s), %d disagreement(s)" % (len(cases), len(c.failures), len(c.disagreements)))
