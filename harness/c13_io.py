"""
C13, data read by the IO mixins under alias names.

The optimisation `CSVMixin` (plain and `csv_ensemble_mode = True`), the optimisation `PIMixin` and
the simulation `CSVMixin` put what they read from files into alias-keyed stores (`DataStore`
time series, `initial_state.csv` dictionaries) and look it up again by the canonical name of a
model variable.  The property demands that a column / series whose header is ANY name of a
quantity (canonical, alias, negated alias) addresses that quantity, signed.

Generated: a Modelica model (1-2 states, a control, 1-2 constant inputs, 0-1 algebraic variable, each
with a chain of positive / negated aliases), and per ensemble member `timeseries_import.csv` and
`initial_state.csv` whose columns are named through a random name of each quantity (a different
name and different values per member); lower / upper bound columns `<free variable>_Min/_Max`.

Independent oracle (no `canonical_signed`): the generator's own (name, sign) classes.  What was
written under name `n` (sign `s`) with values `s*v` must be seen as `s' * v` through every name
`(n', s')` of the class in `history(m)`, `seed(m)`, `constant_inputs(m)`, `bounds()`,
`get_timeseries(n', m)`, `timeseries_at(n', t, m)` -- a bound pair swapped and negated, the side of
a missing `_Min` / `_Max` column staying `None` -- and, when
the problem is solved, in the first point of `extract_results(m)`.

Correspondence: the Lean reader `readListed` (Model/C13IO.lean; Drivers/C13.lean op `read`) builds an
`AliasDict` from the file columns (header -> value) per reading stage (imported series, then
initial_state.csv), copies it into the result for the problem's listed variables
(`dae_variables`), and is read through every name and `-name`; the outputs must be what the real
problem's `history / seed / constant_inputs` give (theorems `C13_read_listed_transparent`,
`C13_file_column_through_any_alias`).  Bounds (`<name>_Min/_Max` columns): `AliasDict` update + get.
"""
import os

import numpy as np

from .c13_models import EQFORMS, NOMINALS, Scratch, _call, _dict_lines, lit, opt_class, sim_class, write_mo
from .common import quiet_fd

NAN = float("nan")


# ---------------------------------------------------------------------------------------------
# model generator


def gen_io_model(rng, idx):
    variables, equations = [], []
    classes, kinds = {}, {}
    nS = rng.choice([1, 1, 2])
    nC = rng.choice([1, 1, 2])
    nA = rng.choice([0, 1])
    for i in range(nS):
        n = "x%d" % i
        attrs = {}
        if rng.random() < 0.7:
            attrs["nominal"] = rng.choice(NOMINALS)
        if rng.random() < 0.5:
            attrs["min"] = float(rng.randint(-90, -60))
            attrs["max"] = float(rng.randint(60, 90))
        variables.append({"name": n, "attrs": attrs})
        classes[n], kinds[n] = [(n, 1)], "state"
    uattrs = {"fixed": False, "min": float(rng.randint(-9, -6)), "max": float(rng.randint(6, 9))}
    if rng.random() < 0.5:
        uattrs["nominal"] = rng.choice(NOMINALS)
    variables.append({"name": "u0", "prefix": "input", "attrs": uattrs})
    classes["u0"], kinds["u0"] = [("u0", 1)], "control"
    for j in range(nC):
        n = "c%d" % j
        variables.append({"name": n, "prefix": "input", "attrs": {"fixed": True}})
        classes[n], kinds[n] = [(n, 1)], "const"
    for i in range(nS):
        k, g = rng.choice([0.25, 0.5, 1.0]), rng.choice([1.0, 0.5, 2.0])
        equations.append("der(x%d) = (-%s*x%d + %s*u0 + c%d) / 3600.0" % (i, lit(k), i, lit(g), min(i, nC - 1))
                         + (" + c1 / 7200.0" if nC == 2 and nS == 1 else ""))
    alg = {}
    for j in range(nA):
        n = "w%d" % j
        cw, kx, dw = rng.choice([2.0, -1.5, 0.5]), rng.randrange(nS), float(rng.randint(-3, 3))
        variables.append({"name": n, "attrs": {}})
        equations.append("%s = %s*x%d + %s" % (n, lit(cw), kx, lit(dw)))
        classes[n], kinds[n] = [(n, 1)], "alg"
        alg[n] = (cw, "x%d" % kx, dw)
    k = 0
    for base in list(classes):
        for _ in range(rng.choice([1, 1, 2, 3]) if kinds[base] != "alg" else rng.choice([0, 1, 2])):
            a = "a%d" % k
            k += 1
            t, st = rng.choice(classes[base])
            sign = rng.choice([-1, -1, 1])
            form = rng.choice(EQFORMS)
            if form.startswith("{ns}"):
                eq = form.format(a=a, t=t, ns="-" if sign < 0 else "")
            elif "{pm}" in form:
                eq = form.format(a=a, t=t, pm="+" if sign < 0 else "-")
            else:
                eq = form.format(a=a, t=t, s="-" if sign < 0 else "")
            equations.append(eq)
            v = {"name": a, "attrs": {}}
            if rng.random() < 0.3:
                v["prefix"] = "output"
            variables.append(v)
            classes[base].append((a, sign * st))
    rng.shuffle(equations)
    return {"name": "Io%d" % idx, "variables": variables, "equations": equations, "classes": classes,
            "kinds": kinds, "alg": alg}


# ---------------------------------------------------------------------------------------------
# files


def q4(rng, lo=-40, hi=40):
    return rng.randint(lo, hi) / 4


def stamp(h):
    return "2020-01-%02d %02d:00:00" % (1 + h // 24, h % 24)


def gen_member_data(rng, spec, hours, free_names, with_bounds):
    """what one member's files contain.  Everything is kept in the orientation of the class base
    (`v`), together with the name it is written through"""
    T = len(hours)
    ts, init, bnd = {}, {}, {}
    for base, members in spec["classes"].items():
        kind = spec["kinds"][base]
        if kind == "const" or rng.random() < 0.6:
            vals = [q4(rng) for _ in range(T)]
            if kind != "const" and rng.random() < 0.3:
                vals[rng.randrange(1, T)] = NAN  # "no seed here"
            n, s = rng.choice(members)
            ts[base] = {"through": n, "sign": s, "base_values": vals}
        if kind != "const" and rng.random() < 0.55:
            n, s = rng.choice(members)
            v = q4(rng)
            if base in ts and rng.random() < 0.5:
                v = ts[base]["base_values"][0]
            init[base] = {"through": n, "sign": s, "base_value": v}
        if with_bounds and kind != "const" and base in free_names and rng.random() < 0.5:
            lo = [float(rng.randint(-3000, -2100)) for _ in range(T)]
            hi = [float(rng.randint(2100, 4000)) for _ in range(T)]
            # only a `_Min` or only a `_Max` column: the other side of the pair is None (stays missing
            # through a negated name -- finding F56).  The kept column is the listed name's own side.
            sf = free_names[base][1]
            cols = rng.choice(["both", "both", "min", "max"])
            if cols != "both":
                if (cols == "min") == (sf > 0):
                    hi = None
                else:
                    lo = None
            bnd[base] = {"through": free_names[base][0], "sign": sf, "columns": cols, "base_lo": lo, "base_hi": hi}
    return {"ts": ts, "init": init, "bnd": bnd, "no_initial_state_file": rng.random() < 0.12}


def fnum(x):
    return "nan" if x != x else repr(float(x))


def ts_columns(data):
    """[(header, [values as written])] in file order"""
    cols = []
    for base, e in data["ts"].items():
        cols.append((e["through"], [e["sign"] * v for v in e["base_values"]]))
    for base, e in data["bnd"].items():
        lo, hi = own_sides(e)
        if lo is not None:
            cols.append((e["through"] + "_Min", lo))
        if hi is not None:
            cols.append((e["through"] + "_Max", hi))
    return cols


def own_sides(e):
    """the bound pair in the orientation of the name the columns are written for"""
    neg = lambda l: None if l is None else [-v for v in l]  # noqa: E731
    return (e["base_lo"], e["base_hi"]) if e["sign"] > 0 else (neg(e["base_hi"]), neg(e["base_lo"]))


def side_ts_wire(secs, values):
    return {"k": "none"} if values is None else ts_wire(secs, values)


def init_columns(data):
    return [(e["through"], e["sign"] * e["base_value"]) for e in data["init"].values()]


def write_member(folder, data, hours, rng):
    os.makedirs(folder, exist_ok=True)
    cols = ts_columns(data)
    rng.shuffle(cols)
    with open(os.path.join(folder, "timeseries_import.csv"), "w") as f:
        f.write(",".join(["Time"] + [h for h, _ in cols]) + "\n")
        for i, h in enumerate(hours):
            f.write(",".join([stamp(h)] + [fnum(v[i]) for _, v in cols]) + "\n")
    icols = init_columns(data)
    if icols and not data["no_initial_state_file"]:
        with open(os.path.join(folder, "initial_state.csv"), "w") as f:
            f.write(",".join(h for h, _ in icols) + "\n")
            f.write(",".join(fnum(v) for _, v in icols) + "\n")
    else:
        data["init"] = {}


# ---------------------------------------------------------------------------------------------
# expectations, in the orientation of the class base, as wire values


def ts_wire(times, values):
    from rtctools.optimization.timeseries import Timeseries

    from .c13 import to_wire

    return to_wire(Timeseries(np.array(times, dtype=float), np.array(values, dtype=float)))


def expected(data, base, kind, secs, nhist=1):
    """{observable: wire value in base orientation} for what the files of this member say;
    `nhist` = number of stamps up to and including t0"""
    exp = {}
    ts, init, bnd = data["ts"].get(base), data["init"].get(base), data["bnd"].get(base)
    if init is not None:
        exp["history"] = ts_wire(secs[:1], [init["base_value"]])
    elif ts is not None:
        exp["history"] = ts_wire(secs[:nhist], ts["base_values"][:nhist])
    if ts is not None:
        exp["get_timeseries"] = ts_wire(secs, ts["base_values"])
        if kind == "const":
            exp["constant_inputs"] = ts_wire(secs, ts["base_values"])
        else:
            exp["seed"] = ts_wire(secs, [0.0 if v != v else v for v in ts["base_values"]])
    if bnd is not None:
        exp["bounds"] = {"k": "tup", "v": [side_ts_wire(secs, bnd["base_lo"]), side_ts_wire(secs, bnd["base_hi"])]}
    return exp


# ---------------------------------------------------------------------------------------------
# optimisation CSVMixin


def observe_member(c, p, spec, data, m, secs, nhist, mode, case, lines, pending, solved):
    """oracle + model correspondence for what member `m`'s files (`data`) contain"""
    from .c13 import spec_signed, to_wire

    ar = p.alias_relation
    obs = {"history": p.history(m), "seed": p.seed(m), "constant_inputs": p.constant_inputs(m)}
    if m == 0:
        obs["bounds"] = p.bounds()
    for base, members in spec["classes"].items():
        kind = spec["kinds"][base]
        exp = expected(data, base, kind, secs, nhist)
        src = {"history": "init" if base in data["init"] else "ts", "bounds": "bnd"}
        for what, d in obs.items():
            e = exp.get(what)
            through = data[src.get(what, "ts")].get(base, {}).get("sign", 0)
            rb = _call(lambda: d[base])
            for n, s in members:
                rn = _call(lambda: d[n])
                c.count(("io", mode, what, kind, through, s, e is not None, m > 0,
                         data["bnd"].get(base, {}).get("columns") if what == "bounds" else None))
                c.hit("io/%s/%s" % (mode, what))
                if what == "bounds" and e is not None and data["bnd"][base]["columns"] != "both" and s < 0:
                    c.hit("io/%s/bounds-one-column-through-negated-name" % mode)
                if e is None:
                    # nothing was put in for this quantity: all names agree (present or absent)
                    if rb[0] != rn[0] or (rb[0] == "ok" and to_wire(rn[1]) != spec_signed(s, to_wire(rb[1]))):
                        c.fail("%s(%d) differs between %r and its alias %r" % (what, m, base, n), case,
                               {"base": rb[0], "alias": rn[0]})
                    continue
                if rn[0] != "ok":
                    c.fail("%s of member %d: the file gives %r through the name %r, but reading through %r %s"
                           % (what, m, base, data[src.get(what, "ts")][base]["through"], n,
                              "finds nothing" if rn[0] == "KeyError" else "raises " + rn[0][6:]), case,
                           {"result": rn, "expected": spec_signed(s, e)})
                elif to_wire(rn[1]) != spec_signed(s, e):
                    c.fail("%s of member %d through %r is not sign * what the file gives through %r"
                           % (what, m, n, data[src.get(what, "ts")][base]["through"]), case,
                           {"sign": s, "got": to_wire(rn[1]), "expected": spec_signed(s, e)})
        if "get_timeseries" in exp:
            e = exp["get_timeseries"]
            vb = data["ts"][base]["base_values"]
            tq = [secs[0], secs[-1], secs[1], (secs[0] + secs[1]) / 2]
            for n, s in members:
                c.count(("io", mode, "get_timeseries", kind, data["ts"][base]["sign"], s, m > 0))
                c.hit("io/%s/get_timeseries" % mode)
                r = _call(lambda: to_wire(p.get_timeseries(n, m)))
                if r[0] != "ok" or r[1] != spec_signed(s, e):
                    c.fail("get_timeseries(%r, %d) is not sign * the imported column of %r" % (n, m, base), case,
                           {"sign": s, "got": r, "expected": spec_signed(s, e)})
                for t in tq:
                    r = _call(lambda: float(p.timeseries_at(n, t, m)))
                    ref = float(np.interp(t, secs, vb))
                    if r[0] != "ok" or not (r[1] == s * ref or (r[1] != r[1] and ref != ref)
                                            or abs(r[1] - s * ref) <= 1e-12 * max(1.0, abs(ref))):
                        c.fail("timeseries_at(%r, %s, %d) is not sign * the imported column of %r" % (n, t, m, base),
                               case, {"sign": s, "got": r, "expected": s * ref})
        # the initial state read from the files is the first point of the solution
        if solved and "history" in exp and kind == "state":
            res = p.extract_results(m)
            v0 = float(np.asarray(data["init"][base]["base_value"] if base in data["init"]
                                  else data["ts"][base]["base_values"][nhist - 1]))
            if v0 == v0:
                for n, s in members:
                    c.count(("io", mode, "results[0]", s, m > 0))
                    c.hit("io/%s/results0" % mode)
                    got = float(res[n][0])
                    if not abs(got - s * v0) <= 1e-6 * max(1.0, abs(v0)):
                        c.fail("member %d: the solution does not start at the initial state given through %r"
                               % (m, data["init"].get(base, data["ts"].get(base))["through"]), case,
                               {"name": n, "sign": s, "expected": s * v0, "got": got})
    # ---- correspondence: Lean AliasDict initialised with the file columns, read through every name
    wnames = lambda bases: [n for b in spec["classes"] if b in bases for n, _ in spec["classes"][b]]  # noqa: E731
    tsw = {e["through"]: (b, [e["sign"] * v for v in e["base_values"]]) for b, e in data["ts"].items()}
    puts = {
        "history": [(h, ts_wire(secs[:nhist], v[:nhist])) for h, (b, v) in tsw.items()]
        + [(h, ts_wire(secs[:1], [v])) for h, v in init_columns(data)],
        "seed": [(h, ts_wire(secs, [0.0 if x != x else x for x in v])) for h, (b, v) in tsw.items()
                 if spec["kinds"][b] != "const"],
        "constant_inputs": [(h, ts_wire(secs, v)) for h, (b, v) in tsw.items() if spec["kinds"][b] == "const"],
    }
    cover = {"history": set(data["ts"]) | set(data["init"]),
             "seed": {b for b in data["ts"] if spec["kinds"][b] != "const"},
             "constant_inputs": {b for b in data["ts"] if spec["kinds"][b] == "const"}}
    if m == 0:
        puts["bounds"] = []
        for b, e in data["bnd"].items():
            lo, hi = own_sides(e)
            puts["bounds"].append((e["through"], {"k": "tup", "v": [side_ts_wire(secs, lo), side_ts_wire(secs, hi)]}))
        cover["bounds"] = set(data["bnd"])
    # which names the reader loops over (public `dae_variables`); history is read in two stages:
    # IOMixin.history from the imported series, then CSVMixin.history from initial_state.csv
    dv = {k: [v.name() for v in p.dae_variables[k]] for k in
          ("states", "algebraics", "control_inputs", "constant_inputs", "free_variables")}
    hist_vars = dv["states"] + dv["algebraics"] + dv["control_inputs"] + dv["constant_inputs"]
    hist_ts = [(h, ts_wire(secs[:nhist], v[:nhist])) for h, (b, v) in tsw.items()]
    hist_init = [(h, ts_wire(secs[:1], [v])) for h, v in init_columns(data)]
    stages = {
        "history": [(hist_ts, hist_vars)] + ([(hist_init, dv["free_variables"])] if mode != "pi" else []),
        "seed": [([(h, ts_wire(secs, [0.0 if x != x else x for x in v])) for h, (b, v) in tsw.items()],
                  dv["free_variables"])],
        "constant_inputs": [([(h, ts_wire(secs, v)) for h, (b, v) in tsw.items()], dv["constant_inputs"])],
    }
    from .c13 import rel_table

    for what, kvs in puts.items():
        nm = wnames(cover[what])
        if not nm:
            continue
        keys = list(nm) + ["-" + n for n in nm]
        if what in stages:
            # Lean `readListed` (Model/C13IO.lean): per stage AliasDict(relation, columns), copied into
            # the result for every listed variable, KeyError swallowed
            line = {"op": "read", "rel": rel_table(ar, nm + [v for v in hist_vars if v not in nm]),
                    "stages": [{"cols": [[k, w] for k, w in cols], "vars": vs} for cols, vs in stages[what]],
                    "keys": keys}
            real = []
        else:
            # the store is built as AliasDict(relation, columns): an `update` with the file columns
            line, keys = _dict_lines(ar, nm, [], True)
            line["ops"] = [{"o": "update", "kvs": [[k, w] for k, w in kvs]}] + line["ops"]
            real = ["ok"]
        for k in keys:
            r = _call(lambda: obs[what][k])
            real.append({"val": to_wire(r[1])} if r[0] == "ok" else r[0])
        lines.append(line)
        pending.append((case, "%s(%d) [%s]" % (what, m, mode), real))


def cached_compile(P):
    """the three readers share one pymoca compilation (cache file in the scratch model folder)"""

    def compiler_options(self):
        o = super(P, self).compiler_options()
        o["cache"] = True
        return o

    P.compiler_options = compiler_options
    return P


def check_csv_optimisation(c, spec, mfolder, folder, lines, pending, ensemble):
    from rtctools.optimization.csv_mixin import CSVMixin

    rng = c.rng
    equidistant = rng.random() < 0.7
    T = rng.randint(3, 5)
    hours = list(range(T)) if equidistant else sorted(rng.sample(range(1, 12), T - 1) + [0])
    secs = [3600.0 * h for h in hours]
    target = rng.choice([n for b in spec["classes"] if spec["kinds"][b] == "state" for n, _ in spec["classes"][b]])

    def objective(self, ensemble_member):
        return (self.state_at(target, self.times()[-1], ensemble_member=ensemble_member) - 1.0) ** 2

    P = opt_class([0.0], {"objective": objective, "csv_ensemble_mode": ensemble, "csv_equidistant": equidistant,
                          "write": lambda self: None}, mixins=(CSVMixin,))
    delattr(P, "times")
    cached_compile(P)
    with quiet_fd():
        p = P(model_folder=mfolder, model_name=spec["name"], input_folder=folder, output_folder=folder)
    c.programs += 1
    # under which of its names does the problem list each free variable?  (`<name>_Min/_Max` columns
    # are derived identifiers, defined for the listed name only); signs come from the generator
    listed = {v.name() for v in p.dae_variables["free_variables"]}
    free_names = {}
    for base, members in spec["classes"].items():
        for n, s in members:
            if n in listed:
                free_names[base] = (n, s)
    M = rng.choice([2, 2, 3]) if ensemble else 1
    members_data = []
    names = ["m%d" % m for m in range(M)]
    if ensemble:
        with open(os.path.join(folder, "ensemble.csv"), "w") as f:
            f.write("name,probability\n" + "".join("%s,%r\n" % (n, 1.0 / M) for n in names))
    for m in range(M):
        data = gen_member_data(rng, spec, hours, free_names, with_bounds=(m == 0))
        write_member(os.path.join(folder, names[m]) if ensemble else folder, data, hours, rng)
        members_data.append(data)
    mode = "csv-ensemble" if ensemble else "csv-plain"
    case = {"stream": "io-" + mode, "model": spec["text"], "classes": spec["classes"], "hours": hours,
            "equidistant": equidistant, "members": members_data}
    # solve only when the files cannot contradict the model equations at t0 (an algebraic variable's
    # history is imposed at t0)
    solve = rng.random() < 0.5 and not any(
        spec["kinds"][b] == "alg" for d in members_data for b in list(d["ts"]) + list(d["init"]))
    with quiet_fd():
        r_run = _call(p.optimize if solve else p.pre)
    ar = p.alias_relation
    for base, members in spec["classes"].items():
        for n, s in members:
            cb, sb = ar.canonical_signed(base)
            cn, sn = ar.canonical_signed(n)
            if cb != cn or sb * sn != s:
                c.hit("mo/alias-not-detected")
                return
    if r_run[0] != "ok":
        c.fail("%s raised on generated CSV input with alias-named columns: %s" % ("optimize()" if solve else "pre()", r_run), case)
        return
    c.hit("io/%s/%s" % (mode, ("solved" if r_run[1] else "solver-failed") if solve else "read-only"))
    for m, data in enumerate(members_data):
        observe_member(c, p, spec, data, m, secs, 1, mode, case, lines, pending, solve and r_run[1])
    c.sample({"stream": case["stream"], "model": spec["text"], "classes": spec["classes"],
              "columns": [[h for h, _ in ts_columns(d)] for d in members_data],
              "initial_state": [[h for h, _ in init_columns(d)] for d in members_data]}, limit=4)


# ---------------------------------------------------------------------------------------------
# optimisation PIMixin: timeseries_import.xml series whose rtcDataConfig id is an alias name or `-name`


def write_pi_import(folder, series, hours, fidx):
    """series: [(parameterId, [values])]"""
    def date(h):
        return 'date="2020-01-%02d" time="%02d:00:00"' % (1 + h // 24, h % 24)

    out = ['<ns0:TimeSeries xmlns:ns0="http://www.wldelft.nl/fews/PI" version="1.2"><ns0:timeZone>0.0</ns0:timeZone>']
    for pid, vals in series:
        out.append("<ns0:series><ns0:header><ns0:type>instantaneous</ns0:type><ns0:locationId>L</ns0:locationId>"
                   '<ns0:parameterId>%s</ns0:parameterId><ns0:timeStep multiplier="3600" unit="second" />'
                   "<ns0:startDate %s /><ns0:endDate %s /><ns0:forecastDate %s />"
                   "<ns0:missVal>-999.0</ns0:missVal><ns0:units>m</ns0:units></ns0:header>"
                   % (pid, date(hours[0]), date(hours[-1]), date(hours[fidx])))
        out += ['<ns0:event %s flag="0" value="%s" />' % (date(h), "-999.0" if v != v else repr(float(v)))
                for h, v in zip(hours, vals)]
        out.append("</ns0:series>")
    out.append("</ns0:TimeSeries>")
    with open(os.path.join(folder, "timeseries_import.xml"), "w") as f:
        f.write("".join(out))


def check_pi_optimisation(c, spec, mfolder, folder, lines, pending):
    from rtctools.optimization.pi_mixin import PIMixin

    from .c13_pi import write_pi_inputs

    rng = c.rng
    T = rng.randint(3, 6)
    hours = list(range(T))
    fidx = rng.randint(0, T - 2)  # forecast date: `fidx` stamps of history before t0
    secs = [3600.0 * (h - hours[fidx]) for h in hours]
    allnames = [n for b in spec["classes"] for n, _ in spec["classes"][b]]
    write_pi_inputs(folder, allnames, set(), T)
    data = {"ts": {}, "init": {}, "bnd": {}, "no_initial_state_file": True}
    series = []
    for base, members in spec["classes"].items():
        kind = spec["kinds"][base]
        if kind == "const" or rng.random() < 0.7:
            vals = [q4(rng) for _ in range(T)]
            if kind != "const" and fidx + 1 < T and rng.random() < 0.3:
                vals[rng.randrange(fidx + 1, T)] = NAN  # missing value
            n, s = rng.choice(members)
            neg_id = rng.random() < 0.35  # the id "-n" of rtcDataConfig: the series of the negated name
            if neg_id:
                data["ts"][base] = {"through": "-" + n, "sign": -s, "base_values": vals}
                series.append(("P_neg_" + n, [-s * v for v in vals]))
            else:
                data["ts"][base] = {"through": n, "sign": s, "base_values": vals}
                series.append(("P_" + n, [s * v for v in vals]))
    rng.shuffle(series)
    write_pi_import(folder, series, hours, fidx)

    def objective(self, ensemble_member):
        return 0

    P = opt_class([0.0], {"objective": objective, "pi_binary_timeseries": False, "pi_validate_timeseries": False,
                          "write": lambda self: None}, mixins=(PIMixin,))
    delattr(P, "times")
    cached_compile(P)
    case = {"stream": "io-pi", "model": spec["text"], "classes": spec["classes"], "hours": hours,
            "forecast_index": fidx, "series": series, "data": data}
    with quiet_fd():
        r_run = _call(lambda: P(model_folder=mfolder, model_name=spec["name"], input_folder=folder, output_folder=folder))
        if r_run[0] == "ok":
            p = r_run[1]
            r_run = _call(p.pre)
    c.programs += 1
    if r_run[0] != "ok":
        c.fail("PIMixin pre() raised on import series with alias ids: %s" % (r_run,), case)
        return
    ar = p.alias_relation
    for base, members in spec["classes"].items():
        for n, s in members:
            cb, sb = ar.canonical_signed(base)
            cn, sn = ar.canonical_signed(n)
            if cb != cn or sb * sn != s:
                c.hit("mo/alias-not-detected")
                return
    c.hit("io/pi/history-stamps-%d" % (fidx + 1))
    observe_member(c, p, spec, data, 0, secs, fidx + 1, "pi", case, lines, pending, False)
    c.sample({"stream": "io-pi", "model": spec["text"], "classes": spec["classes"], "series": [s for s, _ in series],
              "forecast_index": fidx}, limit=2)


# ---------------------------------------------------------------------------------------------
# simulation CSVMixin: inputs and initial state given through alias-named columns


def check_csv_simulation(c, spec, folder):
    from rtctools.simulation.csv_mixin import CSVMixin

    rng = c.rng
    T = rng.randint(3, 5)
    hours = list(range(T))
    data = {"ts": {}, "init": {}, "bnd": {}, "no_initial_state_file": False}
    for base, members in spec["classes"].items():
        kind = spec["kinds"][base]
        if kind in ("const", "control"):
            n, s = rng.choice(members)
            data["ts"][base] = {"through": n, "sign": s, "base_values": [q4(rng) for _ in range(T)]}
        elif kind == "state" and rng.random() < 0.8:
            n, s = rng.choice(members)
            data["init"][base] = {"through": n, "sign": s, "base_value": q4(rng)}
    for f in ("timeseries_import.csv", "initial_state.csv"):
        if os.path.exists(os.path.join(folder, f)):
            os.remove(os.path.join(folder, f))
    write_member(folder, data, hours, rng)
    case = {"stream": "io-csv-sim", "model": spec["text"], "classes": spec["classes"], "hours": hours, "data": data}
    S = type("SC", (CSVMixin, sim_class()), {})
    with quiet_fd():
        r = _call(lambda: S(model_folder=folder, model_name=spec["name"], input_folder=folder, output_folder=folder))
        if r[0] != "ok":
            c.fail("simulation CSVMixin construction raised on alias-named columns: %s" % (r,), case)
            return
        s = r[1]
        r_init = _call(lambda: (s.pre(), s.initialize()))
    c.programs += 1
    ar = s.alias_relation
    for base, members in spec["classes"].items():
        for n, sg in members:
            cb, sb = ar.canonical_signed(base)
            cn, sn = ar.canonical_signed(n)
            if cb != cn or sb * sn != sg:
                c.hit("mo/alias-not-detected")
                return
    if r_init[0] != "ok":
        c.hit("io/csv-sim/initialize-failed")
        c.notes.append("simulation CSVMixin initialize() failed on a generated model: %s" % (r_init,))
        return

    def check_inputs(i, tag):
        for base, e in data["ts"].items():
            v = e["base_values"][i]
            for n, sg in spec["classes"][base]:
                c.count(("io", "csv-sim", tag, spec["kinds"][base], e["sign"], sg))
                c.hit("io/csv-sim/" + tag)
                got = float(s.get_var(n))
                if not abs(got - sg * v) <= 1e-9 * max(1.0, abs(v)):
                    c.fail("simulation: input %r given through the column %r reads %r through %r (%s, row %d)"
                           % (base, e["through"], got, n, tag, i), case, {"sign": sg, "expected": sg * v, "got": got})

    check_inputs(0, "input-after-initialize")
    for base, e in data["init"].items():
        v = e["base_value"]
        for n, sg in spec["classes"][base]:
            c.count(("io", "csv-sim", "initial-state", e["sign"], sg))
            c.hit("io/csv-sim/initial-state")
            got = float(s.get_var(n))
            if not abs(got - sg * v) <= 1e-6 * max(1.0, abs(v)):
                c.fail("simulation: initial state of %r given through %r is not what get_var(%r) shows after initialize()"
                       % (base, e["through"], n), case, {"sign": sg, "expected": sg * v, "got": got})
    for i in range(1, min(T, 3)):
        with quiet_fd():
            r_up = _call(lambda: s.update(-1))
        if r_up[0] != "ok":
            c.hit("io/csv-sim/update-failed")
            return
        check_inputs(i, "input-after-update")


# ---------------------------------------------------------------------------------------------


def run_io(c, n):
    lines, pending = [], []
    for i in range(n):
        spec = gen_io_model(c.rng, i)
        with Scratch() as mfolder:
            spec["text"] = write_mo(mfolder, spec["name"], spec["variables"], spec["equations"])
            # one compilation, three readers (each with its own input folder)
            for reader in ("ens", "plain", "pi"):
                folder = os.path.join(mfolder, "in_" + reader)
                os.makedirs(folder)
                if reader == "pi":
                    check_pi_optimisation(c, spec, mfolder, folder, lines, pending)
                else:
                    check_csv_optimisation(c, spec, mfolder, folder, lines, pending, reader == "ens")
        if i % 2 == 0:
            with Scratch() as folder:
                write_mo(folder, spec["name"], spec["variables"], spec["equations"])
                check_csv_simulation(c, spec, folder)
    outs = c.model(lines)
    if outs is None:
        return
    for mo, (case, what, real) in zip(outs, pending):
        if mo in ("bad-op", "bad-json"):
            c.disagree("model driver rejected an IO-derived case (%s)" % what, case, mo, None)
        elif mo["outs"] != real:
            c.disagree("%s: file columns read through alias names (Lean reader model vs problem)" % what, case,
                       mo["outs"], real)
