def run_models(c, n):
    pass
