"""
Generated Modelica models with alias chains (C13): optimisation observables and simulation
get_var/set_var sequences.  Also provides the small `.mo` writer / problem factories reused by C14.
"""
import logging
import math
import os
import shutil
import tempfile
import warnings

import numpy as np

from .common import fr, quiet_fd, same

INF = float("inf")


# ---------------------------------------------------------------------------------------------
# writing models


def lit(x):
    """Modelica literal of a python number"""
    if isinstance(x, bool):
        return "true" if x else "false"
    if isinstance(x, int):
        return str(x)
    if isinstance(x, str):
        return x  # an expression
    return repr(float(x))


def decl(v):
    """one declaration line from a variable record: prefix, type, name, attrs (dict), value"""
    attrs = ", ".join("%s = %s" % (k, lit(val)) for k, val in v.get("attrs", {}).items())
    s = "  %s%s %s" % (v.get("prefix", "") + (" " if v.get("prefix") else ""), v.get("type", "Real"), v["name"])
    if attrs:
        s += "(" + attrs + ")"
    if "value" in v:
        s += " = " + lit(v["value"])
    return s + ";"


def write_mo(folder, name, variables, equations, initial_equations=()):
    lines = ["model " + name]
    lines += [decl(v) for v in variables]
    if initial_equations:
        lines.append("initial equation")
        lines += ["  " + e + ";" for e in initial_equations]
    lines.append("equation")
    lines += ["  " + e + ";" for e in equations]
    lines.append("end " + name + ";")
    path = os.path.join(folder, name + ".mo")
    with open(path, "w") as f:
        f.write("\n".join(lines) + "\n")
    return "\n".join(lines)


class Scratch:
    def __enter__(self):
        self.dir = tempfile.mkdtemp(prefix="rtcverif_mo_")
        return self.dir

    def __exit__(self, *a):
        shutil.rmtree(self.dir, ignore_errors=True)


def silence():
    logging.getLogger("rtctools").setLevel(logging.CRITICAL)
    warnings.filterwarnings("ignore")


def opt_class(times, extra=None, mixins=()):
    """ModelicaMixin optimisation problem class with the disk cache off"""
    silence()
    from rtctools.optimization.collocated_integrated_optimization_problem import (
        CollocatedIntegratedOptimizationProblem,
    )
    from rtctools.optimization.modelica_mixin import ModelicaMixin

    tarr = np.array(times, dtype=float)

    class P(*mixins, ModelicaMixin, CollocatedIntegratedOptimizationProblem):
        def compiler_options(self):
            o = super().compiler_options()
            o["cache"] = False
            return o

        def times(self, variable=None):
            return tarr

        def solver_options(self):
            o = super().solver_options()
            o["ipopt"] = dict(o.get("ipopt", {}), print_level=0, sb="yes")
            o["print_time"] = False
            return o

    if extra:
        for k, v in extra.items():
            setattr(P, k, v)
    return P


def sim_class(extra=None):
    silence()
    from rtctools.simulation.simulation_problem import SimulationProblem

    class S(SimulationProblem):
        def compiler_options(self):
            o = super().compiler_options()
            o["cache"] = False
            return o

    if extra:
        for k, v in extra.items():
            setattr(S, k, v)
    return S


# ---------------------------------------------------------------------------------------------
# alias model generator

NOMINALS = [1.0, 2.0, 10.0, 0.5, 100.0, 4.0, 10.0, 25.0]
EQFORMS = ["{a} = {s}{t}", "{a} = {s}{t}", "{ns}{a} = {t}", "{a} {pm} {t} = 0", "0 = {a} {pm} {t}"]


def gen_alias_model(rng, idx):
    """returns dict(name, variables, equations, classes={base: [(name, sign)]}, kinds={base: kind})"""
    from .c13 import SignedUF

    variables, equations = [], []
    classes, kinds = {}, {}
    nS = rng.choice([1, 1, 2])
    nA = rng.choice([0, 1, 1, 2])
    starts, der0 = {}, {}
    for i in range(nS):
        n = "x%d" % i
        start = rng.randint(-8, 8) / 4
        attrs = {"start": start, "fixed": True}
        if rng.random() < 0.8:
            attrs["nominal"] = rng.choice(NOMINALS)
        if rng.random() < 0.7:
            attrs["min"] = float(rng.randint(-60, -10))
            attrs["max"] = float(rng.randint(10, 90))
        variables.append({"name": n, "attrs": attrs})
        starts[n] = start
        classes[n] = [(n, 1)]
        kinds[n] = "state"
    variables.append({"name": "u0", "prefix": "input", "attrs": dict(
        {"fixed": False, "min": float(rng.randint(-6, -1)), "max": float(rng.randint(1, 7))},
        **({"nominal": rng.choice(NOMINALS)} if rng.random() < 0.7 else {}))})
    classes["u0"] = [("u0", 1)]
    kinds["u0"] = "control"
    starts["u0"] = 0.5
    for i in range(nS):
        k = rng.choice([0.25, 0.5, 1.0])
        g = rng.choice([1.0, 0.5, 2.0])
        equations.append("der(x%d) = -%s*x%d + %s*u0" % (i, lit(k), i, lit(g)) + (" + 0.25*x0" if i == 1 else ""))
        # derivative at t0 implied by the fixed starts and u0(t0) = 0.5 (used for a consistent history)
        der0["x%d" % i] = -k * starts["x%d" % i] + g * 0.5 + (0.25 * starts["x0"] if i == 1 else 0.0)
    for j in range(nA):
        n = "w%d" % j
        attrs = {}
        if rng.random() < 0.8:
            attrs["nominal"] = rng.choice(NOMINALS)
        if rng.random() < 0.5:
            attrs["start"] = float(rng.randint(1, 9))  # non-fixed non-zero start: a seed
        if rng.random() < 0.5:
            attrs["min"] = float(rng.randint(-900, -300))
            attrs["max"] = float(rng.randint(300, 900))
        variables.append({"name": n, "attrs": attrs})
        cw, kx, dw = rng.choice([2.0, -1.5, 0.5]), rng.randrange(nS), float(rng.randint(-3, 3))
        equations.append("%s = %s*x%d + %s" % (n, lit(cw), kx, lit(dw)))
        starts[n] = cw * starts["x%d" % kx] + dw  # value at t0 implied by the fixed starts
        classes[n] = [(n, 1)]
        kinds[n] = "alg"
    # alias chains
    k = 0
    uf = SignedUF()
    for base in list(classes):
        nal = rng.choice([0, 1, 1, 2, 3]) if base != "u0" else rng.choice([0, 1, 2])
        for _ in range(nal):
            a = "a%d" % k
            k += 1
            t, st = rng.choice(classes[base])
            sign = rng.choice([-1, -1, 1])
            form = rng.choice(EQFORMS)
            if form.startswith("{ns}"):
                eq = form.format(a=a, t=t, ns="-" if sign < 0 else "")
            elif "{pm}" in form:
                # a + t = 0  <=> a = -t ;  a - t = 0 <=> a = t
                eq = form.format(a=a, t=t, pm="+" if sign < 0 else "-")
            else:
                eq = form.format(a=a, t=t, s="-" if sign < 0 else "")
            equations.append(eq)
            attrs = {}
            r = rng.random()
            if r < 0.2:
                attrs["min"] = float(rng.randint(-2000, -1000))
                attrs["max"] = float(rng.randint(1000, 2000))
            elif r < 0.3:
                attrs["nominal"] = rng.choice(NOMINALS)
            v = {"name": a, "attrs": attrs}
            if rng.random() < 0.3:
                v["prefix"] = "output"
            variables.append(v)
            classes[base].append((a, sign * st))
    rng.shuffle(equations)
    return {"name": "A%d" % idx, "variables": variables, "equations": equations, "classes": classes,
            "kinds": kinds, "starts": starts, "der0": der0}


# ---------------------------------------------------------------------------------------------


def _call(fn):
    try:
        return ("ok", fn())
    except KeyError:
        return ("KeyError", None)
    except Exception as e:
        return ("raise:" + type(e).__name__, str(e)[:200])


def _dict_lines(ar, names, d, signed, default=None):
    """model line: start from the real dict's items, read through every name (and -name)"""
    from .c13 import rel_table, to_wire

    keys = list(names) + ["-" + n for n in names]
    if default is None:
        ops = [{"o": "get", "k": k} for k in keys]
    else:
        ops = [{"o": "getD", "k": k, "v": to_wire(default)} for k in names]
        keys = list(names)
    init = [[k, to_wire(v)] for k, v in d]
    return {"op": "dict", "signed": signed, "rel": rel_table(ar, names), "init": init, "ops": ops}, keys


def check_optimisation(c, spec, folder, lines, pending):
    from .c13 import spec_signed, to_wire

    rng = c.rng
    times = sorted(rng.sample([0.0, 0.5, 1.0, 1.5, 2.0, 3.0, 4.0], rng.randint(3, 4)))
    times[0] = 0.0
    target = rng.choice([n for b in spec["classes"] if spec["kinds"][b] == "state" for n, _ in spec["classes"][b]])

    def objective(self, ensemble_member):
        return (self.state_at(target, self.times()[-1], ensemble_member=ensemble_member) - 1.0) ** 2

    # a history with several points before t0, stored through a random name of each quantity
    hist = {}
    for base, members in spec["classes"].items():
        if rng.random() < 0.85:
            ht = rng.choice([[-2.0, -1.0, 0.0], [-3.5, -2.0, -0.5, 0.0], [-1.0, 0.0]])
            vb = [rng.randint(-12, 12) / 4 for _ in ht]
            if base in spec["starts"]:
                vb[-1] = spec["starts"][base]  # consistent with the fixed start value
            if base in spec["der0"]:
                vb[-2] = vb[-1] - spec["der0"][base] * (ht[-1] - ht[-2])  # ... and with the dynamics at t0
            n, sg = rng.choice(members)
            hist[base] = {"through": n, "sign": sg, "times": ht, "base_values": vb}

    def history(self, ensemble_member):
        from rtctools.optimization.timeseries import Timeseries

        h = super(P, self).history(ensemble_member)
        for base, e in hist.items():
            h[e["through"]] = Timeseries(np.array(e["times"]), np.array([e["sign"] * v for v in e["base_values"]]))
        return h

    # bounds and seeds set through a random name of the quantity (in user code, on top of the model's)
    bset, sset = {}, {}
    for base, members in spec["classes"].items():
        if rng.random() < 0.4:
            n, sg = rng.choice(members)
            bset[base] = {"through": n, "sign": sg, "base_pair": (float(rng.randint(-3000, -2100)), float(rng.randint(2100, 4000)))}
        if spec["kinds"][base] != "control" and rng.random() < 0.4:
            n, sg = rng.choice(members)
            sset[base] = {"through": n, "sign": sg, "base_values": [rng.randint(-8, 8) / 2 for _ in times]}

    def bounds(self):
        b = super(P, self).bounds()
        for base, e in bset.items():
            lo, hi = e["base_pair"]
            b[e["through"]] = (lo, hi) if e["sign"] > 0 else (-hi, -lo)
        return b

    def seed(self, ensemble_member):
        from rtctools.optimization.timeseries import Timeseries

        sd = super(P, self).seed(ensemble_member)
        for base, e in sset.items():
            sd[e["through"]] = Timeseries(np.array(times), np.array([e["sign"] * v for v in e["base_values"]]))
        return sd

    P = opt_class(times, {"objective": objective, "history": history, "bounds": bounds, "seed": seed})
    case = {"stream": "mo-opt", "model": spec["text"], "times": times, "objective_on": target, "history": hist,
            "bounds_set": bset, "seed_set": sset}
    with quiet_fd():
        p = P(model_folder=folder, model_name=spec["name"], input_folder=folder, output_folder=folder)
        r_opt = _call(p.optimize)
    c.programs += 1
    ar = p.alias_relation
    allnames = [n for b in spec["classes"] for n, _ in spec["classes"][b]]
    # pymoca must have recognised the alias equations (trusted front end; outside the property)
    for base, members in spec["classes"].items():
        for n, s in members:
            cb, sb = ar.canonical_signed(base)
            cn, sn = ar.canonical_signed(n)
            if cb != cn or sb * sn != s:
                c.hit("mo/alias-not-detected")
                return
    if r_opt[0] != "ok":
        c.fail("optimize() raised on a generated alias model: %s" % (r_opt,), case)
        return
    c.hit("mo-opt/solved" if r_opt[1] else "mo-opt/solver-failed")
    obs = {}
    obs["bounds"] = p.bounds()
    obs["history"] = p.history(0)
    obs["seed"] = p.seed(0)
    obs["results"] = p.extract_results()
    # ---- oracle: what was stored through an alias is what the base name sees (get after set)
    for base, e in bset.items():
        r = _call(lambda: obs["bounds"][base])
        c.count(("mo-opt", "bounds-set-through-alias", e["sign"]))
        if r[0] != "ok" or tuple(map(float, r[1])) != e["base_pair"]:
            c.fail("bounds stored through %r (sign %d) are not seen signed through %r" % (e["through"], e["sign"], base),
                   case, {"expected": e["base_pair"], "got": r})
    for base, e in sset.items():
        r = _call(lambda: list(map(float, obs["seed"][base].values)))
        c.count(("mo-opt", "seed-set-through-alias", e["sign"]))
        if r[0] != "ok" or r[1] != [float(v) for v in e["base_values"]]:
            c.fail("seed stored through %r (sign %d) is not seen signed through %r" % (e["through"], e["sign"], base),
                   case, {"expected": e["base_values"], "got": r})
    for base, e in hist.items():
        r = _call(lambda: list(map(float, obs["history"][base].values)))
        c.count(("mo-opt", "history-set-through-alias", e["sign"]))
        if r[0] != "ok" or r[1] != [float(v) for v in e["base_values"]]:
            c.fail("history stored through %r (sign %d) is not seen signed through %r" % (e["through"], e["sign"], base),
                   case, {"expected": e["base_values"], "got": r})
    # ---- oracle: every member of a class sees the base's value, signed
    import casadi as ca

    X = p.solver_input
    xval = np.asarray(p.solver_output, dtype=float).ravel()
    probes = [xval] + [np.array([rng.randint(-40, 40) / 8 for _ in range(xval.size)]) for _ in range(2)]
    for base, members in spec["classes"].items():
        for what, d in obs.items():
            rb = _call(lambda: d[base])
            for n, s in members:
                rn = _call(lambda: d[n])
                c.count(("mo-opt", what, spec["kinds"][base], s, rb[0], len(members)))
                c.hit("mo-opt/" + what)
                if rb[0] != rn[0]:
                    c.fail("%s: %r present through one name and absent through its alias" % (what, n), case,
                           {"base": base, "base_result": rb[0], "alias_result": rn[0]})
                    continue
                if rb[0] == "ok" and to_wire(rn[1]) != spec_signed(s, to_wire(rb[1])):
                    c.fail("%s through alias %r is not the signed value of %r" % (what, n, base), case,
                           {"sign": s, "base": to_wire(rb[1]), "alias": to_wire(rn[1])})
        nb = p.variable_nominal(base)
        db = p.variable_is_discrete(base)
        for n, s in members:
            c.count(("mo-opt", "nominal", spec["kinds"][base], s, float(nb) != 1.0))
            c.hit("mo-opt/nominal")
            nn = p.variable_nominal(n)
            if not (float(nn) == float(nb) and float(nn) > 0):
                c.fail("nominal through alias %r differs from / is not the positive nominal of %r" % (n, base), case,
                       {"sign": s, "base": float(nb), "alias": float(nn)})
            if p.variable_is_discrete(n) != db:
                c.fail("variable_is_discrete differs between %r and its alias %r" % (base, n), case)
        # state goals on aliases: range = signed bounds, nominal positive, key toggles with the sign
        def goal_of(name):
            from rtctools.optimization.goal_programming_mixin_base import StateGoal

            return type("G", (StateGoal,), {"state": name, "target_min": 0.0, "priority": 1})(p)

        gb = _call(lambda: goal_of(base))
        for n, s in members:
            gn = _call(lambda: goal_of(n))
            c.count(("mo-opt", "stategoal", spec["kinds"][base], s, gb[0]))
            c.hit("mo-opt/stategoal")
            if gb[0] != gn[0]:
                c.fail("StateGoal on %r: %s, on its alias %r: %s" % (base, gb[0], n, gn[0]), case)
            elif gb[0] == "ok":
                rb, rn = to_wire(tuple(gb[1].function_range)), to_wire(tuple(gn[1].function_range))
                kb, kn = gb[1].function_key, gn[1].function_key
                toggled = kb[1:] if kb.startswith("-") else "-" + kb
                if rn != spec_signed(s, rb):
                    c.fail("StateGoal range through alias %r is not the signed range of %r" % (n, base), case,
                           {"sign": s, "base": rb, "alias": rn})
                if not (float(gn[1].function_nominal) == float(gb[1].function_nominal) > 0):
                    c.fail("StateGoal nominal through alias %r differs / is not positive" % n, case,
                           {"base": float(gb[1].function_nominal), "alias": float(gn[1].function_nominal)})
                if kn != (kb if s > 0 else toggled):
                    c.fail("StateGoal function_key of alias %r inconsistent with %r" % (n, base), case, {"base": kb, "alias": kn})
        # accessors through every name, as CasADi functions of X at several probe vectors:
        # before the history, on / between history knots, at t0, inside the horizon, at the end
        h = hist.get(base)
        tq = [times[0], times[-1], (times[0] + times[1]) / 2, times[1], -1.0, -0.75, -5.0]
        if h:
            tq += [h["times"][0], (h["times"][0] + h["times"][1]) / 2]
        windows = [(None, None), (times[0], times[1]), ((times[0] + times[1]) / 2, times[-1])]
        if h:
            windows += [(h["times"][0], times[1]), (-0.25, (times[1] + times[2]) / 2), (h["times"][0], times[0])]
        queries = [("state_at", (t,)) for t in tq] + [("der_at", (t,)) for t in tq if t > -5.0]
        queries += [("states_in", w) for w in windows] + [("integral", w) for w in windows]

        def ev(name, args, var):
            e = getattr(p, name)(var, *args)
            if not isinstance(e, ca.MX):
                e = ca.MX(ca.DM(np.atleast_1d(np.asarray(e, dtype=float))))
            f = ca.Function("f", [X], [e])
            return [np.array(f(v)).ravel() for v in probes]

        first = {}
        for name, args in queries:
            vb = _call(lambda: ev(name, args, base))
            first[(name, args)] = vb
            for n, s in members:
                vn = _call(lambda: ev(name, args, n))
                c.count(("mo-opt", name, spec["kinds"][base], s, vb[0], h is not None,
                         None if args[0] is None else (args[0] < times[0], args[0] == times[0])))
                c.hit("mo-opt/" + name)
                ok = vb[0] == vn[0] and (vb[0] != "ok" or all(
                    a.shape == b.shape and np.allclose(a, s * b, rtol=1e-12, atol=1e-12, equal_nan=True)
                    for a, b in zip(vn[1], vb[1])))
                if not ok:
                    c.fail("%s(%r, %s) is not the signed %s(%r, ...)" % (name, n, args, name, base), case,
                           {"sign": s, "base": vb, "alias": vn})
        # reading through aliases must not have altered what the canonical name sees
        for (name, args), vb in first.items():
            if name in ("states_in", "integral") and vb[0] == "ok":
                again = _call(lambda: ev(name, args, base))
                if again[0] != "ok" or not all(np.array_equal(a, b, equal_nan=True) for a, b in zip(again[1], vb[1])):
                    c.fail("%s(%r, %s) changed after reading through aliases" % (name, base, args), case,
                           {"first": vb, "again": again})
    # declared nominal of the base must be what every name sees (positive magnitude)
    # (when an alias declares a nominal of its own, pymoca's merge decides -- outside the property)
    byname = {v["name"]: v for v in spec["variables"]}
    for v in spec["variables"]:
        if v["name"] in spec["classes"] and "nominal" in v["attrs"] and not any(
                "nominal" in byname[n]["attrs"] for n, _ in spec["classes"][v["name"]][1:]):
            if float(p.variable_nominal(v["name"])) != abs(v["attrs"]["nominal"]):
                c.fail("declared nominal of %r not honoured" % v["name"], case,
                       {"declared": v["attrs"]["nominal"], "got": float(p.variable_nominal(v["name"]))})
    # ---- correspondence: the model's AliasDict reads the same through every name
    for what, d in obs.items():
        line, keys = _dict_lines(ar, allnames, list(d.items()), True)
        real = []
        for k in keys:
            r = _call(lambda: d[k])
            real.append({"val": to_wire(r[1])} if r[0] == "ok" else r[0])
        lines.append(line)
        pending.append((case, what, real))
    canon = sorted({ar.canonical_signed(n)[0] for n in allnames})
    line, keys = _dict_lines(ar, allnames, [(k, float(p.variable_nominal(k))) for k in canon], False, default=1.0)
    lines.append(line)
    pending.append((case, "variable_nominal", [{"val": to_wire(float(p.variable_nominal(k)))} for k in keys]))
    c.sample({"stream": "mo-opt", "model": spec["text"], "classes": spec["classes"]}, limit=5)


def check_simulation(c, spec, folder, lines, pending):
    from .c13 import rel_table

    rng = c.rng
    S = sim_class()
    case = {"stream": "mo-sim", "model": spec["text"]}
    dt = rng.choice([0.5, 1.0, 0.25])
    with quiet_fd():
        s = S(model_folder=folder, model_name=spec["name"], input_folder=folder, output_folder=folder)
        s.setup_experiment(0.0, 10.0, dt)
        # inputs are set through a random name of their class
        for base, members in spec["classes"].items():
            if spec["kinds"][base] == "control":
                n, sg = rng.choice(members)
                s.set_var(n, sg * 0.25)
        r_init = _call(s.initialize)
    c.programs += 1
    ar = s.alias_relation
    for base, members in spec["classes"].items():
        for n, sg in members:
            cb, sb = ar.canonical_signed(base)
            cn, sn = ar.canonical_signed(n)
            if cb != cn or sb * sn != sg:
                c.hit("mo/alias-not-detected")
                return
    if r_init[0] != "ok":
        c.hit("mo-sim/initialize-failed")
        c.notes.append("initialize() failed on a generated model: %s" % (r_init,))
        return
    allnames = [n for b in spec["classes"] for n, _ in spec["classes"][b]]
    order = list(s.get_variables().keys())
    nstates = order.index("time")
    slots = [[n, i] for i, n in enumerate(order)]

    def snapshot():
        return {n: float(s.get_var(n)) for n in allnames}

    def consistent(tag):
        snap = snapshot()
        for base, members in spec["classes"].items():
            nb = float(s.get_variable_nominal(base))
            for n, sg in members:
                c.count(("mo-sim", tag, spec["kinds"][base], sg))
                c.hit("mo-sim/" + tag)
                if snap[n] != sg * snap[base]:
                    c.fail("get_var(%r) is not the signed get_var(%r) %s" % (n, base, tag), case,
                           {"sign": sg, "base": snap[base], "alias": snap[n]})
                nn = float(s.get_variable_nominal(n))
                if not (nn == nb and nn > 0):
                    c.fail("simulation nominal through alias %r differs from / is not the positive nominal of %r"
                           % (n, base), case, {"base": nb, "alias": nn})
        return snap

    snap = consistent("after-initialize")
    # model input: scaled vector reconstructed from physical values of the symbols
    vec0 = []
    for i, n in enumerate(order):
        v = float(s.get_var(n))
        nom = float(s.get_variable_nominal(n)) if i <= nstates else 1.0
        vec0.append(v / nom)
    noms = [[n, fr(float(s.get_variable_nominal(n)))] for n in order if float(s.get_variable_nominal(n)) != 1.0]
    mops, real = [], []
    for step in range(rng.randint(4, 8)):
        base = rng.choice(list(spec["classes"]))
        members = spec["classes"][base]
        b, sb = rng.choice(members)
        v = rng.choice([float(rng.randint(-9, 9)), rng.uniform(-20, 20), 3.0])
        with quiet_fd():
            s.set_var(b, v)
        mops.append({"o": "set", "k": b, "v": fr(v)})
        real.append("ok")
        new = snapshot()
        for a, sa in members:
            c.count(("mo-sim", "get-after-set", spec["kinds"][base], sa * sb, float(s.get_variable_nominal(base)) != 1.0))
            c.hit("mo-sim/get-after-set")
            exp = sa * sb * v
            if not abs(new[a] - exp) <= 1e-9 * max(1.0, abs(exp)):
                c.fail("get_var(%r) after set_var(%r, v) is not sign*sign*v" % (a, b), case,
                       {"v": v, "signs": [sa, sb], "nominal": float(s.get_variable_nominal(base)), "got": new[a]})
            mops.append({"o": "get", "k": a})
            real.append(new[a])
        for other, om in spec["classes"].items():
            if other != base:
                for a, sa in om:
                    if new[a] != snap[a]:
                        c.fail("set_var(%r) changed the unrelated variable %r" % (b, a), case,
                               {"before": snap[a], "after": new[a]})
        snap = new
    lines.append({"op": "sim", "rel": rel_table(ar, allnames + [n for n in order if n not in allnames]),
                  "slots": slots, "nstates": nstates, "vec": [fr(x) for x in vec0], "nominals": noms, "ops": mops})
    pending.append((case, "sim", real))
    # a time step keeps all names of a quantity consistent, inputs keep the value set through an alias
    with quiet_fd():
        s.reset()
        for base, members in spec["classes"].items():
            if spec["kinds"][base] == "control":
                n, sg = rng.choice(members)
                s.set_var(n, sg * 0.5)
        r_up = _call(lambda: s.update(dt))
    if r_up[0] == "ok":
        snap = consistent("after-update")
        for base in spec["classes"]:
            if spec["kinds"][base] == "control" and snap[base] != 0.5:
                c.fail("input set through an alias lost its value over update()", case, snap[base])
    else:
        c.hit("mo-sim/update-failed")
    c.sample({"stream": "mo-sim", "model": spec["text"], "classes": spec["classes"], "ops": mops[:6]}, limit=6)


def corpus_model():
    """former failing input of F2 / F13 (both repaired): y = -x with nominal(x) = 10 and a chain"""
    return {
        "name": "Corpus0",
        "variables": [
            {"name": "x0", "attrs": {"start": 1.0, "fixed": True, "nominal": 10.0, "min": -50.0, "max": 50.0}},
            {"name": "u0", "prefix": "input", "attrs": {"fixed": False, "min": -2.0, "max": 3.0}},
            {"name": "a0", "attrs": {}},
            {"name": "a1", "prefix": "output", "attrs": {}},
        ],
        "equations": ["der(x0) = -0.5*x0 + 1.0*u0", "a0 = -x0", "a1 = a0"],
        "classes": {"x0": [("x0", 1), ("a0", -1), ("a1", -1)], "u0": [("u0", 1)]},
        "kinds": {"x0": "state", "u0": "control"},
        "starts": {"x0": 1.0, "u0": 0.5},
        "der0": {"x0": 0.0},
    }


def run_models(c, n):
    lines, pending = [], []
    with Scratch() as folder:
        for i in range(-1, n):
            spec = gen_alias_model(c.rng, i) if i >= 0 else corpus_model()
            spec["text"] = write_mo(folder, spec["name"], spec["variables"], spec["equations"])
            if any(len(m) > 1 for m in spec["classes"].values()):
                c.hit("mo/with-aliases")
            if any(s < 0 for m in spec["classes"].values() for _, s in m):
                c.hit("mo/negated")
            check_optimisation(c, spec, folder, lines, pending)
            check_simulation(c, spec, folder, lines, pending)
    outs = c.model(lines)
    if outs is None:
        return
    for mo, (case, what, real) in zip(outs, pending):
        if mo in ("bad-op", "bad-json"):
            c.disagree("model driver rejected a model-derived case (%s)" % what, case, mo, None)
            continue
        if what == "sim":
            ok = len(mo) == len(real) and all(
                (m == r) if isinstance(r, str) else (not isinstance(m, str) or m not in ("KeyError", "ok")) and same(m, r)
                for m, r in zip(mo, real))
            if not ok:
                c.disagree("simulation get_var/set_var sequence", case, mo, real)
        else:
            if mo["outs"] != real:
                c.disagree("%s read through alias names" % what, case, mo["outs"], real)
