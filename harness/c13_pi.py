"""
C13, PI export of aliases (optimization/pi_mixin.py `write`): every alias of an output variable
that has a mapping in rtcDataConfig.xml is exported, a negated alias as the negated series.

A generated model (a state and a control, each with a chain of positive / negated output aliases)
is run through the real optimisation `PIMixin` in a temp dir (rtcDataConfig.xml,
rtcParameterConfig.xml, timeseries_import.xml generated); `timeseries_export.xml` is parsed with
ElementTree.  Oracle: series(name) = sign(name) * results(base) at every stamp, for every mapped
name of the quantity of an output; model correspondence: the Lean `AliasDict.get` through the
exported name on the results dictionary.
"""
import os
import xml.etree.ElementTree as ET

import numpy as np

from .c13_models import Scratch, lit, opt_class, write_mo
from .common import quiet_fd

NS = 'xmlns:xsi="http://www.w3.org/2001/XMLSchema-instance" xmlns:rtc="http://www.wldelft.nl/fews" xmlns="http://www.wldelft.nl/fews"'


def gen_pi_model(rng, idx):
    variables = [
        {"name": "x", "attrs": dict({"start": rng.randint(-8, 8) / 4, "fixed": True},
                                    **({"nominal": rng.choice([2.0, 10.0, 0.5, 100.0])} if rng.random() < 0.8 else {}))},
        {"name": "u", "prefix": "input", "attrs": dict({"fixed": False, "min": -3.0, "max": 4.0},
                                                        **({"nominal": rng.choice([2.0, 5.0])} if rng.random() < 0.5 else {}))},
    ]
    eqs = ["der(x) = -%s*x + %s*u" % (lit(rng.choice([1e-4, 2e-4, 5e-5])), lit(rng.choice([1e-4, 3e-4])))]
    classes = {"x": [("x", 1)], "u": [("u", 1)]}
    k = 0
    for base in ("x", "u"):
        for _ in range(rng.randint(1, 3) if base == "x" else rng.randint(0, 2)):
            a = "o%d" % k
            k += 1
            t, st = rng.choice(classes[base])
            sign = rng.choice([-1, -1, 1])
            eqs.append("%s = %s%s" % (a, "-" if sign < 0 else "", t))
            v = {"name": a, "attrs": {}}
            if rng.random() < 0.8 or len(classes[base]) == 1:
                v["prefix"] = "output"
            variables.append(v)
            classes[base].append((a, sign * st))
    rng.shuffle(eqs)
    return {"name": "Pi%d" % idx, "variables": variables, "equations": eqs, "classes": classes}


def write_pi_inputs(folder, names, unmapped, nsteps):
    s = '<?xml version="1.0" encoding="UTF-8"?>\n<rtcDataConfig %s>\n' % NS
    for n in list(names) + ["dummy"]:
        if n in unmapped:
            continue
        s += ('<timeSeries id="%s"><PITimeSeries><locationId>L</locationId><parameterId>P_%s</parameterId>'
              '</PITimeSeries></timeSeries>\n' % (n, n))
        if n != "dummy":  # the negated name can be mapped too: id "-x" -> series P_neg_x
            s += ('<timeSeries id="-%s"><PITimeSeries><locationId>L</locationId><parameterId>P_neg_%s</parameterId>'
                  '</PITimeSeries></timeSeries>\n' % (n, n))
    s += "</rtcDataConfig>\n"
    open(os.path.join(folder, "rtcDataConfig.xml"), "w").write(s)
    open(os.path.join(folder, "rtcParameterConfig.xml"), "w").write(
        '<ns0:parameters xmlns:ns0="http://www.wldelft.nl/fews/PI" version="1.5"><ns0:group id="g" name="g" '
        'readonly="false"><ns0:parameter id="unused_par"><ns0:dblValue>1.0</ns0:dblValue></ns0:parameter>'
        "</ns0:group></ns0:parameters>")
    ev = "".join('<ns0:event date="2020-01-01" flag="0" time="%02d:00:00" value="0.0" />' % h for h in range(nsteps))
    open(os.path.join(folder, "timeseries_import.xml"), "w").write(
        '<ns0:TimeSeries xmlns:ns0="http://www.wldelft.nl/fews/PI" version="1.2"><ns0:timeZone>0.0</ns0:timeZone>'
        "<ns0:series><ns0:header><ns0:type>instantaneous</ns0:type><ns0:locationId>L</ns0:locationId>"
        '<ns0:parameterId>P_dummy</ns0:parameterId><ns0:timeStep multiplier="3600" unit="second" />'
        '<ns0:startDate date="2020-01-01" time="00:00:00" /><ns0:forecastDate date="2020-01-01" time="00:00:00" />'
        '<ns0:endDate date="2020-01-01" time="%02d:00:00" /><ns0:missVal>-999.0</ns0:missVal><ns0:units>m</ns0:units>'
        "</ns0:header>" % (nsteps - 1) + ev + "</ns0:series></ns0:TimeSeries>")


def parse_export(path):
    out = {}
    root = ET.parse(path).getroot()
    for series in root:
        if not series.tag.endswith("series"):
            continue
        pid, vals = None, []
        for el in series:
            if el.tag.endswith("header"):
                for h in el:
                    if h.tag.endswith("parameterId"):
                        pid = h.text
            elif el.tag.endswith("event"):
                vals.append(float(el.get("value")))
        out[pid[2:] if pid.startswith("P_") else pid] = vals
    return out


def run_pi(c, n):
    from rtctools.optimization.pi_mixin import PIMixin

    from .c13 import rel_table, to_wire

    rng = c.rng
    lines, pending = [], []
    for i in range(n):
        spec = gen_pi_model(rng, i)
        with Scratch() as folder:
            text = write_mo(folder, spec["name"], spec["variables"], spec["equations"])
            allnames = [m for b in spec["classes"] for m, _ in spec["classes"][b]]
            outputs = {v["name"] for v in spec["variables"] if v.get("prefix") == "output"} | {"u"}
            unmapped = {m for m in allnames if rng.random() < 0.15}
            nsteps = rng.randint(3, 5)
            write_pi_inputs(folder, allnames, unmapped, nsteps)
            target = rng.choice([m for m, _ in spec["classes"]["x"]])

            def objective(self, ensemble_member):
                return (self.state_at(target, self.times()[-1], ensemble_member=ensemble_member) - 0.5) ** 2

            P = opt_class([0.0], {"objective": objective, "pi_binary_timeseries": False,
                                  "pi_validate_timeseries": False}, mixins=(PIMixin,))
            delattr(P, "times")
            case = {"stream": "pi-export", "model": text, "classes": spec["classes"], "unmapped": sorted(unmapped)}
            try:
                with quiet_fd():
                    p = P(model_folder=folder, model_name=spec["name"], input_folder=folder, output_folder=folder)
                    p.optimize()
                exported = parse_export(os.path.join(folder, "timeseries_export.xml"))
            except Exception as e:
                c.fail("PI export run raised %s: %s" % (type(e).__name__, str(e)[:200]), case)
                continue
            c.programs += 1
            ar = p.alias_relation
            res = p.extract_results()
            for base, members in spec["classes"].items():
                ok_alias = all(ar.canonical_signed(m)[0] == ar.canonical_signed(base)[0] for m, _ in members)
                if not ok_alias:
                    c.hit("mo/alias-not-detected")
                    continue
                ref = np.asarray(res[base], dtype=float)
                out_signs = {s for m, s in members if m in outputs}
                for m, s in members:
                    c.count(("pi-export", base, s, m in unmapped, tuple(sorted(out_signs)), m in outputs))
                    c.hit("pi/" + ("negated" if s < 0 else "positive"))
                    # `m` (resp. `-m`) is an alias of an output variable iff an output of the same
                    # (resp. opposite) orientation exists; unmapped names are not written
                    for key, sk, expected in ((m, s, s in out_signs), ("neg_" + m, -s, -s in out_signs)):
                        got = exported.get(key)
                        if m in unmapped or not expected:
                            if got is not None and m in unmapped:
                                c.fail("PI export wrote the unmapped name %r" % key, case)
                            continue
                        if got is None:
                            c.fail("PI export: alias %r of an output variable is missing from timeseries_export.xml" % key,
                                   case, {"exported": sorted(exported)})
                        elif len(got) != len(ref) or not np.allclose(got, sk * ref, rtol=1e-12, atol=1e-12):
                            c.fail("PI export: series under %r is not sign * the series of %r" % (key, base), case,
                                   {"sign": sk, "exported": got, "base_results": ref.tolist()})
            # model: AliasDict.get through each exported name on the results dictionary
            names = [m for m in allnames if m in exported] + ["-" + m for m in allnames if "neg_" + m in exported]
            lines.append({"op": "dict", "signed": True, "rel": rel_table(ar, allnames),
                          "init": [[k, to_wire(np.asarray(v, dtype=float))] for k, v in res.items()],
                          "ops": [{"o": "get", "k": m} for m in names]})
            pending.append((case, [{"val": to_wire(np.asarray(exported[m if not m.startswith("-") else "neg_" + m[1:]],
                                                                     dtype=float))} for m in names]))
            c.sample(case, limit=7)
    outs = c.model(lines)
    if outs is not None:
        for mo, (case, real) in zip(outs, pending):
            if mo in ("bad-op", "bad-json") or mo["outs"] != real:
                c.disagree("PI export vs AliasDict.get on the results", case, mo if isinstance(mo, str) else mo["outs"], real)
