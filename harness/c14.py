"""
C14 — Modelica declarations are honoured: bounds, nominal, start, fixed, types, roles.

Proof obligations: lean/RtcVerif/Props/C14.lean (decision logic, one theorem per clause).
Correspondence: generated `.mo` files over attribute combinations (literal / parameter-dependent
min, max, nominal, start; Real / Integer / Boolean; fixed / non-fixed; inputs fixed / non-fixed /
lookup / delay; outputs, incl. outputs that are (negated, chained) aliases of controls / constant
inputs / states; an export stream (harness/c14_outputs.py) that solves a CSVMixin problem and reads
the written timeseries_export.csv back) x overriding sources (model, parameters.csv through CSVMixin, code;
inherited bounds from a base class).  The variable records are taken from pymoca itself (the
harness records what `transfer_model` returns to the mixin), handed to the Lean model
(Drivers/C14.lean) and compared with what the real `ModelicaMixin` / `SimulationProblem` report
through their public API.  Independent oracle: the property's clauses re-stated in plain Python
on the *declared* attributes of the generated model text.
"""
import contextlib
import math
import os

import numpy as np

from .c13_models import Scratch, lit, opt_class, silence, sim_class, write_mo
from .common import fr, quiet_fd, same, unfr

INF = float("inf")
NAN = float("nan")


# ---------------------------------------------------------------------------------------------
# recording what pymoca hands to the mixin


@contextlib.contextmanager
def record_pymoca(store):
    import pymoca.backends.casadi.api as api

    orig = api.transfer_model

    def wrapper(*a, **k):
        m = orig(*a, **k)
        store.append(m)
        return m

    api.transfer_model = wrapper
    try:
        yield
    finally:
        api.transfer_model = orig


def attr_wire(x, params):
    """pymoca attribute -> wire Attr; symbolic ones must be affine in one parameter"""
    import casadi as ca

    if isinstance(x, ca.MX):
        if x.is_constant():
            return {"lit": fr(float(x)), "mx": True}
        f = ca.Function("f", params, [x])
        n = len(params)
        zero = [0.0] * n
        b = float(f(*zero))
        found = None
        for i in range(n):
            e = list(zero)
            e[i] = 1.0
            v1 = float(f(*e))
            if v1 != b:
                if found is not None:
                    raise ValueError("attribute depends on two parameters")
                e[i] = 3.0
                if abs(float(f(*e)) - (b + 3 * (v1 - b))) > 1e-12:
                    raise ValueError("attribute not affine")
                found = (i, v1 - b)
        if found is None:
            return {"lit": fr(b), "mx": True}
        return {"sym": [fr(found[1]), params[found[0]].name(), fr(b)]}
    return {"lit": fr(float(x)), "mx": False}


PTYPE = {float: "real", int: "int", bool: "bool"}


def decl_wire(v, params, **flags):
    d = {"name": v.symbol.name(), "ptype": PTYPE[v.python_type],
         "min": attr_wire(v.min, params), "max": attr_wire(v.max, params),
         "nominal": attr_wire(v.nominal, params), "start": attr_wire(v.start, params),
         "fixed": bool(v.fixed)}
    d.update(flags)
    return d


def pval_wire(x):
    x = float(x)
    return "nan" if math.isnan(x) else fr(x)


# ---------------------------------------------------------------------------------------------
# generator

PVALS = [2.0, 7.0, -3.0, 0.5, 20.0, 1.0, 0.0, 12.0]


def gen_attr(rng, params, lits, p_sym=0.3, p_absent=0.3):
    r = rng.random()
    if r < p_absent:
        return None
    if r < p_absent + p_sym and params:
        return ("sym", rng.choice([1.0, 2.0, -1.0, 0.5]), rng.choice(params), float(rng.choice([0, 0, 1, -2, 3])))
    return ("lit", float(rng.choice(lits)))


def attr_text(a):
    if a[0] == "lit":
        return lit(a[1])
    _, k, p, b = a
    s = p if k == 1.0 else ("-" + p if k == -1.0 else "%s*%s" % (lit(k), p))
    if b != 0:
        s += " + %s" % lit(b) if b > 0 else " - %s" % lit(-b)
    return s


def gen_spec(rng, idx, for_sim):
    """a model text plus everything the oracle needs (declared attributes, sources)"""
    params = []
    for i in range(rng.randint(1, 3)):
        params.append({"name": "p%d" % i, "value": rng.choice(PVALS)})
    if rng.random() < 0.25:
        params.append({"name": "pfree", "value": None})  # declared without value: NaN
    good = [p["name"] for p in params if p["value"] is not None]
    usable = good + (["pfree"] if len(params) > len(good) and rng.random() < 0.3 else [])
    variables = []
    nS = rng.choice([2, 3, 3, 4]) if for_sim else rng.choice([1, 1, 2])
    # overriding sources (decided first, so that attributes can be made to depend on overridden parameters)
    src = {"file": {}, "code": {}, "code1": {}, "deleted": []}
    if not for_sim and rng.random() < 0.45:
        for p in rng.sample(params, rng.randint(1, len(params))):
            src["file"][p["name"]] = rng.choice([v for v in PVALS if v != p["value"]])
    if rng.random() < 0.5:
        for p in rng.sample(params, rng.randint(1, len(params))):
            src["code"][p["name"]] = rng.choice([v for v in PVALS if v != p["value"]])
    eff = {p["name"]: src["code"].get(p["name"], src["file"].get(p["name"], p["value"])) for p in params}
    # parameters whose effective value is supplied from outside the model (incl. one declared without value)
    over_pars = [n for n in eff if eff[n] is not None and (n in src["code"] or n in src["file"])]
    # ensemble member 1 gets parameter values of its own (start values are resolved per member)
    code1 = {}
    if not for_sim and rng.random() < 0.5:
        for p in rng.sample(params, rng.randint(1, len(params))):
            code1[p["name"]] = rng.choice([v for v in PVALS if v != p["value"]])
    ens_pars = [n for n in code1 if n in good]

    def real_attrs(kind):
        a = {}
        if for_sim:  # the initial value must not be clipped by a bound: precedence is the subject there
            a["min"] = a["max"] = None
        else:
            a["min"] = gen_attr(rng, usable, [-5, -50, 0, -1, -INF])
            a["max"] = gen_attr(rng, usable, [20, 50, 1, 100, INF])
        a["nominal"] = gen_attr(rng, good, [10, -4, 0, 1, -1, 100, 0.5, 2], p_sym=0.15)
        a["start"] = gen_attr(rng, usable if not for_sim else good, [0, 0, 1.5, -2.5, 3, 6], p_sym=0.25)
        if for_sim and a["nominal"] is not None and a["nominal"][0] == "sym":
            # simulation keeps a parameter-dependent nominal as it is: one that evaluates to 0 makes
            # initialize() fail with Invalid_Number_Detected (reported; kept out of the main stream)
            _, k, pn, b = a["nominal"]
            if k * eff[pn] + b == 0.0:
                a["nominal"] = None
        return a

    for i in range(nS):
        a = real_attrs("state")
        fixed = rng.choice([True, True, False, None])
        if over_pars and i == 0 and rng.random() < 0.6:
            # a nominal that depends on a parameter whose value comes from the file / code (or that
            # has no value in the model at all): the effective value must be used
            pn = rng.choice(over_pars)
            for _ in range(20):
                k, b = rng.choice([1.0, 2.0, -1.0, 0.5]), float(rng.choice([0, 1, -2, 3]))
                if abs(k * eff[pn] + b) not in (0.0, 1.0):
                    a["nominal"] = ("sym", k, pn, b)
                    break
        if ens_pars and i == 0 and rng.random() < 0.7:
            # a start value that differs between the ensemble members
            a["start"] = ("sym", rng.choice([1.0, 2.0, -1.0, 0.5]), rng.choice(ens_pars), float(rng.choice([0, 1, -2])))
            fixed = rng.choice([True, True, False])
        variables.append({"name": "x%d" % i, "kind": "state", "mtype": "Real", "attrs": a, "fixed": fixed, "output": False})
    # algebraics
    variables.append({"name": "w0", "kind": "alg", "mtype": "Real", "attrs": real_attrs("alg"),
                      "fixed": rng.choice([False, None, None, True]) if not for_sim else None, "output": rng.random() < 0.4,
                      # simulation: algebraics must not couple the soft start residuals of the states
                      "eq": "w0 = 2.0*x0 + 1.0" if not for_sim else "w0 = 2.0*u0 + 1.0"})
    if not for_sim and rng.random() < 0.6:
        variables.append({"name": "cnt", "kind": "alg", "mtype": "Integer",
                          "attrs": {"min": gen_attr(rng, [], [0, -1, -3, 2], p_absent=0.2),
                                    "max": gen_attr(rng, [], [5, 3, 7, 12], p_absent=0.2),
                                    "nominal": None, "start": gen_attr(rng, [], [0, 2, 1])},
                          "fixed": None, "output": rng.random() < 0.3, "eq": "cnt = if x0 > 2.0 then 1 else 0"})
    if not for_sim and rng.random() < 0.6:
        variables.append({"name": "sw", "kind": "alg", "mtype": "Boolean",
                          "attrs": {"min": None, "max": None, "nominal": None,
                                    "start": rng.choice([None, ("lit", True), ("lit", False)])},
                          "fixed": None, "output": False, "eq": "sw = x0 > 1.0"})
    variables.append({"name": "o0", "kind": "alg", "mtype": "Real", "attrs": {"min": gen_attr(rng, good, [-1, -10]) if not for_sim else None, "max": None, "nominal": None, "start": None},
                      "fixed": None, "output": True, "eq": "o0 = x0 + w0" if not for_sim else "o0 = w0 + u1"})
    # inputs
    variables.append({"name": "u0", "kind": "input", "mtype": "Real",
                      "attrs": {"min": gen_attr(rng, good, [-2, -6]), "max": gen_attr(rng, good, [3, 8]),
                                "nominal": gen_attr(rng, good, [5, 1, 0, -2], p_sym=0.1), "start": None},
                      "fixed": rng.choice([False, None]), "output": False})
    variables.append({"name": "u1", "kind": "input", "mtype": "Real",
                      "attrs": {"min": gen_attr(rng, [], [-9]), "max": None, "nominal": None, "start": None},
                      "fixed": rng.choice([True, True, False]), "output": False})
    if not for_sim and rng.random() < 0.5:
        variables.append({"name": "ub", "kind": "input", "mtype": "Boolean",
                          "attrs": {"min": None, "max": None, "nominal": None, "start": None},
                          "fixed": rng.choice([True, False, None]), "output": False})
    if not for_sim and rng.random() < 0.4:
        variables.append({"name": "ui", "kind": "input", "mtype": "Integer",
                          "attrs": {"min": gen_attr(rng, [], [-2, 2, 0], p_absent=0.2), "max": gen_attr(rng, [], [4, 9], p_absent=0.2),
                                    "nominal": None, "start": None},
                          "fixed": rng.choice([True, False, None]), "output": False})
    lookup = []
    if not for_sim and rng.random() < 0.3:
        variables.append({"name": "tab", "kind": "input", "mtype": "Real",
                          "attrs": {"min": None, "max": None, "nominal": None, "start": None},
                          "fixed": rng.choice([True, False]), "output": False})
        lookup = ["tab"]
    delay = not for_sim and rng.random() < 0.25
    if not for_sim and rng.random() < 0.5:
        # declared outputs that pymoca turns into (negated, chained) aliases of a control / constant input /
        # state / another alias output: they are exported under their own name, next to every control
        # (pymoca merges the attributes of an eliminated alias into the canonical variable with
        #  nominal := fmax(nominal, alias nominal = 0): a negative or parameter-dependent declared nominal
        #  of an aliased variable is lost / no longer affine -- reported; such targets are kept out of this stream)
        def eligible(n):
            a = next(v for v in variables if v["name"] == n)["attrs"]["nominal"]
            return a is None or (a[0] == "lit" and a[1] > 0)

        pool = [n for n in ["u0", "u0", "u1", "x0"] if eligible(n)]
        for j in range(rng.choice([1, 1, 2]) if pool else 0):
            of, neg = rng.choice(pool), rng.random() < 0.5
            name = "ya%d" % j
            eq = (rng.choice(["{a} = -{t}", "{a} + {t} = 0", "0 = {t} + {a}"]) if neg
                  else rng.choice(["{a} = {t}", "{t} = {a}", "{a} - {t} = 0"])).format(a=name, t=of)
            variables.append({"name": name, "kind": "aliasout", "mtype": "Real", "alias_of": (of, -1 if neg else 1),
                              "attrs": {"min": None, "max": None, "nominal": None, "start": None},
                              "fixed": None, "output": True, "eq": eq})
            pool.append(name)
    eqs = []
    for v in variables:
        if v["kind"] == "state":
            i = int(v["name"][1:])
            rhs = "-%s*%s + u0 + u1" % (lit(rng.choice([0.5, 1.0, 0.25])), v["name"])
            if "tab" in lookup and i == 0:
                rhs += " + tab"
            if any(q["name"] == "ub" for q in variables) and i == 0:
                rhs += " + (if ub then 1.0 else 0.0)"
            if any(q["name"] == "ui" for q in variables) and i == 0:
                rhs += " + 0.5*ui"
            eqs.append("der(%s) = %s" % (v["name"], rhs))
        elif "eq" in v:
            eqs.append(v["eq"])
    if delay:
        variables.append({"name": "yd", "kind": "delayed", "mtype": "Real",
                          "attrs": {"min": None, "max": None, "nominal": None, "start": None},
                          "fixed": None, "output": False})
        eqs.append("yd = delay(2.0*x0, 1.0)")
    # text
    recs = []
    for p in params:
        r = {"prefix": "parameter", "name": p["name"]}
        if p["value"] is not None:
            r["value"] = p["value"]
        recs.append(r)
    for v in variables:
        attrs = {k: attr_text(a) if not (a[0] == "lit" and isinstance(a[1], bool)) else a[1]
                 for k, a in v["attrs"].items() if a is not None and not (a[0] == "lit" and isinstance(a[1], float) and math.isinf(a[1]))}
        for k, a in v["attrs"].items():
            if a is not None and a[0] == "lit" and isinstance(a[1], float) and math.isinf(a[1]):
                v["attrs"][k] = None  # an infinite literal cannot be written: same as absent
        if v["fixed"] is not None:
            attrs["fixed"] = v["fixed"]
        prefix = "input" if v["kind"] == "input" else ("output" if v["output"] else "")
        recs.append({"prefix": prefix, "type": v["mtype"], "name": v["name"], "attrs": attrs})
    rng.shuffle(eqs)
    src["code1"] = code1
    if not for_sim and rng.random() < 0.08 and good:
        src["deleted"] = [rng.choice(good)]
    inherited = {}
    if not for_sim:
        for v in variables:
            if v["kind"] in ("state", "alg", "input") and rng.random() < (0.3 if v["mtype"] != "Integer" else 0.15):
                lo = rng.choice([-INF, -8.0, -1.0, 0.0, float(rng.randint(-30, 0))])
                hi = rng.choice([INF, 9.0, 1.0, 15.0, float(rng.randint(1, 60))])
                inherited[v["name"]] = (lo, hi)
    return {"name": "D%d" % idx, "params": params, "variables": variables, "recs": recs, "eqs": eqs,
            "src": src, "inherited": inherited, "lookup": lookup, "delay": delay}


# ---------------------------------------------------------------------------------------------
# oracle: the clauses of the property on the declared attributes


class Declared:
    def __init__(self, spec):
        self.spec = spec
        vals = {p["name"]: (NAN if p["value"] is None else p["value"]) for p in spec["params"]}
        self.model_params = dict(vals)
        vals.update(spec["src"]["file"])
        vals.update(spec["src"]["code"])
        self.params = vals
        self.env = {k: v for k, v in vals.items() if k not in spec["src"]["deleted"]}

    def resolve(self, a, default):
        """-> ('val', x) | ('nan',) | ('unresolved',) ; `sym` = True when parameter dependent"""
        if a is None:
            return ("val", default), False
        if a[0] == "lit":
            return ("val", float(a[1])), False
        _, k, p, b = a
        if p not in self.env:
            return ("unresolved",), True
        if math.isnan(self.env[p]):
            return ("nan",), True
        return ("val", k * self.env[p] + b), True

    def bounds(self, v):
        lo, hi = self.spec["inherited"].get(v["name"], (0.0, 1.0) if v["mtype"] == "Boolean" else (-INF, INF))
        (m, _), (M, _) = self.resolve(v["attrs"]["min"], -INF), self.resolve(v["attrs"]["max"], INF)
        if m[0] != "val" or M[0] != "val":
            return "raise"
        return (max(lo, m[1]), min(hi, M[1]))

    def nominal(self, v):
        n, _ = self.resolve(v["attrs"]["nominal"], 1.0)
        if n[0] != "val":
            return 1.0
        n = abs(n[1])
        return 1.0 if n in (0.0, 1.0) else n

    @staticmethod
    def cast(v, x):
        if v["mtype"] == "Integer":
            return float(int(x))
        if v["mtype"] == "Boolean":
            return 1.0 if x else 0.0
        return x

    def history(self, v):
        """fixed start of a state -> value at t0 | None (no entry) | 'raise'"""
        if v["kind"] != "state" or not v["fixed"]:
            return None
        s, _ = self.resolve(v["attrs"]["start"], 0.0)
        return "raise" if s[0] != "val" else self.cast(v, s[1])

    def seed(self, v):
        if v["kind"] not in ("state", "alg") or v["fixed"]:
            return None
        s, sym = self.resolve(v["attrs"]["start"], 0.0)
        if s[0] != "val":
            return None
        if not sym and s[1] == 0.0:
            return None
        return self.cast(v, s[1])


def call(fn):
    try:
        return ("ok", fn())
    except Exception as e:
        return ("raise", type(e).__name__ + ": " + str(e)[:160])


def close(a, b, tol=1e-9):
    a, b = float(a), float(b)
    if math.isinf(a) or math.isinf(b):
        return a == b
    return abs(a - b) <= tol * max(1.0, abs(a), abs(b))


def write_inputs(folder, spec, extra_series=None):
    """CSVMixin input files: a dummy time series (3 hourly steps) and parameters.csv"""
    cols = {"dummy": [0.0, 0.0, 0.0]}
    cols.update(extra_series or {})
    names = list(cols)
    with open(os.path.join(folder, "timeseries_import.csv"), "w") as f:
        f.write("time," + ",".join(names) + "\n")
        for i in range(3):
            f.write("2020-01-01 %02d:00:00," % i + ",".join(
                "nan" if isinstance(cols[n][i], float) and math.isnan(cols[n][i]) else repr(cols[n][i]) for n in names) + "\n")
    pf = os.path.join(folder, "parameters.csv")
    if os.path.exists(pf):
        os.remove(pf)
    if spec["src"]["file"]:
        ks = list(spec["src"]["file"])
        with open(pf, "w") as f:
            f.write(",".join(ks) + "\n" + ",".join(repr(spec["src"]["file"][k]) for k in ks) + "\n")


def build_opt(spec, folder, with_file):
    """the real problem: [Code,] [CSVMixin,] ModelicaMixin, Base(inherited bounds), Collocated..."""
    silence()
    from rtctools._internal.alias_tools import AliasDict
    from rtctools.optimization.optimization_problem import OptimizationProblem

    inherited = spec["inherited"]
    code, deleted = spec["src"]["code"], spec["src"]["deleted"]
    code1 = spec["src"].get("code1", {})

    class Base(OptimizationProblem):
        def bounds(self):
            b = super().bounds()
            for k, v in inherited.items():
                b[k] = v
            return b

    class Code:
        def parameters(self, ensemble_member):
            p = super().parameters(ensemble_member)
            for k, v in code.items():
                p[k] = v
            if ensemble_member == 1:
                for k, v in code1.items():
                    p[k] = v
            for k in deleted:
                if k in p:
                    del p[k]
            return p

        if code1:
            ensemble_size = property(lambda self: 2)

    mixins = [Code]
    if with_file:
        from rtctools.optimization.csv_mixin import CSVMixin

        mixins.append(CSVMixin)
    P = opt_class([0.0, 3600.0, 7200.0], mixins=tuple(mixins))
    # Base must come after ModelicaMixin in the MRO: rebuild the class with it appended
    P2 = type("P2", (P, Base), {})
    store = []
    with record_pymoca(store):
        p = P2(model_folder=folder, model_name=spec["name"], input_folder=folder, output_folder=folder,
               lookup_tables=list(spec["lookup"]))
    if with_file:
        p.pre()
    return p, store[0]


def member_oracle(c, case, spec, decl, obs, declared_vars, byname, times, t0):
    """the member-dependent clauses: parameters(m), history(m), seed(m)"""
    # parameters: model < file < code
    if obs["parameters"][0] != "ok":
        c.fail("parameters() raised: " + obs["parameters"][1], case)
    else:
        for k, v in decl.params.items():
            if k in spec["src"]["deleted"]:
                continue
            src = "code" if k in spec["src"]["code"] else ("file" if k in spec["src"]["file"] else "model")
            c.count(("opt", "parameter", src, math.isnan(v)))
            c.hit("param/" + src)
            g = obs["parameters"][1].get(k, None)
            if g is None or not (g == v or (math.isnan(g) and math.isnan(v))):
                c.fail("parameter %r: expected the %s value %r, got %r" % (k, src, v, g), case)
    # history / seed
    exp_h = {v["name"]: decl.history(v) for v in declared_vars}
    h_raise = any(x == "raise" for x in exp_h.values())
    if h_raise != (obs["history"][0] == "raise"):
        c.fail("history(): raise behaviour differs from the resolvability of the fixed start values", case,
               {"expected": exp_h, "got": obs["history"]})
    elif not h_raise:
        for n, e in exp_h.items():
            g = obs["history"][1].get(n)
            a = byname[n]["attrs"]["start"]
            c.count(("opt", "history", e is None, byname[n]["kind"], "abs" if a is None else a[0], byname[n]["fixed"]))
            c.hit("history/" + ("none" if e is None else "fixed-start"))
            if e is None:
                if g is not None:
                    c.fail("history has an entry for %r, which has no fixed start" % n, case, g)
            elif g is None or g[0] != [t0] or len(g[1]) != 1 or not close(g[1][0], e):
                c.fail("fixed start of %r is not the history value at t0" % n, case, {"expected": e, "got": g})
    if obs["seed"][0] != "ok":
        c.fail("seed() raised: " + obs["seed"][1], case)
    else:
        for v in declared_vars:
            e = decl.seed(v)
            g = obs["seed"][1].get(v["name"])
            a = v["attrs"]["start"]
            c.count(("opt", "seed", e is None, v["kind"], v["mtype"], "abs" if a is None else a[0], bool(v["fixed"]),
                     None if e is None else (e > 0) - (e < 0)))
            c.hit("seed/" + ("none" if e is None else "start"))
            if e is None:
                if g is not None:
                    c.fail("seed has an entry for %r (fixed, zero or unresolvable start)" % v["name"], case, g)
            elif g is None or g[0] != times or not all(close(x, e) for x in g[1]):
                c.fail("non-fixed non-zero start of %r is not seeded over its times" % v["name"], case,
                       {"expected": e, "got": g})


def check_opt(c, spec, folder, lines, pending):
    with_file = bool(spec["src"]["file"]) or c.rng.random() < 0.2
    if with_file:
        spec["src"]["code1"] = {}  # the CSV data store of the generated input folder has one member only
    write_inputs(folder, spec)
    case = {"stream": "opt", "model": spec["text"], "sources": spec["src"], "inherited_bounds": spec["inherited"],
            "with_csv": with_file, "lookup_tables": spec["lookup"]}
    with quiet_fd():
        r = call(lambda: build_opt(spec, folder, with_file))
    c.programs += 1
    if r[0] != "ok":
        c.fail("constructing the problem raised: " + r[1], case)
        return
    p, m = r[1]
    decl = Declared(spec)
    dv = p.dae_variables
    names = {k: [s.name() for s in dv[k]] for k in ("states", "algebraics", "control_inputs", "constant_inputs", "lookup_tables", "parameters")}
    # ------------------------------------------------------------------ observe
    obs = {}
    obs["bounds"] = call(lambda: {k: v for k, v in p.bounds().items()})
    obs["history"] = call(lambda: {k: (list(map(float, v.times)), list(map(float, v.values))) for k, v in p.history(0).items()})
    obs["seed"] = call(lambda: {k: (list(map(float, v.times)), list(map(float, v.values))) for k, v in p.seed(0).items()})
    obs["parameters"] = call(lambda: {k: float(v) for k, v in p.parameters(0).items()})
    allv = names["states"] + names["algebraics"] + names["control_inputs"] + names["constant_inputs"] + names["lookup_tables"]
    obs["nominal"] = call(lambda: {k: float(p.variable_nominal(k)) for k in allv})
    obs["discrete"] = {k: bool(p.variable_is_discrete(k)) for k in allv}
    obs["outputs"] = [s.name() for s in p.output_variables]
    times = list(map(float, p.times()))
    t0 = float(p.initial_time)
    # ------------------------------------------------------------------ oracle (declared attributes)
    byname = {v["name"]: v for v in spec["variables"]}
    exp_role = {}
    for v in spec["variables"]:
        if v["kind"] == "input":
            exp_role[v["name"]] = "lookup_tables" if v["name"] in spec["lookup"] else (
                "constant_inputs" if v["fixed"] else "control_inputs")
    for n, role in exp_role.items():
        c.count(("opt", "role", role))
        c.hit("role/" + role)
        got = [k for k in ("control_inputs", "constant_inputs", "lookup_tables", "algebraics", "states") if n in names[k]]
        if got != [role]:
            c.fail("input %r classified as %r, declared role %r" % (n, got, role), case)
    for v in spec["variables"]:
        if v["kind"] == "state" and v["name"] not in names["states"]:
            c.fail("state %r not among the states" % v["name"], case, names)
        if v["kind"] == "alg" and v["name"] not in names["algebraics"]:
            c.fail("algebraic %r not among the algebraics" % v["name"], case, names)
    exp_out = [v["name"] for v in spec["variables"] if v["output"]] + [n for n, r in exp_role.items() if r == "control_inputs"]
    c.count(("opt", "outputs", len(exp_out)))
    for v in spec["variables"]:
        if v["kind"] == "aliasout":
            c.hit("outputs/alias-of-%s%s" % (exp_role.get(v["alias_of"][0], "state-or-output"), "-negated" if v["alias_of"][1] < 0 else ""))
    if sorted(obs["outputs"]) != sorted(exp_out):
        c.fail("output_variables are not the declared outputs plus every control, each once", case,
               {"expected": sorted(exp_out), "got": sorted(obs["outputs"]), "missing": sorted(set(exp_out) - set(obs["outputs"]))})
    declared_vars = [v for v in spec["variables"] if v["kind"] in ("state", "alg", "input")]
    # bounds
    exp_b = {v["name"]: decl.bounds(v) for v in declared_vars}
    any_raise = any(b == "raise" for b in exp_b.values())
    c.hit("bounds/raise" if any_raise else "bounds/ok")
    if any_raise != (obs["bounds"][0] == "raise"):
        c.fail("bounds(): %s, but the declarations %s be resolved" % (
            "raised " + str(obs["bounds"][1]) if obs["bounds"][0] == "raise" else "returned",
            "cannot" if any_raise else "can all"), case, {"expected": exp_b})
    elif not any_raise:
        for v in declared_vars:
            e = exp_b[v["name"]]
            g = obs["bounds"][1].get(v["name"])
            kind = tuple(("abs" if a is None else a[0]) for a in (v["attrs"]["min"], v["attrs"]["max"]))
            psrc = tuple(sorted({("code" if a[2] in spec["src"]["code"] else "file" if a[2] in spec["src"]["file"] else "model")
                                 for a in (v["attrs"]["min"], v["attrs"]["max"]) if a is not None and a[0] == "sym"}))
            c.count(("opt", "bounds", v["kind"], v["mtype"], kind, v["name"] in spec["inherited"], psrc,
                     e[0] == -INF, e[1] == INF, e[0] > e[1]))
            c.hit("bounds/" + "-".join(kind) + ("+inh" if v["name"] in spec["inherited"] else ""))
            if g is None or not (close(g[0], e[0]) and close(g[1], e[1])):
                c.fail("bounds of %r are not the intersection of the declared and inherited bounds" % v["name"], case,
                       {"expected": e, "got": g})
    # nominal, discreteness
    if obs["nominal"][0] != "ok":
        c.fail("variable_nominal raised: " + obs["nominal"][1], case)
    else:
        for v in declared_vars:
            e = decl.nominal(v)
            g = obs["nominal"][1][v["name"]]
            a = v["attrs"]["nominal"]
            c.count(("opt", "nominal", v["kind"], "abs" if a is None else a[0], e))
            c.hit("nominal/" + ("default" if e == 1.0 else "set"))
            if not (close(g, e) and g > 0):
                c.fail("nominal of %r: expected %r, got %r" % (v["name"], e, g), case)
    for v in declared_vars:
        e = v["mtype"] != "Real"
        c.count(("opt", "discrete", v["mtype"], v["kind"]))
        if obs["discrete"][v["name"]] != e:
            c.fail("variable_is_discrete(%r) = %r for a %s variable" % (v["name"], obs["discrete"][v["name"]], v["mtype"]), case)
    member_oracle(c, case, spec, decl, obs, declared_vars, byname, times, t0)
    # a second ensemble member with its own parameter values (start values are resolved per member)
    spec1 = None
    if spec["src"].get("code1"):
        spec1 = dict(spec, src=dict(spec["src"], code=dict(spec["src"]["code"], **spec["src"]["code1"])))
        case1 = dict(case, ensemble_member=1, sources=spec1["src"])
        obs1 = {
            "history": call(lambda: {k: (list(map(float, v.times)), list(map(float, v.values))) for k, v in p.history(1).items()}),
            "seed": call(lambda: {k: (list(map(float, v.times)), list(map(float, v.values))) for k, v in p.seed(1).items()}),
            "parameters": call(lambda: {k: float(v) for k, v in p.parameters(1).items()}),
        }
        c.hit("ensemble/member1")
        member_oracle(c, case1, spec1, Declared(spec1), obs1, declared_vars, byname, times, t0)
    # ------------------------------------------------------------------ model line (pymoca records)
    params = [v.symbol for v in m.parameters]
    try:
        line = {
            "op": "opt",
            "params": {"model": [[v.symbol.name(), pval_wire(v.value)] for v in m.parameters],
                       "file": [[k, pval_wire(v)] for k, v in spec["src"]["file"].items()],
                       "code": [[k, pval_wire(v)] for k, v in spec["src"]["code"].items()],
                       "deleted": spec["src"]["deleted"]},
            "states": [decl_wire(v, params) for v in m.states],
            "algs": [decl_wire(v, params) for v in m.alg_states],
            "inputs": [decl_wire(v, params, delay=v.symbol.name() in m.delay_states,
                                 lookup=v.symbol.name() in spec["lookup"]) for v in m.inputs],
            "outputs": list(m.outputs),
            "inherited": [[k, fr(lo), fr(hi)] for k, (lo, hi) in spec["inherited"].items()],
        }
    except ValueError as e:
        c.disagree("pymoca record outside the model's attribute language: %s" % e, case)
        return
    lines.append(line)
    pending.append(("opt", case, obs, names, times, t0))
    if spec1 is not None:
        # the model decides itself which member's values resolve what (bounds/nominal: member 0)
        line1 = dict(line, params=dict(line["params"], member=1,
                                       code1=[[k, pval_wire(v)] for k, v in spec["src"]["code1"].items()]))
        lines.append(line1)
        pending.append(("opt1", case1, dict(obs, **obs1), names, times, t0))
    c.sample({"stream": "opt", "model": spec["text"], "sources": spec["src"], "inherited_bounds": spec["inherited"]}, limit=3)


def compare_opt(c, mo, case, obs, names, times, t0, member_only=False):
    def d(k):
        return {row[0]: row[1] for row in mo[k]}

    if member_only:
        return compare_member(c, mo, case, obs, times, t0, d)

    # roles
    role_of = {}
    for k, tag in (("control_inputs", "control"), ("constant_inputs", "constant"), ("lookup_tables", "lookup")):
        for n in names[k]:
            role_of[n] = tag
    mroles = d("roles")
    for n, r in mroles.items():
        got = role_of.get(n, "algebraic" if n in names["algebraics"] else None)
        if got != r:
            c.disagree("role of input %r" % n, case, r, got)
    if sorted(mo["outputs"]) != sorted(obs["outputs"]):
        c.disagree("output_variables", case, mo["outputs"], obs["outputs"])
    mb = d("bounds")
    if any(v == "raise" for v in mb.values()) != (obs["bounds"][0] == "raise"):
        c.disagree("bounds() raise", case, mb, obs["bounds"])
    elif obs["bounds"][0] == "ok":
        for n, (lo, hi) in mb.items():
            g = obs["bounds"][1].get(n)
            if g is None or not (same(lo, g[0]) and same(hi, g[1])):
                c.disagree("bounds of %r" % n, case, [lo, hi], g)
    if obs["nominal"][0] == "ok":
        for n, v in d("nominal").items():
            if not same(v, obs["nominal"][1][n]):
                c.disagree("nominal of %r" % n, case, v, obs["nominal"][1][n])
    for n, v in d("discrete").items():
        if obs["discrete"][n] != v:
            c.disagree("discreteness of %r" % n, case, v, obs["discrete"][n])
    compare_member(c, mo, case, obs, times, t0, d)


def compare_member(c, mo, case, obs, times, t0, d):
    mh = d("history")
    if any(v == "raise" for v in mh.values()) != (obs["history"][0] == "raise"):
        c.disagree("history() raise", case, mh, obs["history"])
    elif obs["history"][0] == "ok":
        for n, v in mh.items():
            g = obs["history"][1].get(n)
            if v == "keep":
                if g is not None:
                    c.disagree("history entry of %r" % n, case, v, g)
            elif g is None or g[0] != [t0] or not same(v["put"], g[1][0]):
                c.disagree("history entry of %r" % n, case, v, g)
    if obs["seed"][0] == "ok":
        for n, v in d("seed").items():
            g = obs["seed"][1].get(n)
            if v == "keep":
                if g is not None:
                    c.disagree("seed entry of %r" % n, case, v, g)
            elif g is None or g[0] != times or not all(same(v["put"], x) for x in g[1]):
                c.disagree("seed entry of %r" % n, case, v, g)
    if obs["parameters"][0] == "ok":
        for n, v in d("parameters").items():
            if n in case["sources"]["deleted"]:
                continue
            g = obs["parameters"][1].get(n)
            if g is None or not same(v, g):
                c.disagree("parameter %r" % n, case, v, g)


# ---------------------------------------------------------------------------------------------
# simulation


def check_sim(c, spec, folder, lines, pending):
    from rtctools._internal.alias_tools import AliasDict

    rng = c.rng
    states = [v for v in spec["variables"] if v["kind"] == "state"]
    init_state = {v["name"]: float(rng.choice([4.0, -1.5, 7.0])) for v in states if rng.random() < 0.4}
    seedv = {v["name"]: float(rng.choice([5.0, -2.0, 0.75])) for v in states if rng.random() < 0.4}
    code = spec["src"]["code"]

    def initial_state(self):
        return AliasDict(self.alias_relation, dict(init_state))

    def seed(self):
        return AliasDict(self.alias_relation, dict(seedv))

    S = sim_class({"initial_state": initial_state, "seed": seed})
    case = {"stream": "sim", "model": spec["text"], "initial_state": init_state, "seed": seedv, "set_var_parameters": code}
    store = []
    with quiet_fd():
        with record_pymoca(store):
            r = call(lambda: S(model_folder=folder, model_name=spec["name"], input_folder=folder, output_folder=folder))
    c.programs += 1
    if r[0] != "ok":
        c.fail("constructing the simulation raised: " + r[1], case)
        return
    s = r[1]
    m = store[0]
    params = [v.symbol for v in m.parameters]
    try:
        decls = {v.symbol.name(): decl_wire(v, params) for v in m.states}  # before initialize() edits them
    except ValueError as e:
        c.disagree("pymoca record outside the model's attribute language: %s" % e, case)
        return
    model_params = [[v.symbol.name(), pval_wire(v.value)] for v in m.parameters]
    # roles: every input is a constant input
    inputs = sorted(s.get_input_variables().keys())
    exp_inputs = sorted(v["name"] for v in spec["variables"] if v["kind"] == "input")
    c.count(("sim", "roles", len(exp_inputs)))
    if inputs != exp_inputs:
        c.fail("simulation: inputs are not all constant inputs", case, {"expected": exp_inputs, "got": inputs})
    with quiet_fd():
        s.setup_experiment(0.0, 10.0, 1.0)
        for n in inputs:
            s.set_var(n, 0.25)
        for k, v in code.items():
            s.set_var(k, v)  # code overrides the model's parameter value
        r = call(s.initialize)
    if r[0] != "ok":
        c.hit("sim/initialize-failed")
        return
    decl = Declared(spec)
    for v in states:
        n = v["name"]
        got = float(s.get_var(n))
        nom = decl.nominal(v)
        tol = 1e-6 * max(1.0, nom * nom)
        # oracle: the clear-cut clauses
        st, sym = decl.resolve(v["attrs"]["start"], 0.0)
        has_start = st[0] == "val" and (sym or st[1] != 0.0)
        # (the decision table of the initialize() docstring: a declared fixed start always; else a
        #  non-zero / parameter-dependent Modelica start before initial_state(); initial_state() for a
        #  zero/absent start; seed() only when the variable is not fixed and initial_state() has nothing)
        if v["fixed"]:
            exp, why = st[1], "fixed start"
        elif n in init_state:
            exp, why = (st[1], "start over initial_state") if has_start else (init_state[n], "initial_state")
        elif n in seedv:
            exp, why = seedv[n], "seed"
        else:
            exp, why = st[1], "non-fixed start (soft)"
        a = v["attrs"]["start"]
        c.count(("sim", "start", v["fixed"], "abs" if a is None else a[0], has_start, n in init_state, n in seedv,
                 decl.nominal(v) != 1.0))
        c.hit("sim/" + why)
        if not abs(got - exp) <= tol * max(1.0, abs(exp)):
            c.fail("simulation: %r starts at %r, expected %r (%s)" % (n, got, exp, why), case)
        # the nominal in force after initialize(): |n| with the effective parameter values
        gn = float(s.get_variable_nominal(n))
        an = v["attrs"]["nominal"]
        en = decl.nominal(v) if an is None or an[0] == "lit" else abs(decl.resolve(an, 1.0)[0][1])
        c.count(("sim", "nominal", "abs" if an is None else an[0], an is not None and an[0] == "sym" and an[2] in code))
        if not (close(gn, en) and gn > 0):
            c.fail("simulation nominal of %r: expected %r, got %r" % (n, en, gn), case)
        lines.append({"op": "sim", "params": {"model": model_params, "file": [], "code": [[k, pval_wire(x)] for k, x in code.items()]},
                      "decl": decls[n], "initial_state": fr(init_state[n]) if n in init_state else None,
                      "seed": fr(seedv[n]) if n in seedv else None})
        pending.append(("sim", case, n, got, tol))
    c.sample(case, limit=5)


def compare_sim(c, mo, case, n, got, tol):
    if mo == "unresolved":
        return
    v = unfr(mo["value"])
    if not abs(float(v) - got) <= tol * max(1.0, abs(float(v))):
        c.disagree("simulation start value of %r" % n, case, mo, got)


# ---------------------------------------------------------------------------------------------


def probe_f5(c, folder):
    """F5 (candidate): optimisation io_mixin.bounds() replaces the Modelica min/max by the file
    series <var>_Min/_Max instead of intersecting"""
    silence()
    from rtctools.optimization.csv_mixin import CSVMixin
    from rtctools.optimization.timeseries import Timeseries

    spec = {"name": "F5", "src": {"file": {}}}
    write_mo(folder, "F5", [
        {"name": "x", "attrs": {"start": 1.0, "fixed": True, "min": -5.0, "max": 20.0}},
        {"name": "u", "prefix": "input", "attrs": {"fixed": False, "min": -2.0, "max": 3.0}}],
        ["der(x) = -0.5*x + u"])
    write_inputs(folder, spec, {"x_Max": [10.0, NAN, 30.0]})
    P = opt_class([0.0], mixins=(CSVMixin,))
    delattr(P, "times")  # CSVMixin supplies the times
    with quiet_fd():
        p = P(model_folder=folder, model_name="F5", input_folder=folder, output_folder=folder)
        p.pre()
        b = p.bounds()["x"]
    lo, hi = b
    lo_ok = lo is not None and np.all(np.asarray(lo.values if isinstance(lo, Timeseries) else lo) >= -5.0)
    hi_vals = np.asarray(hi.values if isinstance(hi, Timeseries) else hi, dtype=float)
    hi_ok = bool(np.all(hi_vals <= 20.0))
    reproduced = not (lo_ok and hi_ok)
    what = ("optimization io_mixin.bounds(): x(min=-5,max=20) with file series x_Max=[10,nan,30] gives lower=%r, upper=%s "
            "(Modelica bounds replaced, not intersected)" % (None if lo is None else "kept", hi_vals.tolist()))
    return reproduced, what


def run(c):
    c.rule = (
        "generated Modelica models: 1-3 states, Real/Integer/Boolean algebraics, inputs (control / fixed / Boolean / "
        "lookup / delay), outputs (plain, and (negated, chained) aliases of controls / constant inputs / states / "
        "other outputs); an export stream: CSVMixin problems with alias outputs, solved, timeseries_export.csv read "
        "back (one column per declared output and per control, values with the alias sign); every attribute absent / literal / affine in a parameter (incl. a parameter "
        "without value); fixed true/false/absent; parameter sources model / parameters.csv / code (and a deleted "
        "parameter); a second ensemble member with its own parameter values (start values per member, bounds and "
        "nominals from member 0); inherited bounds from a base class; simulation: start x fixed x initial_state x "
        "seed x set_var parameter overrides.  "
        "distinct = (stream, observable, attribute kinds, type, source) tuples"
    )
    c.assumptions = [
        "pymoca (parsing, flattening, constant folding, alias elimination) is trusted: the model starts from the "
        "variable records pymoca returns (recorded by wrapping pymoca's transfer_model while the mixin calls it)",
        "CasADi substitute / is_constant evaluate attribute expressions as written; attribute expressions in the "
        "generated models are affine in one parameter",
        "IPOPT returns the minimiser of the initialisation problem (simulation start values compared with 1e-6 x nominal^2)",
        "parameter-dependent values compared with 1e-9 relative tolerance",
        "export stream: IPOPT reaches the unconstrained optimum of sum (u - target)^2 within 1e-4; the export file "
        "holds 6 decimals (columns compared with 3e-6)",
    ]
    from .translate_c14 import gen_modelica_attrs

    c.prove(extra=gen_modelica_attrs(c))  # + ModelicaMixin attribute handling translated from the source
    n = c.n(12, 110)
    lines, pending = [], []
    with Scratch() as folder:
        for i in range(n):
            spec = gen_spec(c.rng, i, for_sim=False)
            spec["text"] = write_mo(folder, spec["name"], spec["recs"], spec["eqs"])
            check_opt(c, spec, folder, lines, pending)
        for i in range(n):
            spec = gen_spec(c.rng, 1000 + i, for_sim=True)
            spec["text"] = write_mo(folder, spec["name"], spec["recs"], spec["eqs"])
            check_sim(c, spec, folder, lines, pending)
        from .c14_outputs import check_out, compare_out, gen_out_spec

        for i in range(c.n(5, 30)):
            spec = gen_out_spec(c.rng, 2000 + i)
            spec["text"] = write_mo(folder, spec["name"], spec["recs"], spec["eqs"])
            check_out(c, spec, folder, lines, pending, record_pymoca)
        r = call(lambda: probe_f5(c, folder))
    outs = c.model(lines)
    if outs is not None:
        for mo, pend in zip(outs, pending):
            if mo in ("bad-op", "bad-json"):
                c.disagree("model driver rejected a case", pend[1], mo, None)
            elif pend[0] == "opt":
                compare_opt(c, mo, *pend[1:])
            elif pend[0] == "opt1":
                compare_opt(c, mo, *pend[1:])
            elif pend[0] == "outputs":
                compare_out(c, mo, *pend[1:])
            else:
                compare_sim(c, mo, *pend[1:])
    # F5
    if r[0] != "ok":
        c.broken.append(("F5 probe", r[1]))
    else:
        reproduced, what = r[1]
        c.known_probe("F5", reproduced, what)
    c.notes.append("alias outputs in the main stream only alias variables whose declared nominal is absent or a positive "
                   "literal: pymoca's alias elimination sets nominal := fmax(nominal, 0), which loses a negative nominal "
                   "of an aliased variable (variable_nominal gives 1 instead of |n|) -- pymoca-level, reported")
    c.exhaustive = False
    c.notes.append("decision logic proved per clause; the generated models tie it to ModelicaMixin / "
                   "SimulationProblem; file bounds series (<var>_Min/_Max) are kept out of the main stream (F5)")


def replay(c, rp):
    from .translate_c14 import gen_modelica_attrs

    c.prove(extra=gen_modelica_attrs(c))  # + ModelicaMixin attribute handling translated from the source
    for f in rp.get("failures", []) + rp.get("correspondence_disagreements", []):
        if f:
            print("replaying:", f["what"])
            print(f["case"].get("model", f["case"]))
