"""
C14, clause "declared outputs (plus controls) are what gets exported" -- the export stream.

Generated Modelica models in which declared outputs are plain algebraic outputs or (negated, chained)
ALIASES of controls / constant inputs / states / other outputs (`yo = u0`, `yo = -u0`, `yo + u0 = 0`),
built as `CSVMixin, ModelicaMixin, CollocatedIntegratedOptimizationProblem`, solved, and the written
`timeseries_export.csv` read back.  Independent oracle, in plain Python on the declared model text:

* `output_variables` (by name, as a multiset) = the declared outputs + EVERY input that is not declared
  fixed (each exactly once), whatever the alias relation says about them;
* the export has exactly one column per such name;
* a control's column holds the control's optimised values (also checked against the unconstrained
  optimum the objective pins it at), an alias output's column holds `sign x` the values of what it is an
  alias of, a plain output's column its defining expression.

The Lean model gets the pymoca input records (name, delay, lookup, fixed) and the declared outputs and
must report the same exported names (`exportedOf`).
"""
import csv as _csv
import os

from .c13_models import lit, opt_class, silence, write_mo
from .common import quiet_fd

TARGETS = [0.7, -1.3, 1.9, 0.4, -0.6, 2.2]


def gen_out_spec(rng, idx):
    nU = rng.choice([1, 2, 2, 3])
    nC = rng.choice([0, 1, 1])
    controls, constants, recs, eqs = [], [], [], []
    recs.append({"name": "x0", "attrs": {"start": lit(rng.choice([1.0, -0.5, 2.0])), "fixed": True, "min": -50.0, "max": 50.0}})
    for i in range(nU):
        fixed = rng.choice([False, None])
        attrs = {"min": -5.0, "max": 5.0}
        if fixed is not None:
            attrs["fixed"] = fixed
        recs.append({"prefix": "input", "name": "u%d" % i, "attrs": attrs})
        controls.append({"name": "u%d" % i, "target": None})
    for i, t in enumerate(rng.sample(TARGETS, nU)):
        controls[i]["target"] = t
    for i in range(nC):
        recs.append({"prefix": "input", "name": "c%d" % i, "attrs": {"fixed": True}})
        constants.append({"name": "c%d" % i, "values": [rng.choice([0.5, -0.25, 1.5]) for _ in range(3)]})
    rhs = "-x0" + "".join(" %s %s" % (rng.choice("+-"), v["name"]) for v in controls + constants)
    eqs.append("der(x0) = 0.0001*(%s)" % rhs)
    # plain (non-alias) outputs
    outputs = []  # {"name", "kind": "plain"|"alias", "of", "sign", "expr"}
    nP = rng.choice([0, 1, 1, 2])
    for i in range(nP):
        k = rng.choice([2.0, -3.0, 0.5])
        other = rng.choice(controls)["name"]
        outputs.append({"name": "y%d" % i, "kind": "plain", "k": k, "other": other})
        eqs.append("y%d = %s*x0 + %s" % (i, lit(k), other))
    # alias outputs: of controls (mostly), constant inputs, the state, earlier outputs
    nA = rng.choice([1, 1, 2, 3])
    for i in range(nA):
        r = rng.random()
        pool = [v["name"] for v in controls]
        if (i == 0 and r >= 0.8) or (i > 0 and r >= 0.45):
            pool = [v["name"] for v in constants] + ["x0"] + [o["name"] for o in outputs]
        of = rng.choice(pool)
        sign = rng.choice([1, -1])
        name = "a%d" % i
        if sign == 1:
            eq = rng.choice(["{a} = {t}", "{t} = {a}", "{a} - {t} = 0"])
        else:
            eq = rng.choice(["{a} = -{t}", "{a} + {t} = 0", "-{a} = {t}", "0 = {t} + {a}"])
        outputs.append({"name": name, "kind": "alias", "of": of, "sign": sign})
        eqs.append(eq.format(a=name, t=of))
    rng.shuffle(outputs)
    for o in outputs:
        recs.append({"prefix": "output", "name": o["name"], "attrs": {}})
    # declaration order of inputs / outputs / the state is shuffled too
    rng.shuffle(recs)
    rng.shuffle(eqs)
    return {"name": "E%d" % idx, "recs": recs, "eqs": eqs, "controls": controls, "constants": constants, "outputs": outputs}


def _write_inputs(folder, spec):
    names = [v["name"] for v in spec["constants"]] or ["dummy"]
    cols = {v["name"]: v["values"] for v in spec["constants"]} or {"dummy": [0.0, 0.0, 0.0]}
    with open(os.path.join(folder, "timeseries_import.csv"), "w") as f:
        f.write("time," + ",".join(names) + "\n")
        for i in range(3):
            f.write("2020-01-01 %02d:00:00," % i + ",".join(repr(cols[n][i]) for n in names) + "\n")
    for fn in ("parameters.csv", "timeseries_export.csv"):
        pf = os.path.join(folder, fn)
        if os.path.exists(pf):
            os.remove(pf)


def _call(fn):
    try:
        return ("ok", fn())
    except Exception as e:
        return ("raise", type(e).__name__ + ": " + str(e)[:200])


def _read_export(path):
    with open(path) as f:
        rows = list(_csv.reader(f))
    header = [h.strip() for h in rows[0]]
    cols = {h: [] for h in header[1:]}
    for row in rows[1:]:
        for h, x in zip(header[1:], row[1:]):
            cols[h].append(float(x))
    return header, cols


def _near(a, b, tol):
    return len(a) == len(b) and all(abs(float(x) - float(y)) <= tol * max(1.0, abs(float(y))) for x, y in zip(a, b))


def check_out(c, spec, folder, lines, pending, record_pymoca):
    silence()
    from rtctools.optimization.csv_mixin import CSVMixin

    _write_inputs(folder, spec)
    controls = spec["controls"]
    case = {"stream": "export", "model": spec["text"],
            "objective": "sum over controls (u - target)^2: " + ", ".join("%s->%r" % (v["name"], v["target"]) for v in controls),
            "constant_inputs": {v["name"]: v["values"] for v in spec["constants"]}}

    def path_objective(self, ensemble_member):
        s = 0.0
        for v in controls:
            s = s + (self.state(v["name"]) - v["target"]) ** 2
        return s

    P = opt_class([0.0], mixins=(CSVMixin,), extra={"path_objective": path_objective})
    delattr(P, "times")  # CSVMixin supplies the times
    store = []
    with quiet_fd():
        with record_pymoca(store):
            r = _call(lambda: P(model_folder=folder, model_name=spec["name"], input_folder=folder, output_folder=folder))
    c.programs += 1
    if r[0] != "ok":
        c.fail("export stream: constructing the problem raised: " + r[1], case)
        return
    p, m = r[1], store[0]
    declared = [o["name"] for o in spec["outputs"]]
    cnames = [v["name"] for v in controls]
    exp = declared + cnames
    got_ctrl = sorted(s.name() for s in p.dae_variables["control_inputs"])
    if got_ctrl != sorted(cnames):
        c.fail("export stream: the non-fixed inputs are not the controls", case, {"expected": sorted(cnames), "got": got_ctrl})
    got_const = sorted(s.name() for s in p.dae_variables["constant_inputs"])
    if got_const != sorted(v["name"] for v in spec["constants"]):
        c.fail("export stream: the fixed inputs are not the constant inputs", case, got_const)
    with quiet_fd():
        ov = _call(lambda: [s.name() for s in p.output_variables])
    alias_kinds = tuple(sorted({("ctrl" if o["of"] in cnames else "other", o["sign"]) for o in spec["outputs"] if o["kind"] == "alias"}))
    c.count(("export", "outputs", len(declared), len(cnames), alias_kinds))
    for o in spec["outputs"]:
        c.hit("export/" + (o["kind"] if o["kind"] == "plain" else
                           "alias-of-%s%s" % ("control" if o["of"] in cnames else "constant" if o["of"].startswith("c") else
                                              "state" if o["of"] == "x0" else "output", "" if o["sign"] == 1 else "-negated")))
    if ov[0] != "ok":
        c.fail("export stream: output_variables raised: " + ov[1], case)
        return
    if sorted(ov[1]) != sorted(exp):
        c.fail("output_variables are not the declared outputs plus every control, each once", case,
               {"expected": sorted(exp), "got": sorted(ov[1]), "missing": sorted(set(exp) - set(ov[1])),
                "extra_or_repeated": sorted(n for n in set(ov[1]) if ov[1].count(n) != exp.count(n))})
    # model line: pymoca's input records + declared outputs
    lines.append({"op": "outputs", "declared": list(m.outputs),
                  "inputs": [{"name": v.symbol.name(), "delay": v.symbol.name() in m.delay_states, "lookup": False,
                              "fixed": bool(v.fixed)} for v in m.inputs]})
    pending.append(("outputs", case, ov[1]))
    # ---- solve and read the export back
    with quiet_fd():
        r = _call(p.optimize)
    if r[0] != "ok" or not r[1]:
        c.hit("export/solve-failed")
        c.notes.append("export stream: optimize() did not succeed for one model (%s)" % (r[1],))
        return
    with quiet_fd():
        res = p.extract_results(0)
    path = os.path.join(folder, "timeseries_export.csv")
    if not os.path.exists(path):
        c.fail("export stream: no timeseries_export.csv written", case)
        return
    header, cols = _read_export(path)
    c.count(("export", "file", len(header)))
    if sorted(header[1:]) != sorted(exp) or header[0] != "time":
        c.fail("the export does not have exactly one column per declared output and per control", case,
               {"expected": sorted(exp), "got": header, "missing": sorted(set(exp) - set(header[1:]))})
    tol = 3e-6  # the file holds 6 decimals
    values = {}  # the independent value of every exportable name

    def value_of(n):
        if n in values:
            return values[n]
        if n in cnames or n == "x0":
            v = [float(x) for x in res[n]]
        elif any(k["name"] == n for k in spec["constants"]):
            v = [float(x) for x in next(k for k in spec["constants"] if k["name"] == n)["values"]]
        else:
            o = next(o for o in spec["outputs"] if o["name"] == n)
            if o["kind"] == "alias":
                v = [o["sign"] * x for x in value_of(o["of"])]
            else:
                v = [o["k"] * a + b for a, b in zip(value_of("x0"), value_of(o["other"]))]
        values[n] = v
        return v

    for v in controls:
        n = v["name"]
        if n in cols:
            c.count(("export", "control-column"))
            if not _near(cols[n], value_of(n), tol):
                c.fail("export column of control %r is not the control's result" % n, case, {"file": cols[n], "result": value_of(n)})
            elif not _near(cols[n], [v["target"]] * len(cols[n]), 1e-4):
                c.fail("export column of control %r is not at the optimum %r the objective pins it at" % (n, v["target"]), case, cols[n])
    for o in spec["outputs"]:
        n = o["name"]
        if n in cols:
            c.count(("export", "output-column", o["kind"], o.get("sign"), o.get("of", "")[:1]))
            if not _near(cols[n], value_of(n), tol):
                c.fail("export column of output %r is not %s" % (
                    n, ("%s%s" % ("-" if o["sign"] < 0 else "", o["of"])) if o["kind"] == "alias" else "its defining expression"),
                    case, {"file": cols[n], "expected": value_of(n)})
    c.sample(case, limit=2)


def compare_out(c, mo, case, got):
    if sorted(mo["outputs"]) != sorted(got):
        c.disagree("output_variables (export stream)", case, mo["outputs"], got)
