"""
C15 — trajectory accessors agree with each other and with the extracted results.

Proof obligations: lean/RtcVerif/Props/C15.lean (model: Model/C15.lean, reusing Model/Interp.lean).
Correspondence: the real `state_at`, `der_at`, `states_in`, `integral`, `map_path_expression`
expressions of synthetic `CollocatedIntegratedOptimizationProblem`s, evaluated as functions of the
decision vector at probe vectors (and at IPOPT solutions), against the Lean model through
Drivers/C15.lean.  Oracle: the property re-stated in plain Python on `extract_results()`.
"""
import bisect
import logging
import math
import warnings

import numpy as np

from . import c15_synth
from .common import fr, quiet_fd, same

NAN = float("nan")


def call(fn, *a, **k):
    try:
        return ("ok", fn(*a, **k))
    except Exception as e:  # the implementation rejects the input
        return ("raise", type(e).__name__)


def close(a, b, tol=1e-9):
    a = float(a)
    b = float(b)
    if math.isnan(a) or math.isnan(b):
        return math.isnan(a) and math.isnan(b)
    return abs(a - b) <= tol * max(1.0, abs(a), abs(b))


def close_list(a, b, tol=1e-9):
    a = list(a)
    b = list(b)
    return len(a) == len(b) and all(close(x, y, tol) for x, y in zip(a, b))


# ---------------------------------------------------------------------------------------------
# generator


def dy(rng, lo, hi, den=4):
    return rng.randint(int(lo * den), int(hi * den)) / den


def gen_times(rng, t0, n):
    ts = [t0]
    for _ in range(n - 1):
        ts.append(ts[-1] + rng.choice([0.25, 0.5, 0.5, 1.0, 1.0, 1.5, 2.0]))
    return ts


def gen_history(rng, t0):
    k = rng.choice([1, 2, 2, 3, 3, 4])
    ts = [t0]
    for _ in range(k - 1):
        ts.insert(0, ts[0] - rng.choice([0.5, 1.0, 1.0, 2.0]))
    return {"times": ts, "values": [dy(rng, -6, 6) for _ in ts]}


def gen_spec(rng):
    t0 = rng.choice([0.0, 0.0, 3.0, -2.5, 100.25])
    n = rng.choice([2, 3, 3, 4, 4, 5, 6])
    times = gen_times(rng, t0, n)
    E = rng.choice([1, 1, 2, 2, 3])
    states = ["x%d" % i for i in range(rng.choice([1, 1, 2]))]
    algs = ["a%d" % i for i in range(rng.choice([0, 1, 1, 2]))]
    controls = []
    for i in range(rng.choice([0, 1, 1, 2])):
        if n > 2 and rng.random() < 0.7:
            inner = [t for t in times[1:-1] if rng.random() < 0.4]
            own = [times[0]] + inner + [times[-1]]
        else:
            own = list(times)
        controls.append({"name": "u%d" % i, "times": own})
    modes = {}
    cins = []
    for i in range(rng.choice([0, 1, 1, 2])):
        name = "c%d" % i
        kind = rng.choice(["grid", "grid", "finer", "offgrid", "wide"])
        if kind == "grid":
            cts = list(times)
        elif kind == "finer":
            cts = sorted(set(times + [(a + b) / 2 for a, b in zip(times[:-1], times[1:]) if rng.random() < 0.6]))
        elif kind == "offgrid":
            cts = sorted(set([times[0]] + [t + 0.125 for t in times[:-1]] + [times[-1]]))
        else:
            cts = [times[0] - 1.5] + list(times) + [times[-1] + 2.0]
        cins.append({"name": name, "times": cts, "kind": kind,
                     "values": [[dy(rng, -5, 5) for _ in cts] for _ in range(E)]})
    params = [{"name": "p%d" % i, "values": [rng.choice([0.0, 1.0, dy(rng, -4, 4), dy(rng, -4, 4)]) for _ in range(E)]}
              for i in range(rng.choice([0, 1, 1, 2]))]
    if E > 1 and params and rng.random() < 0.4:  # ensemble-constant parameter (inlined by the code)
        params[0]["values"] = [params[0]["values"][0]] * E
    path_vars = ["w0"] if rng.random() < 0.3 else []
    svnames = states + algs + [c["name"] for c in controls] + path_vars
    aliases = []
    for base in svnames + [c["name"] for c in cins] + [p["name"] for p in params]:
        r = rng.random()
        if r < 0.45:
            aliases.append({"name": "n" + base, "of": base, "sign": -1})
        if 0.35 < r < 0.6:
            aliases.append({"name": "z" + base, "of": base, "sign": 1})
    nominal = {}
    for v in svnames:
        nominal[v] = rng.choice([1.0, 1.0, 10.0, 0.5, 4.0, 100.0, 0.125])
    for v in svnames + [c["name"] for c in cins]:
        modes[v] = rng.choice([0, 0, 1, 2])
    history = []
    hist_vars = [v for v in states + algs + [c["name"] for c in controls] if rng.random() < 0.6]
    hshape = {v: gen_history(rng, t0) for v in hist_vars}
    for m in range(E):
        history.append({v: {"times": h["times"], "values": [dy(rng, -6, 6) for _ in h["times"]]}
                        for v, h in hshape.items()})
    return dict(times=times, E=E, states=states, algs=algs, controls=controls, cins=cins, params=params,
                aliases=aliases, nominal=nominal, modes=modes, history=history, path_vars=path_vars,
                dyn={"a": rng.choice([0.5, 1.0, 0.25])})


# ---------------------------------------------------------------------------------------------
# spec helpers (shared by the model input builder and the oracle: pure look-ups in the spec)


class Info:
    def __init__(self, spec):
        self.spec = spec
        self.t0 = spec["times"][0]
        self.alias = {a["name"]: (a["of"], a["sign"]) for a in spec["aliases"]}
        self.own = {c["name"]: c["times"] for c in spec["controls"]}
        self.sv = spec["states"] + spec["algs"] + [c["name"] for c in spec["controls"]] + spec.get("path_vars", [])
        self.cin = {c["name"]: c for c in spec["cins"]}
        self.par = {p["name"]: p for p in spec["params"]}

    def canon(self, name):
        return self.alias.get(name, (name, 1))

    def times(self, name):
        c, _ = self.canon(name)
        return self.own.get(c, self.spec["times"])

    def mode(self, name):
        return self.spec["modes"].get(self.canon(name)[0], 0)

    def hist(self, name, m):
        hs = self.spec["history"]
        return hs[m].get(self.canon(name)[0]) if hs else None

    def names(self):
        base = self.sv + list(self.cin) + list(self.par)
        return base + list(self.alias)

    def kind(self, name):
        c, _ = self.canon(name)
        if c in self.spec["states"]:
            return "state"
        if c in self.spec["algs"]:
            return "alg"
        if c in self.own:
            return "control"
        if c in self.spec.get("path_vars", []):
            return "path"
        if c in self.cin:
            return "cin"
        if c in self.par:
            return "par"
        return "none"


def layout(pr, info, m):
    """index of every decision-vector entry of a variable, through the public state_vector()"""
    X = pr.solver_input
    N = X.size1()
    ar = np.arange(N, dtype=float)
    names = list(info.sv) + ["initial_der(%s)" % s for s in info.spec["states"]]
    vals = c15_synth.evalX(pr, [pr.state_vector(v, m) for v in names], ar)
    return {v: [int(round(i)) for i in idx] for v, idx in zip(names, vals)}


def model_prob(pr, info, m, x, lay):
    spec = info.spec
    svars = []
    for v in info.sv:
        h = info.hist(v, m)
        d = None
        if v in spec["states"]:
            dn = "initial_der(%s)" % v
            d = [fr(float(pr.variable_nominal(dn))), fr(float(x[lay[dn][0]]))]
        svars.append({"name": v, "nominal": fr(float(pr.variable_nominal(v))),
                      "times": [fr(t) for t in info.times(v)], "xs": [fr(float(x[i])) for i in lay[v]],
                      "mode": info.mode(v),
                      "hist": None if h is None else {"t": [fr(t) for t in h["times"]], "v": [fr(t) for t in h["values"]]},
                      "initDer": d})
    return {"t0": fr(info.t0), "times": [fr(t) for t in spec["times"]],
            "aliases": [{"name": a["name"], "of": a["of"], "neg": a["sign"] < 0} for a in spec["aliases"]],
            "svars": svars,
            "cins": [{"name": c["name"], "t": [fr(t) for t in c["times"]], "v": [fr(v) for v in c["values"][m]],
                      "mode": info.mode(c["name"])} for c in spec["cins"]],
            "pars": [{"name": p["name"], "v": fr(p["values"][m])} for p in spec["params"]]}


# ---------------------------------------------------------------------------------------------
# oracle: the property on the extracted results


class Raise(Exception):
    pass


def o_interp(mode, ts, vs, t):
    """the documented interpolant between the first and last knot, clamped outside"""
    if t <= ts[0]:
        return vs[0]
    if t >= ts[-1]:
        return vs[-1]
    j = bisect.bisect_right(ts, t) - 1
    if ts[j] == t:
        return vs[j]
    if mode == 1:
        return vs[j]
    if mode == 2:
        return vs[j + 1]
    return vs[j] + (vs[j + 1] - vs[j]) * (t - ts[j]) / (ts[j + 1] - ts[j])


class Oracle:
    def __init__(self, pr, info, m, results):
        self.pr, self.info, self.m, self.res = pr, info, m, results

    def nominal(self, name):
        return float(self.pr.variable_nominal(self.info.canon(name)[0]))

    def state_at(self, name, t, scaled=False, extrap=True):
        info, m = self.info, self.m
        c, sign = info.canon(name)
        kind = info.kind(name)
        if kind in ("state", "alg", "control", "path"):
            vals = list(map(float, self.res[name]))  # the extracted result, seen through the alias
            ts = info.times(name)
            if t >= info.t0:
                if not extrap and (t < ts[0] or t > ts[-1]):
                    raise Raise()
                v = o_interp(info.mode(name), ts, vals, t)
            else:
                h = info.hist(name, m)
                if h is None:
                    v = vals[0] if extrap else NAN
                elif t < h["times"][0] or t > h["times"][-1]:
                    v = (sign * (h["values"][0] if t < h["times"][0] else h["values"][-1])) if extrap else NAN
                else:
                    v = o_interp(info.mode(name), h["times"], [sign * q for q in h["values"]], t)
            return v / self.nominal(name) if scaled else v
        if kind == "cin":
            s = info.cin[c]
            vals = [sign * q for q in s["values"][m]]
            if t < s["times"][0] or t > s["times"][-1]:
                return (vals[0] if t < s["times"][0] else vals[-1]) if extrap else NAN
            return o_interp(info.mode(name), s["times"], vals, t)
        if kind == "par":
            return sign * info.par[c]["values"][m]
        raise Raise()

    def der_at(self, name, t):
        info, m = self.info, self.m
        c, sign = info.canon(name)
        if t == info.t0 and info.kind(name) == "state":
            return sign * float(self.res["initial_der(%s)" % c][0])
        ts = list(info.times(name))
        h = info.hist(name, m) if info.kind(name) in ("state", "alg", "control", "path") else None
        if t <= info.t0 and h is not None:
            ts = list(h["times"][:-1]) + ts
        if t == ts[0]:
            return 0.0
        j = bisect.bisect_left(ts, t) - 1  # ts[j] < t <= ts[j+1]
        if j < 0 or j + 1 >= len(ts):
            raise Raise()
        a, b = ts[j], ts[j + 1]
        return (self.state_at(name, b) - self.state_at(name, a)) / (b - a)

    def knots(self, name, a, b):
        info, m = self.info, self.m
        if info.kind(name) not in ("state", "alg", "control", "path"):
            raise Raise()
        c, sign = info.canon(name)
        ts = info.times(name)
        a = ts[0] if a is None else a
        b = ts[-1] if b is None else b
        pts = []
        if a < ts[0]:
            h = info.hist(name, m)
            if h is None:
                raise Raise()
            pts += [(t, sign * v) for t, v in zip(h["times"][:-1], h["values"][:-1]) if a <= t <= b]
        pts += [(t, float(v)) for t, v in zip(ts, self.res[name]) if a <= t <= b]
        have = {t for t, _ in pts}
        if a not in have:
            pts = [(a, self.state_at(name, a))] + pts
        if b not in have:
            pts = pts + [(b, self.state_at(name, b))]
        return pts

    def integral(self, name, a, b):
        k = self.knots(name, a, b)
        return sum(0.5 * (k[i][1] + k[i + 1][1]) * (k[i + 1][0] - k[i][0]) for i in range(len(k) - 1))


# ---------------------------------------------------------------------------------------------
# queries


def time_pool(rng, info, name, m):
    ts = info.times(name)
    pool = list(ts) + [(a + b) / 2 for a, b in zip(ts[:-1], ts[1:])] + [a + (b - a) / 4 for a, b in zip(ts[:-1], ts[1:])]
    g = info.spec["times"]
    pool += list(g) + [g[-1] + 0.5, g[-1] + 3.0, g[0] - 0.5, g[0] - 1.0, g[0] - 10.0]
    h = info.hist(name, m)
    if h is not None:
        hs = h["times"]
        pool += list(hs) * 2 + [(a + b) / 2 for a, b in zip(hs[:-1], hs[1:])] + [hs[0] - 1.0]
    c = info.canon(name)[0]
    if c in info.cin:
        cs = info.cin[c]["times"]
        pool += list(cs) + [(a + b) / 2 for a, b in zip(cs[:-1], cs[1:])] + [cs[0] - 0.75, cs[-1] + 0.75]
    return pool


def classify(info, name, m, t):
    if t is None:
        return "default"
    ts = info.times(name)
    h = info.hist(name, m)
    if t < info.t0:
        if h is None:
            return "pre-nohist"
        if t in h["times"]:
            return "pre-histknot"
        return "pre-before-hist" if t < h["times"][0] else "pre-between"
    if t == info.t0:
        return "t0"
    if t > ts[-1]:
        return "after-end"
    return "knot" if t in ts else "between"


def gen_queries(rng, info, m, nq):
    names = info.names()
    svn = [n for n in names if info.kind(n) in ("state", "alg", "control", "path")]
    qs = []
    for _ in range(nq):
        r = rng.random()
        if r < 0.45:
            name = rng.choice(names) if rng.random() < 0.9 else "nosuch"
            pool = time_pool(rng, info, name, m)
            qs.append({"k": "state_at", "name": name, "t": rng.choice(pool),
                       "scaled": rng.random() < 0.3, "extrap": rng.random() < 0.75})
        elif r < 0.65:
            name = rng.choice(names)
            pool = time_pool(rng, info, name, m)
            qs.append({"k": "der_at", "name": name, "t": rng.choice(pool)})
        else:
            name = rng.choice(svn) if rng.random() < 0.92 else rng.choice(names)
            pool = time_pool(rng, info, name, m)
            a, b = rng.choice(pool), rng.choice(pool)
            if a > b and rng.random() < 0.85:
                a, b = b, a
            if rng.random() < 0.15:
                a = None
            if rng.random() < 0.15:
                b = None
            qs.append({"k": rng.choice(["states_in", "integral"]), "name": name, "a": a, "b": b})
    # operation sequences: repeat earlier calls (state kept between calls must not change them)
    for q in list(qs):
        if rng.random() < 0.35:
            qs.append(dict(q))
    for q in list(qs):  # the same window through both accessors
        if q["k"] == "states_in" and rng.random() < 0.5:
            qs.append(dict(q, k="integral"))
    return qs


def wire_query(q):
    w = dict(q)
    for k in ("t", "a", "b"):
        if k in w:
            w[k] = None if w[k] is None else fr(w[k])
    return w


def run_impl_query(pr, q, m):
    k = q["k"]
    if k == "state_at":
        return call(pr.state_at, q["name"], q["t"], ensemble_member=m, scaled=q["scaled"], extrapolate=q["extrap"])
    if k == "der_at":
        return call(pr.der_at, q["name"], q["t"], ensemble_member=m)
    if k == "states_in":
        return call(pr.states_in, q["name"], q["a"], q["b"], ensemble_member=m)
    return call(pr.integral, q["name"], q["a"], q["b"], ensemble_member=m)


def oracle_query(o, q):
    try:
        k = q["k"]
        if k == "state_at":
            return ("ok", o.state_at(q["name"], q["t"], q["scaled"], q["extrap"]))
        if k == "der_at":
            return ("ok", o.der_at(q["name"], q["t"]))
        if k == "states_in":
            return ("ok", [v for _, v in o.knots(q["name"], q["a"], q["b"])])
        return ("ok", o.integral(q["name"], q["a"], q["b"]))
    except Raise:
        return ("raise",)


# ---------------------------------------------------------------------------------------------
# map_path_expression


def gen_exprs(rng, info, k):
    spec = info.spec
    cols = spec["states"] + spec["algs"] + [c["name"] for c in spec["controls"]]
    syms = [["state", j] for j in range(len(cols))] + [["der", j] for j in range(len(cols))]
    syms += [["cin", j] for j in range(len(spec["cins"]))] + ["time"]
    syms += [["pathv", j] for j in range(len(spec.get("path_vars", [])))]
    syms += [["par", j] for j in range(len(spec["params"]))]
    out = [{"const": 0.0, "terms": [{"c": 1.0, "s": [s]}]} for s in syms]  # every symbol on its own
    for _ in range(k):
        terms = []
        for _ in range(rng.randint(1, 3)):
            terms.append({"c": dy(rng, -3, 3), "s": [rng.choice(syms) for _ in range(rng.randint(1, 2))]})
        out.append({"const": dy(rng, -2, 2), "terms": terms})
    return out


def casadi_expr(pr, info, e):
    import casadi as ca

    spec = info.spec
    cols = spec["states"] + spec["algs"] + [c["name"] for c in spec["controls"]]

    def sym(s):
        if s == "time":
            return pr.dae_variables["time"][0]
        k, j = s
        if k == "state":
            return pr.variable(cols[j])
        if k == "der":
            return pr.der(cols[j])
        if k == "cin":
            return pr.variable(spec["cins"][j]["name"])
        if k == "pathv":
            return pr.variable(spec["path_vars"][j])
        return pr.variable(spec["params"][j]["name"])

    out = ca.MX(e["const"])
    for tm in e["terms"]:
        t = ca.MX(tm["c"])
        for s in tm["s"]:
            t = t * sym(s)
        out = out + t
    return out


T5_PENDING = False  # F36 (initial derivative constants dropped by reduce_matvec) is repaired


def t5_affected(info, m, e):
    spec = info.spec
    cols = spec["states"] + spec["algs"] + [c["name"] for c in spec["controls"]]
    for tm in e["terms"]:
        for s in tm["s"]:
            if s != "time" and s[0] == "der" and cols[s[1]] not in spec["states"]:
                h = info.hist(cols[s[1]], m)
                if h is not None and len(h["times"]) > 1:
                    return True
    return False


def map_model_input(pr, info, m, x, lay):
    spec = info.spec
    cols = []
    for v in spec["states"] + spec["algs"] + [c["name"] for c in spec["controls"]]:
        h = info.hist(v, m)
        idc = 0.0
        d = None
        if v in spec["states"]:
            dn = "initial_der(%s)" % v
            d = [fr(float(pr.variable_nominal(dn))), fr(float(x[lay[dn][0]]))]
        elif h is not None and len(h["times"]) > 1:
            idc = (h["values"][-1] - h["values"][-2]) / (h["times"][-1] - h["times"][-2])
        cols.append({"nominal": fr(float(pr.variable_nominal(v))), "times": [fr(t) for t in info.times(v)],
                     "xs": [fr(float(x[i])) for i in lay[v]], "mode": info.mode(v), "hist": None,
                     "initDer": d, "idc": fr(idc)})
    return {"t0": fr(info.t0), "times": [fr(t) for t in spec["times"]], "cols": cols,
            "cins": [{"t": [fr(t) for t in c["times"]], "v": [fr(v) for v in c["values"][m]],
                      "mode": info.mode(c["name"])} for c in spec["cins"]],
            "pathv": [[fr(float(pr.variable_nominal(w)) * float(x[i])) for i in lay[w]] for w in spec.get("path_vars", [])],
            "pars": [fr(p["values"][m]) for p in spec["params"]]}


def oracle_map(o, e):
    """the expression evaluated time stamp by time stamp on the extracted results"""
    info, m, res = o.info, o.m, o.res
    spec = info.spec
    g = spec["times"]
    cols = spec["states"] + spec["algs"] + [c["name"] for c in spec["controls"]]

    def val(v, i):
        ts = info.times(v)
        if len(ts) == len(g):
            return float(res[v][i])
        return o_interp(info.mode(v), ts, list(map(float, res[v])), g[i])

    def sym(s, i):
        if s == "time":
            return g[i] - info.t0
        k, j = s
        if k == "state":
            return val(cols[j], i)
        if k == "der":
            v = cols[j]
            if i == 0:
                if v in spec["states"]:
                    return float(res["initial_der(%s)" % v][0])
                h = info.hist(v, m)
                if h is None or len(h["times"]) < 2:
                    return 0.0
                return (h["values"][-1] - h["values"][-2]) / (h["times"][-1] - h["times"][-2])
            return (val(v, i) - val(v, i - 1)) / (g[i] - g[i - 1])
        if k == "cin":
            return float(res[spec["cins"][j]["name"]][i])
        if k == "pathv":
            return float(res[spec["path_vars"][j]][i])
        return spec["params"][j]["values"][m]

    out = []
    for i in range(len(g)):
        tot = e["const"]
        for tm in e["terms"]:
            t = tm["c"]
            for s in tm["s"]:
                t = t * sym(s, i)
            tot += t
        out.append(tot)
    return out


# ---------------------------------------------------------------------------------------------
# one instance


def probe_vector(rng, N, dyadic):
    if dyadic:
        return np.array([rng.randint(-64, 64) / 8 for _ in range(N)])
    return np.array([rng.gauss(0, 3) for _ in range(N)])


def check_instance(c, spec, rng, nq, fixed_queries=None, solve=False, tag="random"):
    """returns the pending model lines and a closure that finishes the comparison"""
    import casadi as ca

    info = Info(spec)
    pr = c15_synth.make_problem(spec)
    c.programs += 1
    pending = []
    lines = []
    vectors = []
    integ = bool(spec.get("integrate_states"))
    if solve:
        with quiet_fd():
            ok = pr.optimize(preprocessing=False, postprocessing=False)
        if not ok:
            c.hit("solve-failed")
            return lines, pending
        c.hit("at-solution" + ("/integrated" if integ else ""))
        vectors.append(("solution", np.array(pr.solver_output, dtype=float), None))
        if integ:
            oracle_objective(c, pr, info, [pr.extract_results(m) for m in range(spec["E"])])
            vectors.append(("probe", probe_vector(rng, pr.solver_input.size1(), True) / 8.0, None))
    else:
        pr.transcribe()
        N = pr.solver_input.size1()
        for dyadic in (True, False):
            vectors.append(("probe", probe_vector(rng, N, dyadic), None))
    for vk, x, _ in vectors:
        if vk == "probe":
            results = pr.results_at(x)  # re-transcribes; accessors below refer to this transcription
        else:
            results = [pr.extract_results(m) for m in range(spec["E"])]
        X = pr.solver_input
        for m in range(spec["E"]):
            lay = layout(pr, info, m)
            # decode check: extract_results == nominal * X[idx] (ties the model input to the results)
            if integ:
                oracle_integration(c, pr, info, m, results[m], x, lay)
            for v in info.sv:
                if integ and v in spec["states"] + spec["algs"]:
                    continue  # only the initial value is a decision variable: see oracle_integration
                dec = float(pr.variable_nominal(v)) * x[lay[v]]
                if not close_list(dec, results[m][v]):
                    c.fail("extract_results differs from nominal * X[indices]", {"spec": spec, "var": v, "m": m},
                           {"decoded": dec, "results": results[m][v]})
            o = Oracle(pr, info, m, results[m])
            qs = fixed_queries if fixed_queries is not None else gen_queries(rng, info, m, nq)
            impl = [run_impl_query(pr, q, m) for q in qs]
            exprs = [r[1] for r in impl if r[0] == "ok"]
            vals = c15_synth.evalX(pr, exprs, x) if exprs else []
            it = iter(vals)
            impl_vals = [("raise", r[1]) if r[0] == "raise" else ("ok", next(it)) for r in impl]
            if not integ:  # the Lean model covers collocated transcriptions only
                lines.append({"op": "acc", "prob": model_prob(pr, info, m, x, lay), "q": [wire_query(q) for q in qs]})
            # map_path_expression
            es = gen_exprs(rng, info, 3)
            mimpl = [call(lambda e=e: pr.map_path_expression(casadi_expr(pr, info, e), m)) for e in es]
            mex = [r[1] for r in mimpl if r[0] == "ok"]
            mvals = c15_synth.evalX(pr, mex, x) if mex else []
            it2 = iter(mvals)
            mimpl_vals = [("raise", r[1]) if r[0] == "raise" else ("ok", next(it2)) for r in mimpl]
            if not integ:
                lines.append({"op": "map", "mp": map_model_input(pr, info, m, x, lay),
                              "e": [{"const": fr(e["const"]), "terms": [{"c": fr(t["c"]), "s": t["s"]} for t in e["terms"]]}
                                    for e in es]})
            pending.append(dict(spec=spec, info=info, m=m, x=x, qs=qs, impl=impl_vals, oracle=o, es=es,
                                mimpl=mimpl_vals, vk=vk, tag=tag, nomodel=integ))
    return lines, pending


def grid_values(info, res, v):
    """a variable's extracted result at the collocation times (own grids interpolated by the mode)"""
    g = info.spec["times"]
    ts = info.times(v)
    r = list(map(float, res[v]))
    if len(ts) == len(g):
        return r
    return [o_interp(info.mode(v), ts, r, t) for t in g]


def oracle_integration(c, pr, info, m, res, x, lay):
    """integrate_states = True: the extracted trajectory of every state is the theta = 1 integration
    (in physical units) of the synthetic DAE  x' = -a x + sum(u) + sum(c)  from its decoded initial value,
    algebraic state k = state (k mod #states) + first parameter"""
    spec = info.spec
    g = spec["times"]
    a = spec["dyn"]["a"]
    drive = np.zeros(len(g))
    for ctl in spec["controls"]:
        drive += np.array(grid_values(info, res, ctl["name"]))
    for ci in spec["cins"]:
        drive += np.array(list(map(float, res[ci["name"]])))
    p0 = spec["params"][0]["values"][m] if spec["params"] else 0.0
    xs = {}
    for v in spec["states"]:
        x0 = float(pr.variable_nominal(v)) * float(x[lay[v][0]])
        ref = [x0]
        for i in range(1, len(g)):
            dt = g[i] - g[i - 1]
            ref.append((ref[-1] + dt * drive[i]) / (1 + a * dt))
        xs[v] = ref
        c.hit("integrated:trajectory")
        if not close_list(ref, res[v], 1e-7):
            c.fail("integrate_states: extract_results of a state is not the integrated trajectory in physical units",
                   {"spec": spec, "member": m, "var": v, "x": x}, {"expected": ref, "results": res[v]})
    for k, z in enumerate(spec["algs"]):
        src = xs[spec["states"][k % len(spec["states"])]]
        ref = [float(pr.variable_nominal(z)) * float(x[lay[z][0]])] + [q + p0 for q in src[1:]]
        if not close_list(ref, res[z], 1e-7):
            c.fail("integrate_states: extract_results of an algebraic state is not the integrated trajectory",
                   {"spec": spec, "member": m, "var": z, "x": x}, {"expected": ref, "results": res[z]})


def oracle_objective(c, pr, info, results):
    """the transcribed objective at the solution equals the objective formula on extract_results()"""
    spec = info.spec
    obj = spec.get("objective")
    if not obj:
        return
    tot = 0.0
    for m in range(spec["E"]):
        o = Oracle(pr, info, m, results[m])
        f = sum(cf * o.state_at(v, t) for v, t, cf in obj["point"])
        f += sum(cf * sum(grid_values(info, results[m], v)) for v, cf in obj["path"])
        tot += float(pr.ensemble_member_probability(m)) * f
    c.hit("integrated:objective")
    if not close(tot, pr.objective_value, 1e-6):
        c.fail("the transcribed objective differs from the objective formula evaluated on extract_results()",
               {"spec": spec}, {"objective_value": pr.objective_value, "formula_on_results": tot})


def gen_spec_integrated(rng):
    """single shooting instances: all states / algebraic states integrated, controls (also on own grids)
    discretised; nominals != 1; objective with point terms on controls and a path term on states"""
    while True:
        spec = gen_spec(rng)
        if spec["controls"] and not spec["path_vars"]:
            break
    spec["integrate_states"] = True
    spec["E"] = min(spec["E"], 2)
    E = spec["E"]
    for lst in (spec["cins"], spec["params"]):
        for d in lst:
            d["values"] = d["values"][:E]
    # pinned initial values only (a pinned initial derivative would over-determine the shooting problem)
    spec["history"] = [{v: {"times": h["times"][-1:], "values": h["values"][-1:]}
                        for v, h in hm.items() if v in spec["states"]} for hm in spec["history"][:E]]
    for v in spec["states"] + [c_["name"] for c_ in spec["controls"]]:
        if rng.random() < 0.7:
            spec["nominal"][v] = rng.choice([10.0, 0.5, 4.0, 100.0])
    t0, tf = spec["times"][0], spec["times"][-1]
    names = [c_["name"] for c_ in spec["controls"]]
    alias = [a["name"] for a in spec["aliases"] if a["of"] in names]
    point = [[rng.choice(names + alias), rng.choice([t0, t0, tf, (t0 + tf) / 2]), dy(rng, -1, 1) or 0.5] for _ in range(2)]
    path = [[v, rng.choice([1.0, -0.5, 0.25])] for v in spec["states"]]
    spec["objective"] = {"point": point, "path": path}
    return spec


def judge(c, item, macc, mmap):
    """oracle + correspondence for one (instance, member, vector)"""
    spec, info, m, qs, o = item["spec"], item["info"], item["m"], item["qs"], item["oracle"]
    by_window = {}
    for qi, (q, iv) in enumerate(zip(qs, item["impl"])):
        case = {"spec": spec, "member": m, "x": item["x"], "query": q, "seq_pos": qi, "vector": item["vk"]}
        name = q["name"]
        tcls = classify(info, name, m, q.get("t", q.get("a")))
        key = (q["k"], info.kind(name), info.canon(name)[1], info.mode(name), tcls,
               classify(info, name, m, q.get("b")) if "b" in q else "", q.get("scaled"), q.get("extrap"),
               len(info.times(name)) != len(spec["times"]))
        c.count(key)
        c.hit(q["k"])
        c.hit("t:" + tcls)
        if item["tag"] == "random":
            c.sample({"member": m, "query": q, "impl": iv[1] if iv[0] == "ok" else "raise",
                      "times": info.times(name), "t0": info.t0}, limit=6)
        # ---- the property on the real code's outputs
        ov = oracle_query(o, q)
        if ov[0] == "raise" or iv[0] == "raise":
            if (ov[0] == "raise") != (iv[0] == "raise"):
                c.fail("%s: raise behaviour differs from the documented one" % q["k"], case,
                       {"expected": ov, "got": iv})
            else:
                c.hit("raise")
        else:
            got = iv[1]
            if q["k"] == "states_in":
                okv = close_list(ov[1], got)
            else:
                okv = len(got) == 1 and close(ov[1], got[0])
            if not okv:
                c.fail("%s differs from the property formula on the extracted results" % q["k"], case,
                       {"expected": ov[1], "got": got})
            if q["k"] in ("states_in", "integral"):
                by_window.setdefault((name, q["a"], q["b"]), {})[q["k"]] = got
        # ---- correspondence with the Lean model
        if macc is None:
            continue
        mo = macc[qi]
        if q["k"] == "states_in":
            if mo == "raise" or iv[0] == "raise":
                if (mo == "raise") != (iv[0] == "raise"):
                    c.disagree("states_in raise/value", case, mo, iv)
            elif not (len(mo["x"]) == len(iv[1]) and all(same(a, b) for a, b in zip(mo["x"], iv[1]))):
                c.disagree("states_in", case, mo, iv[1])
        else:
            if mo == "raise" or iv[0] == "raise":
                if (mo == "raise") != (iv[0] == "raise"):
                    c.disagree(q["k"] + " raise/value", case, mo, iv)
            elif not (len(iv[1]) == 1 and same(mo, iv[1][0])):
                c.disagree(q["k"], case, mo, iv[1])
    # ---- consistency between accessors on the real code (integral = trapezoid of states_in needs the
    #      knot times, which states_in does not return: done through the oracle's knot times)
    for (name, a, b), d in by_window.items():
        if "states_in" in d and "integral" in d:
            try:
                kn = o.knots(name, a, b)
            except Raise:
                continue
            xs = d["states_in"]
            if len(xs) == len(kn):
                tz = sum(0.5 * (xs[i] + xs[i + 1]) * (kn[i + 1][0] - kn[i][0]) for i in range(len(kn) - 1))
                c.hit("integral-vs-states_in")
                if not close(tz, d["integral"][0]):
                    c.fail("integral is not the trapezoid rule over states_in", {"spec": spec, "member": m, "name": name, "a": a, "b": b},
                           {"trapezoid": tz, "integral": d["integral"][0]})
    # ---- map_path_expression
    for ei, (e, iv) in enumerate(zip(item["es"], item["mimpl"])):
        case = {"spec": spec, "member": m, "x": item["x"], "expr": e}
        skip0 = T5_PENDING and t5_affected(info, m, e)
        c.count(("map", tuple(str(s) for tm in e["terms"] for s in tm["s"])[:3], info.t0 != 0, spec["E"]))
        c.hit("map_path_expression")
        exp = oracle_map(o, e)
        if skip0 and iv[0] == "ok":
            c.hit("map:T5-stamp0-skipped")
            exp = exp[1:]
            iv = ("ok", iv[1][1:])
        if iv[0] == "raise":
            c.fail("map_path_expression raised %s" % iv[1], case)
        elif not close_list(exp, iv[1]):
            c.fail("map_path_expression differs from the stamp-by-stamp evaluation on the results", case,
                   {"expected": exp, "got": iv[1]})
        if mmap is not None and iv[0] == "ok":
            mo = mmap[ei][1:] if skip0 else mmap[ei]
            if not (len(mo) == len(iv[1]) and all(m_ != "raise" and same(m_, v) for m_, v in zip(mo, iv[1]))):
                c.disagree("map_path_expression", case, mo, iv[1])


def run_batch(c, batch):
    lines, pend = [], []
    for ls, ps in batch:
        lines += ls
        pend += ps
    outs = c.model(lines) if lines else []
    pos = 0
    for item in pend:
        if item.get("nomodel"):
            judge(c, item, None, None)
            continue
        macc = outs[pos] if outs is not None else None
        mmap = outs[pos + 1] if outs is not None else None
        pos += 2
        if macc == "bad-op" or mmap == "bad-op":
            c.broken.append(("model driver", "bad-op for an instance of the %s stream" % item["tag"]))
            macc = mmap = None
        judge(c, item, macc, mmap)


# ---------------------------------------------------------------------------------------------
# corpus: former failing inputs (fixed findings), run first as ordinary cases


def corpus():
    base = dict(times=[3.0, 4.0, 5.5, 6.0, 8.0], E=1, states=["x0"], algs=["a0"],
                controls=[{"name": "u0", "times": [3.0, 5.5, 8.0]}],
                cins=[{"name": "c0", "times": [3.0, 3.5, 4.5, 5.0, 7.0, 8.0], "kind": "offgrid",
                       "values": [[1.0, 2.0, 3.0, 4.0, 5.0, 6.0]]}],
                params=[{"name": "p0", "values": [2.0]}],
                aliases=[{"name": "nx0", "of": "x0", "sign": -1}, {"name": "nu0", "of": "u0", "sign": -1},
                         {"name": "nc0", "of": "c0", "sign": -1}],
                nominal={"x0": 10.0, "u0": 4.0, "a0": 2.0}, modes={"c0": 1, "u0": 1, "x0": 0, "a0": 0},
                history=[{"x0": {"times": [0.0, 1.0, 3.0], "values": [3.0, 2.0, 1.0]}}], path_vars=[],
                dyn={"a": 0.5})
    nohist = dict(base, history=[{}])
    S = lambda n, t, sc=False, ex=True: {"k": "state_at", "name": n, "t": t, "scaled": sc, "extrap": ex}  # noqa
    W = lambda k, n, a, b: {"k": k, "name": n, "a": a, "b": b}  # noqa
    return [
        ("F12", nohist, [S("x0", 2.0), S("x0", 2.0, True), S("nx0", 1.0), S("u0", 2.5, True), S("x0", 2.0, False, False)]),
        ("F13", base, [W("states_in", "nx0", 0.0, 4.0), W("states_in", "nx0", 0.0, 4.0), W("integral", "nx0", 0.0, 4.0),
                       W("states_in", "x0", 0.0, 4.0), W("states_in", "nx0", 0.0, 4.0), S("x0", 1.0), S("nx0", 1.0)]),
        ("F31", base, [W("states_in", "x0", 4.25, 5.0), W("integral", "x0", 4.25, 5.0), W("states_in", "x0", 0.5, 2.0),
                       W("integral", "nx0", 0.5, 2.0), W("states_in", "x0", 4.5, 4.5), W("integral", "x0", 4.5, 4.5),
                       W("states_in", "x0", 8.5, 9.0), W("integral", "u0", 6.0, 7.0), W("states_in", "x0", 5.0, 4.0),
                       W("integral", "x0", 5.0, 4.0)]),
        ("F30/F32/F33", base, [S("c0", t) for t in base["times"]] + [S("nc0", 4.0), S("p0", 4.0)]),
        # F36: history-based initial derivative of an algebraic state / control in map_path_expression
        ("F36", dict(base, history=[{"a0": {"times": [1.0, 2.0, 3.0], "values": [1.5, -4.5, 1.75]},
                                     "u0": {"times": [2.5, 3.0], "values": [1.0, 2.0]}}]),
         [{"k": "der_at", "name": "a0", "t": 3.0}, {"k": "der_at", "name": "u0", "t": 3.0}]),
    ]


def run(c):
    warnings.filterwarnings("ignore")
    logging.getLogger("rtctools").setLevel(logging.CRITICAL)
    c.rule = (
        "synthetic problems (1-2 states, 0-2 algebraic states, 0-2 controls on own coarser grids, 0-2 constant "
        "inputs on/off the grid, 0-2 parameters, an optional path variable, positive and negated aliases of all "
        "kinds, nominals 0.125-100, modes 0/1/2 per variable, histories of 1-4 points per member, E 1-3, t0 in "
        "{0, 3, -2.5, 100.25}, non-uniform dyadic grids); per member and probe vector a SEQUENCE of ~25-40 accessor "
        "calls with repeats (state_at incl. scaled/extrapolate flags, der_at, states_in, integral; times on/between "
        "knots, at t0, in/before the history, after the end; windows incl. ones without knots and reversed ones) "
        "plus map_path_expression of every symbol and random polynomials; distinct = (accessor, variable kind, sign, "
        "mode, position class of the time/window ends, flags, own-grid?) tuples"
    )
    c.assumptions = [
        "CasADi evaluates the accessor expressions it is given (`Function`, `interp1d`, `map`); NumPy `interp`/`searchsorted` "
        "as re-stated in Model/Interp.lean (tied by C19)",
        "the model takes `times(variable)`, `interpolation_method(variable)`, `variable_nominal`, `history`, `constant_inputs`, "
        "`parameters` and the alias map as given inputs; the decision-vector layout is read through `state_vector`",
        "values compared with 1e-9 relative tolerance (binary64 vs exact rationals); knot times and raise/NaN classes exactly",
        "history series end at t0 (the code's `[:-1]` convention); every variable of the decision vector has >= 2 time stamps",
        "`integrate_states = True` (single shooting) is outside the Lean model; such instances are judged by the plain-Python "
        "oracle only (accessors vs extract_results, extract_results vs re-integration of the synthetic DAE, objective vs results)",
    ]
    from .translate_c15 import gen_accessors, gen_state_at

    # + der_at / __states_times_in (second half) / integral (Gen/Accessors.lean) and state_at / __states_times_in
    #   (first half) / states_in / the de-scaling of extract_results (Gen/StateAt.lean) translated from the source
    c.prove(extra=gen_accessors(c) + gen_state_at(c))
    rng = c.rng
    # corpus first
    batch = []
    for tag, spec, qs in corpus():
        batch.append(check_instance(c, spec, rng, 0, fixed_queries=qs, tag=tag))
        c.hit("corpus")
    run_batch(c, batch)
    n = c.n(120, 1500)
    nq = 26
    batch = []
    for i in range(n):
        spec = gen_spec(rng)
        solve = (i % 6 == 5)
        if solve:  # keep the problem feasible: pinned initial values only where they cannot conflict
            # (a pinned initial derivative + pinned initial state + the DAE at t0 over-determine it)
            spec["history"] = [{v: {"times": h["times"][-1:], "values": h["values"][-1:]}
                                for v, h in hm.items() if v in spec["states"]} for hm in spec["history"]]
        batch.append(check_instance(c, spec, rng, nq, solve=solve))
        if len(batch) >= 40:
            run_batch(c, batch)
            batch = []
    run_batch(c, batch)
    # integrate_states = True (single shooting): oracle level only (the Lean model covers collocation)
    batch = []
    for i in range(c.n(6, 90)):
        spec = gen_spec_integrated(rng)
        try:
            batch.append(check_instance(c, spec, rng, nq, solve=True, tag="integrated"))
        except Exception as e:
            c.fail("integrate_states: optimize() with point terms state_at(<control>, t) in the objective raised %s"
                   % type(e).__name__, {"spec": spec}, str(e)[:300])
            spec = dict(spec, objective={"point": [], "path": spec["objective"]["path"]})
            try:  # the accessors themselves are still judged
                batch.append(check_instance(c, spec, rng, nq, solve=True, tag="integrated"))
            except Exception as e2:
                c.fail("integrate_states: optimize() raised %s" % type(e2).__name__, {"spec": spec}, str(e2)[:300])
    run_batch(c, batch)
    c.notes.append("state_at (whole, path by path), the first half of __states_times_in, states_in and the de-scaling "
                   "statements of extract_controls / extract_states are re-translated from the source on every run "
                   "(Gen/StateAt.lean, 4 generated obligations) in addition to der_at / the knot assembly / the quadrature "
                   "(Gen/Accessors.lean, 3); the symbol cache of state_at is read as memoisation under a key that must name "
                   "all five arguments")
    c.notes.append("every accessor call is judged twice: by the plain-Python re-statement of the property on "
                   "extract_results() (failure = VIOLATION) and against the Lean model (disagreement = model no longer "
                   "describes the code); the unbounded claim is carried by the theorems in Props/C15.lean")


def replay(c, rp):
    from .translate_c15 import gen_accessors, gen_state_at

    c.prove(extra=gen_accessors(c) + gen_state_at(c))
    for f in (rp.get("failures", []) + rp.get("correspondence_disagreements", []))[:5]:
        print("replaying", f["what"])
    batch = [check_instance(c, spec, c.rng, 0, fixed_queries=qs, tag=tag) for tag, spec, qs in corpus()]
    run_batch(c, batch)
