"""
Synthetic optimisation problems for the C15 / C16 checks (no Modelica front-end).

`make_problem(spec)` builds a `CollocatedIntegratedOptimizationProblem` from a plain, JSON-able
`spec`:

  times        global collocation times (strictly increasing; times[0] is t0)
  E            ensemble size
  states       [name]                 differentiated states
  algs         [name]                 algebraic states
  controls     [{name, times}]        control inputs with their own (coarser) grid
  cins         [{name, times, values: [per member list]}]   constant inputs of the DAE
  params       [{name, values: [per member]}]
  aliases      [{name, of, sign}]     `name = sign * of`
  nominal      {canonical: float}
  modes        {canonical: 0|1|2}     interpolation method per variable
  history      [per member {canonical: {times, values}}]
  delays       [{expr: {const, terms: {var: coef}}, out: name,
                 tau: number | {"const": a, "par": [name, scale], "cin": [name, scale]}}]
  dyn          {"a": float}           x' = -a*x + sum(u) + sum(c)     (kept linear)
  path_vars    [name]                 extra path variables (size 1)
  equidistant  bool                   value of the problem-level `equidistant` property (default False)
  integrate_states  bool              single shooting: states and algebraic states are integrated (default False)
  objective    {"point": [[var, t, coef]], "path": [[var, coef]]}   sum coef*state_at(var, t) + path objective sum coef*var

Everything is supplied through the public interface of the class (properties / methods the
repo documents for overriding); results for an arbitrary decision vector are obtained through
the public `optimize()` with a scripted `casadi_solver` that returns that vector.
"""
import logging

import casadi as ca
import numpy as np


def _classes():
    from pymoca.backends.casadi.alias_relation import AliasRelation
    from rtctools._internal.alias_tools import AliasDict
    from rtctools.optimization.collocated_integrated_optimization_problem import (
        CollocatedIntegratedOptimizationProblem,
    )
    from rtctools.optimization.timeseries import Timeseries

    return AliasRelation, AliasDict, CollocatedIntegratedOptimizationProblem, Timeseries


class ScriptedSolver:
    """`casadi_solver` replacement: returns the decision vector it was told to return"""

    def __init__(self, holder):
        self.holder = holder

    def __call__(self, name, solver, nlp, opts):
        holder = self.holder

        class _S:
            def __call__(self, **kw):
                n = nlp["x"].size1()
                x = holder.get("x")
                if x is None:
                    x = np.zeros(n)
                assert len(x) == n
                return {"x": ca.DM(np.asarray(x, dtype=float)), "f": ca.DM(0.0)}

            def stats(self):
                return {"success": True, "return_status": "Solve_Succeeded", "iter_count": 0}

        return _S()


_CACHE = {}


def problem_class():
    if "cls" in _CACHE:
        return _CACHE["cls"]
    AliasRelation, AliasDict, Base, Timeseries = _classes()

    class SynthProblem(Base):
        def __init__(self, spec, **kw):
            self.spec = spec
            self._times = np.array(spec["times"], dtype=float)
            ar = AliasRelation()
            for a in spec.get("aliases", []):
                ar.add(a["of"], ("-" if a["sign"] < 0 else "") + a["name"])
            self._ar = ar
            sym = {}

            def S(n):
                sym[n] = ca.MX.sym(n)
                return sym[n]

            t = S("time")
            states = [S(n) for n in spec.get("states", [])]
            ders = [S("der(%s)" % n) for n in spec.get("states", [])]
            algs = [S(n) for n in spec.get("algs", [])]
            ctrls = [S(c["name"]) for c in spec.get("controls", [])]
            cins = [S(c["name"]) for c in spec.get("cins", [])]
            pars = [S(p["name"]) for p in spec.get("params", [])]
            self._sym = sym
            self._pathv = [S(n) for n in spec.get("path_vars", [])]
            self._mx = dict(time=[t], states=states, derivatives=ders, algebraics=algs,
                            control_inputs=ctrls, constant_inputs=cins, parameters=pars,
                            lookup_tables=[])
            a = spec.get("dyn", {}).get("a", 0.5)
            drive = sum(ctrls, ca.MX(0)) + sum(cins, ca.MX(0))
            res = [d + a * x - drive for x, d in zip(states, ders)]
            # algebraic k follows state k (mod #states), or the drive when there is no state;
            # outputs of delays are left free (their equation is the delay row)
            delay_out = {self._ar.canonical_signed(d["out"])[0] for d in spec.get("delays", [])}
            for k, z in enumerate(algs):
                if z.name() in delay_out:
                    continue
                src = states[k % len(states)] if states else drive
                res.append(z - src - (pars[0] if pars else 0))
            self._res = ca.vertcat(*res) if res else ca.MX(0, 1)
            self._holder = {}
            super().__init__(**kw)

        # --- model interface -----------------------------------------------------------------
        @property
        def dae_variables(self):
            return self._mx

        @property
        def dae_residual(self):
            return self._res

        @property
        def alias_relation(self):
            return self._ar

        @property
        def path_variables(self):
            return self._pathv

        def _canon(self, v):
            return self._ar.canonical_signed(v)[0]

        def times(self, variable=None):
            if variable is not None:
                c = self._canon(variable)
                for ctl in self.spec.get("controls", []):
                    if ctl["name"] == c and ctl.get("times") is not None:
                        return np.array(ctl["times"], dtype=float)
            return self._times

        def interpolation_method(self, variable=None):
            if variable is None:
                return 0
            return int(self.spec.get("modes", {}).get(self._canon(variable), 0))

        @property
        def ensemble_size(self):
            return int(self.spec.get("E", 1))

        @property
        def integrate_states(self):
            return bool(self.spec.get("integrate_states", False))

        def objective(self, ensemble_member):
            # point terms  sum coef * state_at(var, t)
            e = ca.MX(0)
            for var, t, coef in self.spec.get("objective", {}).get("point", []):
                e = e + float(coef) * self.state_at(var, float(t), ensemble_member=ensemble_member)
            return e

        def path_objective(self, ensemble_member):
            e = ca.MX(0)
            for var, coef in self.spec.get("objective", {}).get("path", []):
                e = e + float(coef) * self.state(var)
            return e

        @property
        def equidistant(self):
            # problem-level flag of the IO mixins ("the imported time series are equidistant")
            return bool(self.spec.get("equidistant", False))

        def parameters(self, ensemble_member):
            d = AliasDict(self._ar)
            for p in self.spec.get("params", []):
                d[p["name"]] = float(p["values"][ensemble_member])
            return d

        def constant_inputs(self, ensemble_member):
            d = AliasDict(self._ar)
            for c in self.spec.get("cins", []):
                d[c["name"]] = Timeseries(np.array(c["times"], dtype=float),
                                          np.array(c["values"][ensemble_member], dtype=float))
            return d

        def history(self, ensemble_member):
            # a fresh dictionary on every call would hide in-place modification of the stored
            # history; keep one object per member like the file-backed mixins do
            key = ("hist", ensemble_member)
            if key not in self._holder:
                d = AliasDict(self._ar)
                hs = self.spec.get("history") or []
                if hs:
                    for name, h in hs[ensemble_member].items():
                        d[name] = Timeseries(np.array(h["times"], dtype=float),
                                             np.array(h["values"], dtype=float))
                self._holder[key] = d
            return self._holder[key]

        def variable_nominal(self, variable):
            c = self._canon(variable)
            nom = self.spec.get("nominal", {})
            if c in nom:
                return nom[c]
            return super().variable_nominal(variable)

        def bounds(self):
            b = AliasDict(self._ar)
            for c in self.spec.get("controls", []):
                b[c["name"]] = (-1e3, 1e3)
            return b

        def map_options(self):
            return {"mode": "unroll"}

        def delayed_feedback(self):
            out = []
            for d in self.spec.get("delays", []):
                e = ca.MX(float(d["expr"].get("const", 0.0)))
                for v, coef in d["expr"]["terms"].items():
                    e = e + float(coef) * self._sym[v]
                tau = d["tau"]
                if isinstance(tau, dict):  # {"const": a, "par": [name, s], "cin": [name, s]}
                    dur = ca.MX(float(tau.get("const", 0.0)))
                    if tau.get("par"):
                        dur = dur + float(tau["par"][1]) * self._sym[tau["par"][0]]
                    if tau.get("cin"):
                        dur = dur + float(tau["cin"][1]) * self._sym[tau["cin"][0]]
                else:
                    dur = float(tau)
                out.append((e, d["out"], dur))
            return out

        # --- scripted solve --------------------------------------------------------------------
        def solver_options(self):
            o = super().solver_options()
            if self._holder.get("scripted", False):
                o["casadi_solver"] = ScriptedSolver(self._holder)
            else:
                # effort cap: an instance IPOPT cannot finish quickly is counted as "solve-failed" and not judged at a solution
                o["ipopt"] = dict(o.get("ipopt", {}), print_level=0, tol=1e-10, max_iter=300, max_cpu_time=15.0)
                o["print_time"] = False
            return o

        def results_at(self, x):
            """`extract_results()` for an arbitrary decision vector, through the public optimize()"""
            self._holder["x"] = np.asarray(x, dtype=float)
            self._holder["scripted"] = True
            try:
                self.optimize(preprocessing=False, postprocessing=False)
            finally:
                self._holder["scripted"] = False
            return [self.extract_results(m) for m in range(self.ensemble_size)]

    _CACHE["cls"] = SynthProblem
    return SynthProblem


def make_problem(spec):
    logging.getLogger("rtctools").setLevel(logging.CRITICAL)
    return problem_class()(spec)


def evalX(problem, exprs, x):
    """evaluate accessor expressions (MX / floats) as functions of the decision vector"""
    X = problem.solver_input
    mx = [ca.MX(e) if not isinstance(e, ca.MX) else e for e in exprs]
    f = ca.Function("f", [X], mx)
    r = f(np.asarray(x, dtype=float))
    if not isinstance(r, (list, tuple)):
        r = [r]
    return [np.array(v).ravel() for v in r]
