"""
C16 — delayed feedback equals the delayed expression, history included.

Proof obligations: lean/RtcVerif/Props/C16.lean (model: Model/C16.lean on top of Model/C15.lean).
Correspondence:
 * optimisation: delay rows of `transcribe()` (complete affine comparison (A, b) for every
   instance, row values at probe vectors), the "incomplete history" warning, against the Lean model;
 * simulation: generated `.mo` models with `delay(expr, tau)` run with `fixed_dt`, `get_var()` per
   step against the buffer model.
Oracle: the property re-stated in plain numpy on `extract_results()` (probe vectors and IPOPT
solutions) and on the recorded simulation steps.
"""
import logging
import math
import os
import shutil
import tempfile
import warnings

import numpy as np

from . import c15, c15_synth
from .common import fr, quiet_fd, same, unfr

NAN = float("nan")
dy = c15.dy


# ---------------------------------------------------------------------------------------------
# optimisation: generator


T6_PENDING = False  # F44 (history rows read the last member's constant inputs) is repaired


def gen_hist(rng, t0, kind):
    if kind == "one":
        ts = [t0]
    else:
        k = rng.choice([2, 3, 3, 4, 5])
        ts = [t0]
        for _ in range(k - 1):
            ts.insert(0, ts[0] - rng.choice([0.25, 0.5, 1.0, 1.0, 2.0]))
    return ts


def gen_spec(rng):
    t0 = rng.choice([0.0, 0.0, 3.0, -2.5])
    n = rng.choice([2, 3, 4, 4, 5, 6])
    times = c15.gen_times(rng, t0, n)
    E = rng.choice([1, 1, 2])
    states = ["x%d" % i for i in range(rng.choice([1, 1, 2]))]
    nd = rng.choice([1, 1, 2])
    algs = ["a0"] if rng.random() < 0.5 else []
    outs = ["yd%d" % i for i in range(nd)]
    controls = []
    for i in range(rng.choice([1, 1, 2])):
        if i > 0 and n > 2 and rng.random() < 0.6:
            own = [times[0]] + [t for t in times[1:-1] if rng.random() < 0.4] + [times[-1]]
        else:
            own = list(times)
        controls.append({"name": "u%d" % i, "times": own})
    recv = None
    if n > 2 and rng.random() < 0.45:
        # a control on a strictly coarser own grid that RECEIVES a delayed value (its value at the
        # collocation times is interpolated; its nominal must still be applied)
        inner = [t for t in times[1:-1] if rng.random() < 0.4]
        if len(inner) == n - 2:
            inner = inner[:-1]
        recv = "ur0"
        controls.append({"name": recv, "times": [times[0]] + inner + [times[-1]]})
    cins = []
    for i in range(rng.choice([0, 1, 1])):
        cts = [times[0] - 6.0] + [times[0] - 1.0] + list(times) if rng.random() < 0.6 else list(times)
        cins.append({"name": "c%d" % i, "times": cts, "kind": "wide",
                     "values": [[dy(rng, 0, 4) for _ in cts] for _ in range(E)]})
    if T6_PENDING:  # history rows read the last member's constant inputs (reported): keep them equal before t0
        for cdef in cins:
            for m in range(1, E):
                for i, t in enumerate(cdef["times"]):
                    if t <= times[0]:
                        cdef["values"][m][i] = cdef["values"][0][i]
    params = [{"name": "p0", "values": [dy(rng, -2, 2)] * E}]
    params.append({"name": "ptau", "values": [rng.choice([0.0, 0.25, 0.5, 1.0, 1.5, 2.5]) for _ in range(E)]})
    if E > 1 and rng.random() < 0.5:
        params[1]["values"] = [params[1]["values"][0]] * E
    svn = states + algs + outs + [c["name"] for c in controls]
    nominal = {v: rng.choice([1.0, 1.0, 10.0, 0.5, 4.0]) for v in svn}
    if recv:
        nominal[recv] = rng.choice([10.0, 0.5, 4.0, 100.0])
    modes = {v: rng.choice([0, 0, 0, 1, 2]) for v in svn + [c["name"] for c in cins]}
    aliases = []
    for v in states + outs + ([recv] if recv else []):
        if rng.random() < 0.4:
            aliases.append({"name": "n" + v, "of": v, "sign": -1})
    # histories: kind per member is shared, values differ
    hkind = rng.choice(["none", "one", "full", "full", "partial", "mixed", "nan"])
    # "late" instances: a time-varying delay whose look-back t - tau(t) is smallest at a LATER stamp and
    # reaches before the first history stamp there, while t0 - tau(t0) is covered by the history
    late = rng.random() < 0.2
    if late:
        hkind = "full"
    srcs = states + algs + [c["name"] for c in controls]
    hshape = {}
    if hkind != "none":
        base = gen_hist(rng, t0, "one" if hkind == "one" else "full")
        for v in srcs:
            if hkind == "partial" and rng.random() < 0.5:
                continue
            if hkind == "mixed" and rng.random() < 0.6:
                hshape[v] = gen_hist(rng, t0, "full")
            else:
                hshape[v] = list(base)
    history = []
    for m in range(E):
        hm = {}
        for v, ts in hshape.items():
            vals = [dy(rng, -4, 4) for _ in ts]
            if hkind == "nan" and len(ts) > 1 and rng.random() < 0.5:
                vals[rng.randrange(len(ts) - 1)] = NAN
            hm[v] = {"times": ts, "values": vals}
        history.append(hm)
    if late:
        hist_first = min(t for ts in hshape.values() for t in ts)
        vals = []
        for m in range(E):
            j = rng.randrange(1, n)
            row = [0.0] + [dy(rng, 0, 1) for _ in times[1:]]
            row[j] = (times[j] - 0.25 - hist_first) + rng.choice([0.25, 0.5, 1.0])
            vals.append(row)
        cins.append({"name": "ctau", "times": list(times), "kind": "grid", "values": vals})
        modes["ctau"] = 0
    delays = []
    for i, out in enumerate(outs):
        pool = [v for v in srcs if v != recv] + [c["name"] for c in cins if c["name"] != "ctau"]
        if i == 0 and recv:
            out = recv
        for _ in range(20):
            terms = {v: rng.choice([1.0, 2.0, -1.0, 0.5, -3.0, 1.5]) for v in rng.sample(pool, rng.randint(1, min(3, len(pool))))}
            const = rng.choice([0.0, 0.0, 1.0, -2.0])
            nomrow = const + sum(cf * (nominal[v] if v in nominal else 0.0) for v, cf in terms.items())
            for c in cins:
                if c["name"] in terms:
                    nomrow += 0.0  # constant inputs enter with their t0 value: checked below per member
            ok = True
            for m in range(E):
                r = nomrow + sum(terms[c["name"]] * c["values"][m][c["times"].index(times[0])] for c in cins if c["name"] in terms)
                ok = ok and abs(r) >= 0.25
            if ok:
                break
        else:
            terms, const = {states[0]: 1.0}, 0.0
        steps = [b - a for a, b in zip(times[:-1], times[1:])]
        tk = rng.choice(["zero", "small", "step", "big", "huge", "par", "par", "cin"])
        if late and i == 0:
            tk = "cinlate"
        if tk == "cinlate":
            tau = {"const": 0.25, "cin": ["ctau", 1.0]}
        elif tk == "zero":
            tau = 0.0
        elif tk == "small":
            tau = min(steps) / 2
        elif tk == "step":
            tau = rng.choice(steps)
        elif tk == "big":
            tau = max(steps) + rng.choice([0.25, 0.5, 1.0])
        elif tk == "huge":
            tau = 50.0
        elif tk == "par":
            tau = {"const": rng.choice([0.0, 0.25]), "par": ["ptau", rng.choice([1.0, 0.5, 2.0])]}
        else:
            tau = {"const": 0.25, "cin": [cins[0]["name"], 0.5]} if cins and cins[0]["name"] != "ctau" else 1.0
        outname = out
        if any(a["name"] == "n" + out for a in aliases) and rng.random() < 0.6:
            outname = "n" + out
        delays.append({"expr": {"const": const, "terms": terms}, "out": outname, "tau": tau, "tau_kind": tk})
    return dict(times=times, E=E, states=states, algs=algs + outs, controls=controls, cins=cins, params=params,
                aliases=aliases, nominal=nominal, modes=modes, history=history, path_vars=[], delays=delays,
                dyn={"a": rng.choice([0.5, 1.0])}, hkind=hkind, own_grid_receiver=bool(recv),
                equidistant=rng.random() < 0.5)  # problem-level flag; grids / history stamps here are NOT uniform


# ---------------------------------------------------------------------------------------------
# optimisation: model input


def expr_wire(info, e):
    spec = info.spec
    cols = spec["states"] + spec["algs"] + [c["name"] for c in spec["controls"]]
    cn = [c["name"] for c in spec["cins"]]
    terms = []
    for v, cf in e["terms"].items():
        terms.append({"c": fr(cf), "s": [["state", cols.index(v)] if v in cols else ["cin", cn.index(v)]]})
    return {"const": fr(e["const"]), "terms": terms}


def tau_wire(info, tau):
    spec = info.spec
    if not isinstance(tau, dict):
        return {"const": fr(float(tau)), "terms": []}
    terms = []
    if tau.get("par"):
        terms.append({"c": fr(tau["par"][1]), "s": [["par", [p["name"] for p in spec["params"]].index(tau["par"][0])]]})
    if tau.get("cin"):
        terms.append({"c": fr(tau["cin"][1]), "s": [["cin", [c["name"] for c in spec["cins"]].index(tau["cin"][0])]]})
    return {"const": fr(tau.get("const", 0.0)), "terms": terms}


def delay_model_input(pr, info, m, x, lay, d):
    spec = info.spec
    cols = spec["states"] + spec["algs"] + [c["name"] for c in spec["controls"]]
    mp = c15.map_model_input(pr, info, m, x, lay)
    for col in mp["cols"]:  # derivative symbols do not occur in the delayed expressions generated here
        if col["idc"] == "nan":
            col["idc"] = "0"
    hm = spec["history"][m] if spec["history"] else {}
    hists = []
    for v in cols:
        h = hm.get(v)
        hists.append(None if h is None else {"t": [fr(t) for t in h["times"]], "v": [fr(q) for q in h["values"]]})
    oc, osign = info.canon(d["out"])
    # the receiving variable goes to the model by NAME together with the alias relation of the spec: the model resolves
    # it (`DelayProb.named`); "out" / "outNeg" (the harness' own resolution) are only a cross-check of the returned pair
    return {"mp": mp, "hists": hists, "allHistTimes": [[fr(t) for t in h["times"]] for h in hm.values()],
            "expr": expr_wire(info, d["expr"]), "out": cols.index(oc), "outNeg": osign < 0,
            "outName": d["out"], "colNames": cols,
            "aliases": [{"name": a["name"], "of": a["of"], "neg": a["sign"] < 0} for a in spec["aliases"]],
            "tau": tau_wire(info, d["tau"])}


# ---------------------------------------------------------------------------------------------
# optimisation: oracle (numpy re-statement on extract_results)


def np_interp_mode(mode, ts, vs, q):
    ts = np.asarray(ts, dtype=float)
    vs = np.asarray(vs, dtype=float)
    out = []
    for t in np.atleast_1d(q):
        out.append(c15.o_interp(mode, list(ts), list(vs), float(t)))
    return np.array(out)


def hist_values_numpy(info, m, v, hts):
    """a variable's history on the common history stamps (NaN outside / without history)"""
    h = info.hist(v, m)
    if h is None:
        return np.full(len(hts), NAN)
    out = []
    for t in hts:
        if t < h["times"][0] or t > h["times"][-1]:
            out.append(NAN)
        else:
            # NaN entries poison the neighbouring interpolated values exactly as np.interp does
            mode = info.mode(v)
            ts, vs = h["times"], h["values"]
            if t in ts:
                out.append(vs[ts.index(t)])
            else:
                j = max(i for i in range(len(ts)) if ts[i] < t)
                if mode == 1:
                    out.append(vs[j])
                elif mode == 2:
                    out.append(vs[j + 1])
                else:
                    out.append(vs[j] + (vs[j + 1] - vs[j]) * (t - ts[j]) / (ts[j + 1] - ts[j]))
    return np.array(out, dtype=float)


def oracle_delay(pr, info, m, results, d):
    """expected relation: y(t_k) = Interp(out_times, out_values, t_k - tau_k); returns
    (y, delayed, incomplete, tau)"""
    spec = info.spec
    g = np.array(spec["times"], dtype=float)
    hm = spec["history"][m] if spec["history"] else {}
    allt = sorted(set(t for h in hm.values() for t in h["times"]))
    hts = allt[:-1]
    cn = {c["name"]: c for c in spec["cins"]}

    def on_grid(v):
        if v in cn:
            return np.array(results[v], dtype=float)
        ts = info.times(v)
        r = np.array(results[v], dtype=float)
        if len(ts) == len(g):
            return r
        return np_interp_mode(info.mode(v), ts, r, g)

    def on_hist(v):
        if v in cn:
            c = cn[v]
            out = []
            for t in hts:
                if t < c["times"][0] or t > c["times"][-1]:
                    out.append(NAN)
                else:
                    out.append(c15.o_interp(info.mode(v), c["times"], c["values"][m], t))
            return np.array(out, dtype=float)
        return hist_values_numpy(info, m, v, hts)

    e = d["expr"]
    trajD = e["const"] + sum(cf * on_grid(v) for v, cf in e["terms"].items())
    histD = e["const"] + sum((cf * on_hist(v) for v, cf in e["terms"].items()), np.zeros(len(hts)))
    tau = d["tau"]
    if isinstance(tau, dict):
        tv = np.full(len(g), float(tau.get("const", 0.0)))
        if tau.get("par"):
            tv = tv + tau["par"][1] * info.par[tau["par"][0]]["values"][m]
        if tau.get("cin"):
            tv = tv + tau["cin"][1] * np.array(results[tau["cin"][0]], dtype=float)
    else:
        tv = np.full(len(g), float(tau))
    q = g - tv
    earliest = q.min()
    # the history is usable iff some knot of history ++ horizon lies at or before the earliest query
    # time and, from the last such knot on, the expression has a value on every history stamp
    out_t = list(hts) + list(g)
    out_v = list(histD) + list(trajD)
    cands = [i for i, t in enumerate(out_t) if t <= earliest]
    if not cands:
        incomplete = True
    else:
        start = max(cands)
        incomplete = bool(np.any(np.isnan(histD[start:])))
    if incomplete:
        ot, ov = g, trajD
    else:
        ot, ov = out_t[start:], out_v[start:]  # earlier knots are never read (they may be NaN)
    oc, osign = info.canon(d["out"])
    y = on_grid(d["out"])  # interpolated to the collocation times when it lives on its own grid
    delayed = np_interp_mode(info.mode(oc), ot, ov, q)
    return y, delayed, incomplete, tv


def nominal_row(pr, info, m, d):
    spec = info.spec
    e = d["expr"]
    cn = {c["name"]: c for c in spec["cins"]}
    r = e["const"]
    for v, cf in e["terms"].items():
        if v in cn:
            c = cn[v]
            r += cf * c15.o_interp(info.mode(v), c["times"], c["values"][m], spec["times"][0])
        else:
            r += cf * float(pr.variable_nominal(v))
    return r


# ---------------------------------------------------------------------------------------------
# optimisation: one instance


class WarnCatcher(logging.Handler):
    def __init__(self):
        super().__init__(level=logging.WARNING)
        self.msgs = []

    def emit(self, record):
        self.msgs.append(record.getMessage())


def transcribe_with_warnings(pr):
    lg = logging.getLogger("rtctools")
    h = WarnCatcher()
    old = lg.level
    lg.setLevel(logging.WARNING)
    lg.addHandler(h)
    try:
        out = pr.transcribe()
    finally:
        lg.removeHandler(h)
        lg.setLevel(old)
    return out, [s for s in h.msgs if "Incomplete history for delayed expression" in s]


def affine_system(pr, nlp):
    import casadi as ca

    X = nlp["x"]
    f = ca.Function("J", [X], [ca.jacobian(nlp["g"], X), nlp["g"]])
    A, b = f(np.zeros(X.size1()))
    return np.array(A.full() if hasattr(A, "full") else A), np.array(b).ravel()


def opt_instance(c, spec, rng, solve=False):
    import casadi as ca
    from rtctools._internal.casadi_helpers import is_affine

    info = c15.Info(spec)
    pr = c15_synth.make_problem(spec)
    c.programs += 1
    lines, pend = [], []
    if solve:
        with quiet_fd():
            ok = pr.optimize(preprocessing=False, postprocessing=False)
        if not ok:
            c.hit("opt:solve-failed")
            return lines, pend
        c.hit("opt:at-solution")
        x = np.array(pr.solver_output, dtype=float)
        results = [pr.extract_results(m) for m in range(spec["E"])]
        for m in range(spec["E"]):
            for di, d in enumerate(spec["delays"]):
                y, delayed, inc, tv = oracle_delay(pr, info, m, results[m], d)
                c.count(("opt-solution", d["tau_kind"], spec["hkind"], inc, info.mode(info.canon(d["out"])[0])), n=len(y))
                if not np.allclose(y, delayed, rtol=1e-6, atol=1e-6):
                    c.fail("at the solution the delayed variable is not the delayed expression",
                           {"spec": spec, "member": m, "delay": d}, {"y": y, "delayed": delayed})
        return lines, pend
    (discrete, lbx, ubx, lbg, ubg, x0, nlp), warns = transcribe_with_warnings(pr)
    X = nlp["x"]
    N = X.size1()
    if not is_affine(nlp["g"], X):
        c.broken.append(("correspondence harness", "generated delay instance is not affine"))
        return lines, pend
    A, b = affine_system(pr, nlp)
    lbg_v = np.array(ca.veccat(*lbg)).ravel()
    ubg_v = np.array(ca.veccat(*ubg)).ravel()
    xs = [c15.probe_vector(rng, N, True), c15.probe_vector(rng, N, False)]
    res_at = []
    for x in xs:  # extract_results through the public optimize() with a scripted solver
        res_at.append(pr.results_at(x))
    # results_at re-transcribes: the row system is unchanged (deterministic); layout from the last one
    for m in range(spec["E"]):
        lay = c15.layout(pr, info, m)
        for di, d in enumerate(spec["delays"]):
            dm = delay_model_input(pr, info, m, np.zeros(N), lay, d)
            item = dict(spec=spec, info=info, m=m, d=d, di=di, A=A, b=b, lbg=lbg_v, ubg=ubg_v, xs=xs,
                        res_at=[r[m] for r in res_at], warns=warns, pr=pr, lay=lay, N=N, nlines=0)
            # complete affine comparison: the model at X = 0 and at every unit vector
            pts = [np.zeros(N)] + [np.eye(N)[i] for i in range(N)] + xs
            for x in pts:
                lines.append({"op": "delay", "d": delay_model_input(pr, info, m, x, lay, d)})
            item["nlines"] = len(pts)
            pend.append(item)
    return lines, pend


def find_rows(A, b, Am, bm):
    """indices of rows of (A, b) equal to the model rows (Am, bm), each used once"""
    used = set()
    idx = []
    scale = max(1.0, np.abs(A).max(), np.abs(b).max())
    for k in range(len(bm)):
        hit = None
        for i in range(len(b)):
            if i in used:
                continue
            if abs(b[i] - bm[k]) <= 1e-9 * max(1.0, abs(bm[k])) and np.all(np.abs(A[i] - Am[k]) <= 1e-9 * np.maximum(1.0, np.abs(Am[k]))):
                hit = i
                break
        if hit is None:
            return None, k
        used.add(hit)
        idx.append(hit)
    return idx, None


def opt_judge(c, item, outs):
    spec, info, m, d, N = item["spec"], item["info"], item["m"], item["d"], item["N"]
    n = len(spec["times"])
    case = {"spec": spec, "member": m, "delay": d}
    pr = item["pr"]
    oc = info.canon(d["out"])[0]
    # ---- oracle on the real code: at each probe vector the rows of g contain
    #      (y - Interp(out, t - tau)) / nominal computed from extract_results
    nomrow = nominal_row(pr, info, m, d)
    A, b = item["A"], item["b"]
    inc_o = None
    for x, res in zip(item["xs"], item["res_at"]):
        y, delayed, inc_o, tv = oracle_delay(pr, info, m, res, d)
        exp_rows = (y - delayed) / nomrow
        gv = A @ x + b
        used = set()
        for k in range(n):
            hit = [i for i in range(len(gv)) if i not in used and c15.close(gv[i], exp_rows[k]) and item["lbg"][i] == 0 and item["ubg"][i] == 0]
            if not hit:
                c.fail("no constraint row of transcribe() expresses y(t_k) = delayed expression at t_k - tau",
                       dict(case, k=k, x=x), {"expected_row_value": exp_rows[k], "y": y[k], "delayed": delayed[k], "incomplete": inc_o})
                break
            used.add(hit[0])
    c.count(("opt", d["tau_kind"], spec["hkind"], bool(inc_o), info.mode(oc), info.canon(d["out"])[1],
             len(info.times(oc)) != n, spec["E"], info.t0 != 0), n=n * (len(item["xs"]) + 1))  # rows judged
    c.hit("opt:tau-" + d["tau_kind"])
    c.hit("opt:hist-" + spec["hkind"])
    c.hit("opt:incomplete" if inc_o else "opt:complete")
    if len(info.times(oc)) != n:
        c.hit("opt:receiver-on-own-grid")
    c.sample({"times": spec["times"], "delay": d, "history": spec["history"][m] if spec["history"] else {}, "incomplete": inc_o}, limit=5)
    warned = len(item["warns"]) > 0
    # the warning is logged per (member, delay); count them over the whole transcription below
    # ---- correspondence with the Lean model
    if outs is None:
        return inc_o
    if any(o == "bad-op" for o in outs):
        c.broken.append(("model driver", "bad-op in the delay stream"))
        return inc_o
    mo0 = outs[0]
    if mo0["incomplete"] != bool(inc_o):
        c.disagree("incomplete-history decision (model vs numpy oracle)", case, mo0["incomplete"], inc_o)
    if not same(mo0["nominal"], nomrow):
        c.disagree("row scaling", case, mo0["nominal"], nomrow)
    # the model resolved the receiving variable's NAME through the alias relation: cross-check with the code's own relation
    cols = spec["states"] + spec["algs"] + [cc["name"] for cc in spec["controls"]]
    rc, rs = pr.alias_relation.canonical_signed(d["out"])
    if "out" in mo0 and (mo0["out"], mo0["outNeg"]) != (cols.index(rc) if rc in cols else -1, rs < 0):
        c.disagree("alias resolution of the receiving variable (model vs alias_relation.canonical_signed)", case,
                   [mo0["out"], mo0["outNeg"]], [rc, rs])
    c.hit("opt:receiver-named-by-alias" if rc != d["out"] else "opt:receiver-named-canonically")

    def rows_of(o):
        return [float(unfr(r)) if r not in ("nan", "raise") else NAN for r in o["rows"]]

    bm = np.array(rows_of(outs[0]))
    Am = np.array([np.array(rows_of(outs[1 + i])) - bm for i in range(N)]).T  # n x N
    idx, miss = find_rows(A, b, Am, bm)
    if idx is None:
        c.disagree("delay row %d of the model is not a row of transcribe() (complete affine comparison)" % miss,
                   case, {"A": Am[miss], "b": bm[miss]}, None)
    else:
        c.hit("opt:affine-complete")
        if not all(item["lbg"][i] == 0 and item["ubg"][i] == 0 for i in idx):
            c.disagree("delay rows are not equality rows", case, None, [(item["lbg"][i], item["ubg"][i]) for i in idx])
        for x, o in zip(item["xs"], outs[1 + N:]):
            gv = A @ x + b
            if not all(same(r, gv[i]) for r, i in zip(o["rows"], idx)):
                c.disagree("delay row values at a probe vector", dict(case, x=x), o["rows"], [gv[i] for i in idx])
    return inc_o


def run_opt_batch(c, batch):
    lines, pend = [], []
    for ls, ps in batch:
        lines += ls
        pend += ps
    outs = c.model(lines) if lines else []
    pos = 0
    per_prob = {}
    for item in pend:
        o = outs[pos:pos + item["nlines"]] if outs is not None else None
        pos += item["nlines"]
        inc = opt_judge(c, item, o)
        per_prob.setdefault(id(item["pr"]), [item, 0])[1] += 1 if inc else 0
    # the warning: logged once per (member, delay) with an incomplete history
    for item, n_inc in per_prob.values():
        if len(item["warns"]) != n_inc:
            c.fail("'Incomplete history' warnings do not match the delays whose history is incomplete",
                   {"spec": item["spec"]}, {"warnings": len(item["warns"]), "incomplete_delays": n_inc})


# ---------------------------------------------------------------------------------------------
# simulation


MO = """model MD
  parameter Real tau = {tau};
  parameter Real k = {k};
  Real x(start={x0}, fixed=true);
  Real z;
  Real yd;
  Real yd2;
  input Real u(fixed=true);
equation
  der(x) = -{a}*x + u;
  z = -x;
  yd = delay({c1}*x + {c2}*u + {c0}, tau);
  yd2 = delay({c3}*z, k*tau);
end MD;
"""


def sim_case(c, rng, folder, ci):
    from rtctools.simulation.simulation_problem import SimulationProblem

    dt = rng.choice([0.25, 0.5, 0.5, 1.0, 2.0])
    kind = rng.choice(["zero", "frac", "frac", "lt", "int", "int", "gt", "gt"])
    if kind == "zero":
        tau = 0.0
    elif kind == "lt":
        tau = dt * rng.choice([0.25, 0.5, 0.75])
    elif kind == "int":
        tau = dt * rng.choice([1, 2, 3])
    elif kind == "frac":
        tau = dt * (rng.choice([0, 1, 2]) + rng.choice([0.25, 0.5, 0.75, 0.3, 0.9]))
    else:
        tau = dt * rng.choice([1.5, 2.25, 3.5, 5.0])
    k = rng.choice([1.0, 2.0, 0.5, 1.5])
    par = dict(tau=repr(tau), k=repr(k), x0=repr(dy(rng, -2, 2)), a=repr(rng.choice([0.5, 0.25, 1.0])),
               c1=repr(rng.choice([1.0, 2.0, -1.5])), c2=repr(rng.choice([0.0, 0.5, -1.0])), c0=repr(rng.choice([0.0, 1.0])),
               c3=repr(rng.choice([1.0, 3.0])))
    sub = os.path.join(folder, "m%d" % ci)
    os.makedirs(sub)
    with open(os.path.join(sub, "MD.mo"), "w") as f:
        f.write(MO.format(**par))

    class S(SimulationProblem):
        def compiler_options(self):
            o = super().compiler_options()
            o["cache"] = False
            return o

    steps = rng.randint(4, 9)
    us = [dy(rng, -2, 2) for _ in range(steps + 1)]
    t_start = rng.choice([0.0, 0.0, 10.0])
    with quiet_fd():
        s = S(model_folder=sub, model_name="MD", input_folder=sub, output_folder=sub, fixed_dt=dt)
        s.setup_experiment(t_start, t_start + 1000.0, dt)
        s.set_var("u", us[0])
        s.initialize()
        rec = []

        def snap():
            rec.append({v: float(s.get_var(v)) for v in ("time", "x", "z", "u", "yd", "yd2")})

        snap()
        for j in range(steps):
            s.set_var("u", us[j + 1])
            s.update(dt)
            snap()
    c.programs += 1
    T = np.array([r["time"] for r in rec])
    c1, c2, c0, c3 = (float(par[q]) for q in ("c1", "c2", "c0", "c3"))
    lines, cases = [], []
    for (yname, D, tt) in (("yd", [c1 * r["x"] + c2 * r["u"] + c0 for r in rec], tau),
                           ("yd2", [c3 * r["z"] for r in rec], k * tau)):
        Y = np.array([r[yname] for r in rec])
        D = np.array(D)
        case = {"model": par, "dt": dt, "tau": tt, "var": yname, "T": T, "D": D, "Y": Y, "u": us}
        c.count(("sim", kind, dt, round(tt / dt, 3), yname), n=len(T))  # steps judged
        c.hit("sim:tau-" + ("zero" if tt == 0 else "int" if (tt / dt) == int(tt / dt) else "frac"))
        c.sample({"sim": {"dt": dt, "tau": tt, "Y": Y, "D": D}}, limit=7)
        # oracle: y(t) = D(t - tau), linear between steps, the t0 value before t0
        exp = np.interp(T - tt, T, D)
        if not np.allclose(Y, exp, rtol=1e-7, atol=1e-8):
            c.fail("simulation: delayed variable is not the delayed expression", case, {"expected": exp, "got": Y})
        if not np.allclose([r["z"] for r in rec], [-r["x"] for r in rec], atol=1e-9):
            c.fail("simulation: alias z = -x", case)
        lines.append({"op": "sim", "tau": fr(tt), "dt": fr(dt), "d0": fr(float(D[0])), "ds": [fr(float(v)) for v in D[1:]]})
        cases.append(case)
    return lines, cases


def run_sim(c, count):
    folder = tempfile.mkdtemp(prefix="c16_")
    try:
        lines, cases = [], []
        for ci in range(count):
            try:
                ls, cs = sim_case(c, c.rng, folder, ci)
            except Exception as e:  # the implementation rejects a valid delay model
                c.fail("simulation of a model with delay() raised %s" % type(e).__name__, {"case": ci, "error": str(e)[:300]})
                continue
            lines += ls
            cases += cs
        outs = c.model(lines)
        if outs is not None:
            for case, o in zip(cases, outs):
                if o == "bad-op":
                    c.broken.append(("model driver", "bad-op in the simulation stream"))
                    continue
                # the root finder solves each step to ~1e-10; errors do not accumulate in the model
                # because it is fed the recorded expression values
                if not (len(o["y"]) == len(case["Y"]) and all(same(a, b, rtol=1e-7, atol=1e-8) for a, b in zip(o["y"], case["Y"]))):
                    c.disagree("simulation delayed variable per step", case, o["y"], case["Y"])
                n_exp = max(1, math.ceil(case["tau"] / case["dt"] - 1e-12)) if case["tau"] > 0 else 1
                if o["n"] != n_exp:
                    c.disagree("buffer length", case, o["n"], n_exp)
    finally:
        shutil.rmtree(folder, ignore_errors=True)


# ---------------------------------------------------------------------------------------------


def corpus():
    """former failing inputs (fixed findings), run first as ordinary cases"""
    # F44: y = delay(c, 1) with E = 2 and constant inputs that differ between the members before t0
    f44 = dict(times=[0.0, 1.0, 2.0], E=2, states=["x0"], algs=["yd0"], controls=[{"name": "u0", "times": [0.0, 1.0, 2.0]}],
               cins=[{"name": "c0", "times": [-1.0, 0.0, 1.0, 2.0], "kind": "wide",
                      "values": [[100.0, 1.0, 2.0, 3.0], [200.0, 1.5, 2.0, 3.0]]}],
               params=[{"name": "p0", "values": [0.0, 0.0]}, {"name": "ptau", "values": [1.0, 1.0]}], aliases=[],
               nominal={"x0": 1.0, "yd0": 1.0, "u0": 1.0}, modes={"x0": 0, "yd0": 0, "u0": 0, "c0": 0},
               history=[{"x0": {"times": [-1.0, 0.0], "values": [0.5, 0.25]}}, {"x0": {"times": [-1.0, 0.0], "values": [1.0, 2.0]}}],
               path_vars=[], dyn={"a": 0.5}, hkind="full",
               delays=[{"expr": {"const": 0.0, "terms": {"c0": 1.0}}, "out": "yd0", "tau": 1.0, "tau_kind": "step"}])
    return [f44]


def run(c):
    warnings.filterwarnings("ignore")
    logging.getLogger("rtctools").setLevel(logging.CRITICAL)
    c.rule = (
        "optimisation: synthetic problems (states, algebraic states, controls incl. coarser grids, constant inputs, "
        "negated aliases, nominals, modes 0/1/2) with 1-2 delayed feedbacks (receiving variable: an algebraic state on the "
        "collocation grid or a control on a coarser own grid with nominal != 1, also through a negated alias) y = delay(const + sum coef*var, tau); tau in "
        "{0, < dt, = a step, > dt, longer than the history, parameter-dependent (per member), input-dependent (time varying, incl. look-back t - tau(t) "
        "that is smallest at a later stamp and leaves the history there while t0 - tau(t0) is covered)}; "
        "histories none / one point / full / partial / different stamps per variable / NaN gaps; non-uniform grids, t0 != 0, "
        "problem-level `equidistant` flag True/False; "
        "E <= 2.  simulation: generated .mo models (two delays, one through a negated alias, tau = 0, < dt, integer and "
        "non-integer multiples of dt, parameter product k*tau), 4-9 steps with a changing input.  distinct = (stream, tau kind, "
        "history kind, complete/incomplete, mode, sign, own grid, E, t0) tuples"
    )
    c.assumptions = [
        "CasADi `interp1d`, `Function`, `map`, `jacobian` evaluate as documented; the simulation root finder returns a root "
        "(steps compared with 1e-7 tolerance)",
        "delayed expressions are affine in the variables (the generator's class; the theorems are for arbitrary expression values)",
        "delay durations are >= 0 and do not depend on `time`; the expression does not depend on `time` "
        "(on history rows the code passes absolute time, on the horizon time relative to t0)",
        "history series end at t0",
        "pymoca turns `delay(expr, tau)` into delay states/arguments (not modelled; observed through get_var)",
    ]
    from .translate_c16 import gen_delay_hist, gen_delay_rows

    # + delay buffer / residuals / delayed-feedback rows, and the history assembly / delay durations / row scaling /
    # named receiving variable of the delayed-feedback block, translated from the source
    c.prove(extra=gen_delay_rows(c) + gen_delay_hist(c))
    rng = c.rng
    n = c.n(40, 500)
    batch = []
    for spec in corpus():
        try:
            batch.append(opt_instance(c, spec, rng))
        except Exception as e:  # the implementation rejects a valid delay problem of the fixed corpus
            c.fail("transcribe() of a corpus problem with delayed feedback raised %s" % type(e).__name__,
                   {"spec": spec}, str(e)[:300])
    run_opt_batch(c, batch)
    c.hit("opt:corpus", len(batch))
    batch = []
    for i in range(n):
        spec = gen_spec(rng)
        solve = (i % 5 == 4)
        if solve:
            # feasibility: one member, one free control without history, no history on algebraic
            # variables, a pinned initial derivative for at most one state
            while spec["E"] != 1 or spec["own_grid_receiver"]:
                spec = gen_spec(rng)
            keep = {}
            for v, h in spec["history"][0].items():
                if v == spec["states"][0] or (v.startswith("u") and v != "u0"):
                    keep[v] = h
                elif v in spec["states"]:
                    keep[v] = {"times": h["times"][-1:], "values": h["values"][-1:]}
            keep = {v: h for v, h in keep.items() if not any(math.isnan(q) for q in h["values"][-2:])}
            spec["history"] = [keep]
        try:
            batch.append(opt_instance(c, spec, rng, solve=solve))
        except Exception as e:  # the implementation rejects a valid delay problem
            c.fail("transcribe()/optimize() of a problem with delayed feedback raised %s" % type(e).__name__,
                   {"spec": spec}, str(e)[:300])
        if len(batch) >= 10:
            run_opt_batch(c, batch)
            batch = []
    run_opt_batch(c, batch)
    run_sim(c, c.n(8, 60))
    c.notes.append("optimisation rows: complete per instance (the model's affine map is reconstructed from its values at 0 and "
                   "all unit vectors and matched against (A, b) of transcribe()); solutions and simulation steps are samples; "
                   "the unbounded claim is carried by the theorems in Props/C16.lean")


def replay(c, rp):
    from .translate_c16 import gen_delay_hist, gen_delay_rows

    c.prove(extra=gen_delay_rows(c) + gen_delay_hist(c))
    for f in (rp.get("failures", []) + rp.get("correspondence_disagreements", []))[:5]:
        print("replaying", f["what"])
        spec = f["case"].get("spec")
        if spec:
            run_opt_batch(c, [opt_instance(c, spec, c.rng)])
