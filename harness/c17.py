"""
C17 — equivalent formulations give equal optima.

Proof obligations: lean/RtcVerif/Props/C17.lean (min-abs value, chord majorant of eps^order for any
knot vector, vector goal = scalar goals on the objective model).

Correspondence / oracle on every run:
  * the ACTUAL coefficient table `LinearizedOrderGoal._get_linear_coefficients(order)` of the running
    code for orders 2-5 is checked with exact Fractions against the chord formula (consecutive lines
    meet on the curve x^r at increasing abscissae 0 = x_0 < ... < x_K = 1, within 1e-12), and against
    the Lean model's `coeffs`, `knotsOK`, `segGaps` (stated tolerance eps * x^(r-1)), `linMax`;
  * paired real runs (HiGHS, order-1 goals; qpoases for the order-2 regression of F42):
    vector goal vs its scalar goals; single pass (both methods) vs multi-pass keep_soft_constraints;
    CachingQPSol vs plain qpsol; MinAbsGoalProgrammingMixin vs the explicit two-sided formulation;
    map modes / expand; a second optimize() on the same instance vs a fresh instance —
    per-priority objective values equal to 1e-6;
  * `CachingQPSol` sessions (harness/c17_caching.py): the real front-end driven through several constructions
    (rows appended / unchanged, new objective) and several calls with changing bounds on random small QPs; the
    keyword arguments it hands to the conic back-end and the reported objective are compared exactly with the
    Lean model `C17.session`; oracles: plain qpsol on the same NLP, the NLP objective / bounds at the returned
    point, a brand-new CachingQPSol for the same NLP and arguments.
A one-sided solver failure whose constraint system an independent LP solve finds feasible is
`solver-numerics`: counted, not a violation.
"""
import copy
import math
import time
from fractions import Fraction

import numpy as np

from . import c03_gen as G
from . import c03_oracle as O
from . import c03_synth as S
from . import c17_caching
from .common import fr, unfr

NAN = float("nan")
INF = float("inf")


# ---------------------------------------------------------------------------------------------
# linearised-order table


def table_requests(c):
    """history of coefficient requests on the shared class: every (order, eps) at least once, the same
    order with a coarse tolerance before a fine one and vice versa, repeated requests (cache hits)"""
    rng = c.rng
    reqs = []
    for order in (2, 3, 4, 5):
        es = [0.25, 0.1, 0.05] if order < 5 else [0.25, 0.1]
        reqs += [(order, e, "balanced") for e in es]                     # coarse first
    reqs += [(2, 0.02, "balanced"), (2, 0.25, "balanced"), (3, 0.1, "balanced")]  # fine, then coarse again, repeat
    tail = [(rng.choice([2, 3, 4]), rng.choice([0.25, 0.1, 0.05, 0.02]), "balanced") for _ in range(6)]
    head = reqs[:]
    rng.shuffle(head)
    # the "abs" kind on tolerances the balanced kind never uses here (the cache key has no kind: probe below)
    return reqs + head + tail + [(2, 0.125, "abs"), (3, 0.0625, "abs"), (2, 0.125, "abs")]


def table_check(c):
    from rtctools.optimization.linearized_order_goal_programming_mixin import LinearizedOrderGoal

    LinearizedOrderGoal._linear_coefficients.clear()
    lines = []
    meta = []
    seen = {}
    for step, (order, eps, kind) in enumerate(table_requests(c)):
        tab = [(float(a), float(b)) for a, b in LinearizedOrderGoal._get_linear_coefficients(order, eps, kind)]
        K = len(tab)
        case = {"order": order, "eps": eps, "kind": kind, "request_number": step, "table": tab}
        c.count(("table", order, eps, kind, K))
        c.hit("table/requests")
        c.hit("table/order%d/eps=%g/%s/%d-lines" % (order, eps, kind, K))
        key = (order, eps, kind)
        if key in seen and seen[key] != tab:
            c.fail("linearised-order table: a repeated request returns a different table", case, seen[key])
        seen[key] = tab
        fa = [(Fraction(a), Fraction(b)) for a, b in tab]
        # knots: consecutive lines intersect at x_{i+1}; x_0 = 0, x_K = 1
        xs = [Fraction(0)]
        ok = True
        for i in range(K - 1):
            da = fa[i][0] - fa[i + 1][0]
            if da == 0:
                ok = False
                break
            xs.append((fa[i + 1][1] - fa[i][1]) / da)
        xs.append(Fraction(1))
        if not ok or any(not (xs[i] < xs[i + 1]) for i in range(K)):
            c.fail("linearised-order table: lines do not meet at increasing abscissae 0 = x_0 < ... < x_K = 1",
                   case, [float(x) for x in xs])
            continue
        # chord formula on exact rationals: a_i = (x_{i+1}^r - x_i^r)/(x_{i+1}-x_i), b_i = x_{i+1}^r - a_i x_{i+1}
        worst = Fraction(0)
        for i in range(K):
            p, q = xs[i], xs[i + 1]
            a = (q ** order - p ** order) / (q - p)
            b = q ** order - a * q
            worst = max(worst, abs(a - fa[i][0]), abs(b - fa[i][1]))
        if worst > Fraction(1, 10 ** 12):
            c.fail("linearised-order table differs from the chord formula at its own knots by more than 1e-12",
                   case, {"knots": [float(x) for x in xs], "max_abs_error": float(worst)})
        # plain-Python property oracle for THIS request's tolerance: lin >= x^r, lin - x^r <= eps,
        # lin(0) = 0, lin(1) = 1, non-decreasing
        grid = [Fraction(k, 64) for k in range(65)] + xs + [(xs[i] + xs[i + 1]) / 2 for i in range(K)]
        prev = None
        for x in sorted(set(grid)):
            lin = max(a * x + b for a, b in fa)
            if lin < x ** order - Fraction(1, 10 ** 12):
                c.fail("linearised penalty underestimates eps^order", case, {"x": float(x), "lin": float(lin)})
                break
            if lin - x ** order > Fraction(eps) + Fraction(1, 10 ** 9):
                c.fail("linearised penalty overestimates eps^order by more than the tolerance it was requested with",
                       case, {"x": float(x), "lin": float(lin), "x^order": float(x ** order), "eps": eps})
                break
            if prev is not None and lin < prev - Fraction(1, 10 ** 12):
                c.fail("linearised penalty is not non-decreasing", case, {"x": float(x)})
                break
            prev = lin
        l0 = max(b for a, b in fa)
        l1 = max(a + b for a, b in fa)
        if abs(l0) > Fraction(1, 10 ** 12) or abs(l1 - 1) > Fraction(1, 10 ** 12):
            c.fail("linearised penalty is not exact at 0 and 1", case, {"lin(0)": float(l0), "lin(1)": float(l1)})
        q = [Fraction(k, 16) for k in range(17)]
        lines.append({"op": "lin", "r": order, "knots": [fr(x) for x in xs], "q": [fr(x) for x in q]})
        meta.append((order, tab, xs, q, case))
        c.sample({"order": order, "eps": eps, "kind": kind, "lines": K, "knots": [float(x) for x in xs]}, limit=2)
    probe_cache_kind(c)
    outs = c.model(lines)
    if outs is None:
        return
    for (order, tab, xs, q, case), mo in zip(meta, outs):
        if not mo["ok"]:
            c.disagree("knotsOK rejects the knot vector of the running code's table", case, mo["ok"], True)
        mc = [(unfr(a), unfr(b)) for a, b in mo["coeffs"]]
        if len(mc) != len(tab) or any(abs(float(a) - ta) > 1e-12 or abs(float(b) - tb) > 1e-12
                                      for (a, b), (ta, tb) in zip(mc, tab)):
            c.disagree("coeffs(order, knots) vs the code's table", case, [(float(a), float(b)) for a, b in mc], tab)
        # stated tolerance: chord-vs-tangent gap of every segment = eps * q^(r-1) (the code's root
        # equation); the last knot is moved to 1, which only shrinks the last gap
        gaps = [unfr(g) for g in mo["gaps"]]
        eps, kind = case["eps"], case["kind"]
        for i, g in enumerate(gaps):
            bound = eps * (float(xs[i + 1]) ** (order - 1) if kind == "balanced" else 1.0)
            last = i == len(gaps) - 1
            if float(g) > bound * (1 + 1e-6) + 1e-12 or (not last and abs(float(g) - bound) > 1e-6 * bound + 1e-12):
                c.fail("segment gap of the linearised-order table is not its stated tolerance eps*x^(order-1)",
                       case, {"segment": i, "gap": float(g), "eps*x^(r-1)": bound})
        vals = [unfr(v) for v in mo["vals"]]
        for x, v in zip(q, vals):
            impl = max(a * float(x) + b for a, b in tab)
            if abs(float(v) - impl) > 1e-12:
                c.disagree("linMax at %s" % x, case, float(v), impl)


# ---------------------------------------------------------------------------------------------
# paired runs


def probe_cache_kind(c):
    """candidate finding (tmp id F50): the class-level cache of `_get_linear_coefficients` is keyed by
    (eps, order) only, so the `kind` of the first request decides the table of later requests with the
    same (eps, order) and the other kind"""
    from rtctools.optimization.linearized_order_goal_programming_mixin import LinearizedOrderGoal as L

    saved = dict(L._linear_coefficients)
    try:
        L._linear_coefficients.clear()
        L._get_linear_coefficients(2, 0.1, "abs")
        mixed = [(float(a), float(b)) for a, b in L._get_linear_coefficients(2, 0.1, "balanced")]
        L._linear_coefficients.clear()
        own = [(float(a), float(b)) for a, b in L._get_linear_coefficients(2, 0.1, "balanced")]
    finally:
        L._linear_coefficients.clear()
        L._linear_coefficients.update(saved)
    c.count(("probe", "F50"))
    bad = mixed != own
    what = ("_get_linear_coefficients(2, 0.1, 'balanced') after (2, 0.1, 'abs') returns the 'abs' table (%d lines, own "
            "table %d lines): the cache key has no `kind`; the balanced tolerance eps*x^(order-1) is exceeded near 0"
            % (len(mixed), len(own)))
    entry = next((k for k in c.known if k["id"] == "F50"), None)
    if entry is None:
        c.extra.setdefault("candidate_findings", []).append({"id": "F50", "reproduced": bad, "what": what})
        c.hit("probe/F50-" + ("reproduced(unlisted)" if bad else "not-reproduced"))
    else:
        c.known_probe("F50", bad, what)


def objs(pr):
    return [cap["obj"] for cap in pr.cap]


def rr(inst, **kw):
    out, pr = S.run_instance(inst, capture_full=False, **kw)
    pr_failed = None
    if out is False:
        try:
            pr_failed = S.failed_lp(pr)
        except Exception:
            pr_failed = None
    return out, objs(pr), pr_failed, pr


def same_solution(ra, rb, tol=1e-6):
    """trajectories of two runs at one priority agree (all members, all model variables)"""
    for ma, mb in zip(ra, rb):
        for v in S.VARS:
            xa, xb = np.asarray(ma[v], dtype=float), np.asarray(mb[v], dtype=float)
            if xa.shape != xb.shape or not np.all(np.abs(xa - xb) <= tol * (1.0 + np.abs(xa))):
                return False
    return True


def compare(c, family, case, a, b, la="A", lb="B", tol=1e-6, path_dependent=None):
    """a, b = (outcome, objective values, failed_lp) of the two sides.
    `path_dependent` = (caps_a, caps_b) for multi-pass runs WITHOUT keep_soft_constraints: there the
    constraints retained from a priority are built from the particular minimiser found (achieved epsilons /
    function values per time step), so equal optima at later priorities are implied by the equivalence of
    the formulations only as long as both sides found the same minimiser at every earlier priority; the
    comparison stops (counted) at the first priority where a non-unique optimum was resolved differently."""
    (oa, va, fa), (ob, vb, fb) = a, b
    c.hit("pairs/" + family)
    for side, o in ((la, oa), (lb, ob)):
        if isinstance(o, tuple):
            c.fail("%s: side %s raised %s: %s" % (family, side, o[1], o[2][:200]), case)
            return False
    n = min(len(va), len(vb))
    for k in range(n):
        if path_dependent is not None and k > 0:
            ca_, cb_ = path_dependent
            if not same_solution(ca_[k - 1]["results"], cb_[k - 1]["results"]):
                c.hit("pairs/" + family + "/later priorities not comparable: earlier optimum not unique")
                return True
        if not abs(va[k] - vb[k]) <= tol * (1.0 + abs(va[k])):
            c.fail("%s: objective values of priority index %d differ" % (family, k), case, {la: va, lb: vb})
            return False
    if oa is True and ob is True:
        if len(va) != len(vb):
            c.fail("%s: different number of priorities solved" % family, case, {la: va, lb: vb})
            return False
        c.hit("pairs/" + family + "/equal")
        return True
    # one-sided (or two-sided) solver failure
    if oa is False and ob is False and len(va) == len(vb):
        c.hit("pairs/" + family + "/both-fail-same-priority")
        return True
    for side, o, v, f, other in ((la, oa, va, fa, vb), (lb, ob, vb, fb, va)):
        if o is False and len(other) > len(v):
            verdict = O.lp_feasible(f) if f is not None else "fail"
            if verdict == "infeasible":
                c.fail("%s: side %s's constraint system is infeasible at priority index %d where the other "
                       "formulation has a solution" % (family, side, len(v)), case, {la: va, lb: vb})
                return False
            c.hit("solver-numerics/%s/one-sided-failure(system %s)" % (family, verdict))
    return True


def brief(inst):
    keys = ("times", "theta", "probs", "pvals", "cvals", "mode", "solver", "opts", "goals", "nominals", "minabs", "aux",
            "linearize", "caching_qpsol", "map_mode", "expand")
    return {k: inst[k] for k in keys if k in inst}


def comp_target(t, cidx):
    if t is None:
        return None
    k, v = t["k"], t["v"]
    if k == "sc":
        return {"k": "sc", "v": v}
    if k == "vec":
        return {"k": "sc", "v": v[cidx] if len(v) > 1 else v[0]}
    if k == "ts":
        return {"k": "ts", "v": list(v)}
    return {"k": "ts", "v": [row[cidx] for row in v]}


def tvals(t):
    if t is None:
        return []
    return [t["v"]] if t["k"] == "sc" else list(t["v"])


def split_goal(s):
    size = len(s["vars"])
    if size == 1:
        return [s]
    out = []
    for cidx in range(size):
        d = {k: v for k, v in s.items() if k not in ("vars", "nominal", "range", "tmin", "tmax")}
        d["vars"] = [s["vars"][cidx]]
        if s.get("offset"):
            d["offset"] = [s["offset"][cidx]]
        d["nominal"] = [s["nominal"][cidx] if len(s["nominal"]) > 1 else s["nominal"][0]]
        if "range" in s:
            lo, hi = s["range"]
            d["range"] = ([lo[cidx] if len(lo) > 1 else lo[0]], [hi[cidx] if len(hi) > 1 else hi[0]])
        if s["kind"] != "min":
            d["tmin"] = comp_target(s.get("tmin"), cidx)
            d["tmax"] = comp_target(s.get("tmax"), cidx)
        out.append(d)
    return out


def comp_has_finite(s):
    return any(math.isfinite(x) for x in tvals(s.get("tmin")) + tvals(s.get("tmax")))


def pairs_vector(c, n):
    done = tries = 0
    while done < n and tries < 50 * n:
        tries += 1
        inst = G.gen_instance(c.rng, mode=c.rng.choice(["keep", "sp1", "sp2"]), allow_vector=True,
                              allow_critical=False, allow_empty=False)
        if not any(len(s["vars"]) > 1 for s in inst["goals"]):
            continue
        split = copy.deepcopy(inst)
        split["goals"] = [d for s in inst["goals"] for d in split_goal(s)]
        # precondition of the documented equivalence: every component of a vector target goal has a
        # finite target (a scalar goal without any would be dropped and not counted in n_objectives)
        if any(s["kind"] != "min" and not comp_has_finite(s) for s in split["goals"]):
            c.hit("pairs/vector/skipped-component-without-target")
            continue
        done += 1
        a = rr(inst)
        b = rr(split)
        c.count(("vector", inst["mode"], len(inst["goals"]), len(split["goals"]), tuple(round(v, 6) for v in a[1])))
        compare(c, "vector-vs-scalars", {"vector": brief(inst), "scalars": brief(split)}, a[:3], b[:3], "vector", "scalars")
        c.programs += 2


def pairs_single_pass(c, n):
    lines, meta = [], []
    for _ in range(n):
        inst = G.gen_instance(c.rng, mode="keep", allow_vector=True)
        a = rr(inst, mode="keep")
        sides = {"keep": a}
        for m in ("sp1", "sp2"):
            b = rr(inst, mode=m)
            sides[m] = b
            c.count(("single-pass", m, len(inst["goals"]), tuple(round(v, 6) for v in a[1])))
            compare(c, "single-pass-vs-keep-soft", {"inst": brief(inst), "method": m}, a[:3], b[:3], "keep_soft", m)
        c.programs += 3
        # constraint-set structure against the Plan model (row counts, objective-row bounds)
        if all(sides[m][0] is True for m in sides):
            caps = {m: sides[m][3].cap for m in sides}
            nprio = len(caps["keep"])
            Mk = [cp["M"] for cp in caps["keep"]]
            soft = [0] + [Mk[j] - Mk[j - 1] - 1 for j in range(1, nprio)]
            fix = bool(inst["opts"].get("fix_minimized_values"))
            cr = inst["opts"].get("constraint_relaxation", 0.0)
            vals = [cp["obj"] for cp in caps["keep"]]
            bnd = [[fr(v) if fix else "-inf", fr(v if fix else v + cr)] for v in vals]
            for k in range(nprio):
                lines.append({"op": "plan", "base": Mk[0], "soft": soft, "bnd": bnd, "k": k})
                meta.append((inst, k, caps, nprio))
    outs = c.model(lines) if lines else []
    if outs is None:
        return
    for (inst, k, caps, nprio), mo in zip(meta, outs):
        case = {"inst": brief(inst), "priority_index": k}
        c.hit("plan-model/priority-solves")
        real = {"keep": caps["keep"][k]["M"], "append": caps["sp1"][k]["M"], "update": caps["sp2"][k]["M"]}
        model = {m: mo[m] for m in real}
        if real != model:
            c.disagree("row counts of keep-soft / single-pass append / update", case, model, real)
            continue
        for key, mode, nt in (("append_tail", "sp1", k), ("update_tail", "sp2", nprio)):
            nt = min(nt, 6)
            if nt == 0:
                continue
            lo = caps[mode][k]["lbg_tail"][-nt:]
            hi = caps[mode][k]["ubg_tail"][-nt:]
            mt = mo[key][-nt:]
            ok = all((unfr(a) == l if isinstance(unfr(a), float) else abs(float(unfr(a)) - l) <= 1e-6 * (1 + abs(l)))
                     and (unfr(b) == h if isinstance(unfr(b), float) else abs(float(unfr(b)) - h) <= 1e-6 * (1 + abs(h)))
                     for (a, b), l, h in zip(mt, lo, hi))
            if not ok:
                c.disagree("objective-row bounds (%s)" % mode, case, mt, list(zip(lo, hi)))


class PerPriorityOptions:
    """`goal_programming_options()` whose `constraint_relaxation` / `fix_minimized_values` depend on the priority
    that is active (tracked through the public `priority_started` hook): inst["opts_pp"] = {priority: {...}},
    inst["opts_pp_base"] = values before the first priority starts"""

    def priority_started(self, priority):
        self._c17_active_priority = priority
        super().priority_started(priority)

    def goal_programming_options(self):
        o = super().goal_programming_options()
        pp = self.inst.get("opts_pp")
        if pp is not None:
            act = getattr(self, "_c17_active_priority", None)
            for k, v in (pp.get(act) or self.inst.get("opts_pp_base", {})).items():
                o[k] = v
        return o


def conflict_instance(rng):
    """consecutive priorities that pull one variable in opposite directions (so that the slack left on the
    objective of an earlier priority decides the optimum of the next one), plus a third priority"""
    T = rng.choice([2, 3, 4])
    times = [float(i) for i in range(T)]
    v = rng.choice(["x", "u", "y"])
    lo, hi = S.VAR_RANGE[v]
    a = float(rng.choice([5, 8, 10]))
    prios = sorted(rng.sample([1, 2, 3, 5, 10], rng.choice([2, 3, 3])))
    up_first = rng.random() < 0.5
    goals = []
    for k, p in enumerate(prios):
        if k == 2:
            w = rng.choice([x for x in ["x", "u", "y"] if x != v])
            goals.append({"path": True, "vars": [w], "kind": "min", "priority": p, "order": 1, "weight": 1.0, "ti": 0,
                          "nominal": [rng.choice([1.0, 10.0])]})
            continue
        want_min = (k == 0) == up_first
        g = {"path": rng.random() < 0.8, "vars": [v], "kind": "tmin" if want_min else "tmax", "priority": p, "order": 1,
             "weight": rng.choice([1.0, 2.5]), "ti": rng.randrange(T), "nominal": [1.0], "range": ([lo], [hi])}
        g["tmin" if want_min else "tmax"] = {"k": "sc", "v": a if want_min else a - float(rng.choice([2, 4, 6]))}
        goals.append(g)
    return {"times": times, "theta": 1.0, "probs": [1.0], "pvals": [[rng.choice([0.5, 1.0]), 0.0]],
            "cvals": [[1.0] * T], "mode": "keep", "solver": "highs",
            "opts": {"scale_by_problem_size": rng.random() < 0.5}, "goals": goals}


def pairs_priority_options(c, n):
    """single pass (both methods) vs keep-soft when `constraint_relaxation` / `fix_minimized_values` differ per
    priority: the retained objective row of a priority is built with the options that were active AT that
    priority (GoalProgrammingMixin reads them right after the priority is completed; the single-pass mixin
    documents to match).  Oracles: equal per-priority optima; the bounds of the retained objective rows in the
    transcribed single-pass problems, re-stated in plain Python from the run's own optima and the options of
    each priority; the Lean Plan model with per-priority bounds."""
    rng = c.rng
    lines, meta = [], []
    done = tries = 0
    while done < n and tries < 40 * n:
        tries += 1
        if rng.random() < 0.5:
            inst = conflict_instance(rng)
        else:
            inst = G.gen_instance(rng, mode="keep", allow_vector=True)
        prios = [p for p, _ in S.priorities_of(inst)]
        if len(prios) < 2:
            continue
        done += 1
        inst["opts"].pop("fix_minimized_values", None)
        inst["opts"].pop("constraint_relaxation", None)
        crs = rng.sample([0.0, 0.02, 0.05, 0.1, 0.3, 0.5], len(prios))  # pairwise distinct
        inst["opts_pp"] = {p: {"constraint_relaxation": crs[k], "fix_minimized_values": rng.random() < 0.2}
                           for k, p in enumerate(prios)}
        inst["opts_pp_base"] = {"constraint_relaxation": rng.choice([0.0, 0.7]), "fix_minimized_values": False}
        sides = {}
        for m in ("keep", "sp1", "sp2"):
            out, pr = S.run_instance(inst, mode=m, capture_full=False, extra_bases=(PerPriorityOptions,))
            f = None
            if out is False:
                try:
                    f = S.failed_lp(pr)
                except Exception:
                    f = None
            sides[m] = (out, objs(pr), f, pr)
        c.programs += 3
        c.count(("priority-options", len(prios), tuple(crs), tuple(round(v, 6) for v in sides["keep"][1])))
        c.hit("priority-options/instances")
        case = {"inst": dict(brief(inst), opts_per_priority={str(k): v for k, v in inst["opts_pp"].items()},
                             opts_before_first_priority=inst["opts_pp_base"])}
        for m in ("sp1", "sp2"):
            compare(c, "single-pass-vs-keep-soft/per-priority options", dict(case, method=m), sides["keep"][:3],
                    sides[m][:3], "keep_soft", m)
        # does the relaxation matter here?  (informational: an optimum that moved with the slack)
        # plain-Python oracle on the transcribed single-pass problems
        for m, nt_of in (("sp1", lambda k, npr: k), ("sp2", lambda k, npr: npr)):
            out, vals, _, pr = sides[m]
            if isinstance(out, tuple):
                continue
            caps = pr.cap
            for k, cp in enumerate(caps):
                nt = nt_of(k, len(prios))
                if nt == 0 or nt > 6:
                    continue
                lo, hi = cp["lbg_tail"][-nt:], cp["ubg_tail"][-nt:]
                for j in range(nt):
                    if j < k:
                        o = inst["opts_pp"][prios[j]]
                        want = (vals[j], vals[j]) if o["fix_minimized_values"] else (-INF, vals[j] + o["constraint_relaxation"])
                    else:
                        want = (-INF, INF)  # method 2: rows of priorities not yet solved
                    ok = all((w == g) if math.isinf(w) else (not math.isinf(g) and abs(w - g) <= 1e-6 * (1 + abs(w)))
                             for w, g in zip(want, (lo[j], hi[j])))
                    if not ok:
                        c.fail("single pass (%s): the retained objective row of priority %s in the problem of priority %s "
                               "is not bounded with the options that were active at priority %s"
                               % (m, prios[j], prios[k], prios[j]), dict(case, method=m),
                               {"bounds": [lo[j], hi[j]], "documented": list(want), "optimum": vals[j],
                                "options_at_that_priority": inst["opts_pp"][prios[j]]})
                        break
                c.hit("priority-options/objective rows checked")
        # Plan model with per-priority bounds
        if all(sides[m][0] is True for m in sides):
            caps = {m: sides[m][3].cap for m in sides}
            nprio = len(caps["keep"])
            Mk = [cp["M"] for cp in caps["keep"]]
            soft = [0] + [Mk[j] - Mk[j - 1] - 1 for j in range(1, nprio)]
            vals = [cp["obj"] for cp in caps["keep"]]
            opts = [inst["opts_pp"][prios[j]] for j in range(nprio)]
            for k in range(nprio):
                lines.append({"op": "plan_opts", "base": Mk[0], "soft": soft, "vals": [fr(v) for v in vals],
                              "fix": [bool(o["fix_minimized_values"]) for o in opts],
                              "cr": [fr(o["constraint_relaxation"]) for o in opts], "k": k})
                meta.append((case, k, caps, nprio))
    outs = c.model(lines) if lines else []
    for (case, k, caps, nprio), mo in zip(meta, outs or []):
        cs = dict(case, priority_index=k)
        real = {"keep": caps["keep"][k]["M"], "append": caps["sp1"][k]["M"], "update": caps["sp2"][k]["M"]}
        model = {m: mo[m] for m in real}
        if real != model:
            c.disagree("row counts of keep-soft / single-pass append / update (per-priority options)", cs, model, real)
            continue
        for key, mode, nt in (("append_tail", "sp1", k), ("update_tail", "sp2", nprio)):
            nt = min(nt, 6)
            if nt == 0:
                continue
            lo = caps[mode][k]["lbg_tail"][-nt:]
            hi = caps[mode][k]["ubg_tail"][-nt:]
            mt = mo[key][-nt:]
            ok = all((unfr(a) == l if isinstance(unfr(a), float) else abs(float(unfr(a)) - l) <= 1e-6 * (1 + abs(l)))
                     and (unfr(b) == h if isinstance(unfr(b), float) else abs(float(unfr(b)) - h) <= 1e-6 * (1 + abs(h)))
                     for (a, b), l, h in zip(mt, lo, hi))
            if not ok:
                c.disagree("objective-row bounds (%s, per-priority options)" % mode, cs, mt, list(zip(lo, hi)))


def pairs_caching(c, n):
    for _ in range(n):
        inst = G.gen_instance(c.rng, mode=c.rng.choice(["sp1", "sp2"]), allow_vector=True)
        a = rr(inst)
        inst2 = dict(inst, caching_qpsol=True)
        b = rr(inst2)
        c.count(("caching", inst["mode"], len(inst["goals"]), tuple(round(v, 6) for v in a[1])))
        compare(c, "caching-vs-plain-qpsol", {"inst": brief(inst)}, a[:3], b[:3], "qpsol", "CachingQPSol")
        c.programs += 2


def f42_instance(rng):
    """order-2 objective mixed with an order-1 term at the same (last) priority, QP solver qpoases"""
    T = rng.choice([2, 3, 4])
    times = [float(i) for i in range(T)]
    v = rng.choice(["x", "y"])
    goals = [{"path": True, "vars": [v], "kind": "tmin", "priority": 1, "order": 2, "weight": rng.choice([1.0, 2.5]),
              "ti": 0, "nominal": [1.0], "range": ([S.VAR_RANGE[v][0]], [S.VAR_RANGE[v][1]]),
              "tmin": {"k": "sc", "v": float(rng.choice([30, 40, 45]))}},
             {"path": True, "vars": ["u"], "kind": "min", "priority": 1, "order": 1, "weight": rng.choice([1.0, 0.5]),
              "ti": 0, "nominal": [rng.choice([10.0, 100.0, 400.0])]}]
    return {"times": times, "theta": 1.0, "probs": [1.0], "pvals": [[rng.choice([0.5, 1.0]), 0.0]],
            "cvals": [[1.0] * T], "mode": "sp1", "solver": "qpoases", "opts": {}, "goals": goals}


def pairs_caching_qp(c, n):
    for _ in range(n):
        inst = f42_instance(c.rng)
        a = rr(inst)
        b = rr(dict(inst, caching_qpsol=True))
        c.count(("caching-qp", inst["mode"], tuple(round(v, 6) for v in a[1])))
        # the caching front-end reports the cost without the constant term f(0) of the objective; these
        # instances have f(0) = 0 (epsilons and controls enter homogeneously)
        compare(c, "caching-vs-plain-qpsol/order2", {"inst": brief(inst)}, a[:3], b[:3], "qpsol", "CachingQPSol")
        c.programs += 2


def pairs_minabs(c, n):
    rng = c.rng
    for _ in range(n):
        base = G.gen_instance(rng, mode="keep", allow_vector=False, allow_critical=False, allow_empty=False, max_prio=2)
        T = len(base["times"])
        v = rng.choice(["x", "y", "u", "w"])
        path = rng.random() < 0.7
        w = rng.choice([1.0, 2.5, 0.5])
        nom = rng.choice([1.0, 2.0, 10.0])
        prio = rng.choice([0, 4, 30])  # before, between, after the other priorities
        R = max(abs(S.VAR_RANGE[v][0]), abs(S.VAR_RANGE[v][1]))
        ma = {"path": path, "vars": [v], "kind": "min", "priority": prio, "order": 1, "weight": w, "ti": rng.randrange(T),
              "nominal": [nom]}
        explicit = {"path": path, "vars": [v], "kind": "both", "priority": prio, "order": 1, "weight": w * R / nom,
                    "ti": ma["ti"], "nominal": [1.0], "range": ([-float(R)], [float(R)]),
                    "tmin": {"k": "sc", "v": 0.0}, "tmax": {"k": "sc", "v": 0.0}}
        base["goals"] = [g for g in base["goals"] if int(g["priority"]) != prio]
        a_inst = dict(copy.deepcopy(base), minabs=[ma])
        b_inst = copy.deepcopy(base)
        b_inst["goals"] = b_inst["goals"] + [explicit]
        a = rr(a_inst)
        b = rr(b_inst)
        c.count(("minabs", path, v, prio, tuple(round(x, 6) for x in a[1])))
        ok = compare(c, "min-abs-vs-two-sided", {"min_abs": brief(a_inst), "two_sided": brief(b_inst)}, a[:3], b[:3],
                     "min_abs", "two_sided")
        # self-consistency: the reported optimum of the min-abs priority is sum w |f/n| of its own solution
        pr = a[3]
        if ok and a[0] is True:
            k = sorted({int(g["priority"]) for g in a_inst["goals"]} | {prio}).index(prio)
            res = pr.cap[k]["results"]
            tot = 0.0
            sbs = bool(a_inst["opts"].get("scale_by_problem_size"))
            for m, pm in enumerate(a_inst["probs"]):
                vals = res[m][v] if path else [res[m][v][ma["ti"]]]
                tot += pm * sum(w * abs(x / nom) for x in vals) / ((T if path else 1) if sbs else 1)
            if sbs:
                tot /= 1  # the min-abs goal is alone in its priority: n_objectives = 1
            if not abs(tot - a[1][k]) <= 1e-6 * (1 + abs(tot)):
                c.fail("min-abs: reported optimum is not sum w*|f/n| of the reported solution",
                       {"min_abs": brief(a_inst)}, {"sum": tot, "objective_value": a[1][k]})
        c.programs += 2


def pairs_minabs_relaxed(c, n):
    """multi-pass WITHOUT keep_soft_constraints: a min-abs goal with relaxation r (physical units) and
    function nominal != 1, followed by a priority that pushes into the slack.  Documented: after the
    goal's priority |f| <= |f*| + r (+ constraint_relaxation * nominal).  Paired with the explicit
    formulation (user variable b >= f, b >= -f, plain goal minimising b with the same nominal and
    relaxation) and checked by an independent attainment oracle on the later priorities."""
    rng = c.rng
    lines, meta = [], []
    for _ in range(n):
        base = G.gen_instance(rng, mode="default", allow_vector=False, allow_critical=False, allow_empty=False,
                              max_prio=2)
        for g in base["goals"]:
            g["priority"] = int(g["priority"]) + 20
        base["opts"].pop("violation_relaxation", None)
        T = len(base["times"])
        v = rng.choice(["u", "w", "x", "y", "u"])
        path = rng.random() < 0.7
        ti = rng.randrange(T)
        w = rng.choice([1.0, 2.5, 0.5])
        nom = rng.choice([0.1, 1.0, 10.0, 50.0])
        r = rng.choice([0.0, 0.05, 0.1, 0.5])
        cr = base["opts"].get("constraint_relaxation", 0.0)
        if rng.random() < 0.5:
            opp = {"path": path, "vars": [v], "kind": "min", "priority": 2, "order": 1, "weight": 1.0, "ti": ti,
                   "nominal": [1.0]}
        else:
            opp = {"path": path, "vars": [v], "kind": "tmin", "priority": 2, "order": 1, "weight": 1.0, "ti": ti,
                   "nominal": [1.0], "range": ([S.VAR_RANGE[v][0]], [S.VAR_RANGE[v][1]]),
                   "tmin": {"k": "sc", "v": float(S.VAR_RANGE[v][1] - 1)}}
        ma = {"path": path, "vars": [v], "kind": "min", "priority": 1, "order": 1, "weight": w, "ti": ti,
              "nominal": [nom]}
        if r:
            ma["relaxation"] = r
        a_inst = dict(copy.deepcopy(base), minabs=[ma])
        a_inst["goals"] = [opp] + a_inst["goals"]
        b_inst = copy.deepcopy(base)
        expl = dict(ma, vars=["absaux"])
        if not path:
            expl["extra"] = True
        b_inst["aux"] = [{"name": "absaux", "path": path, "var": v, "ti": ti}]
        b_inst["goals"] = [expl, opp] + b_inst["goals"]
        a = rr(a_inst)
        b = rr(b_inst)
        c.count(("minabs-relaxed", path, v, nom, r, tuple(round(x, 6) for x in a[1])))
        c.hit("min-abs relaxed/nominal=%g" % nom)
        c.hit("min-abs relaxed/relaxation=%g" % r)
        case = {"min_abs": brief(a_inst), "two_sided": brief(b_inst)}
        compare(c, "min-abs-relaxed-vs-two-sided", case, a[:3], b[:3], "min_abs", "two_sided",
                path_dependent=(a[3].cap, b[3].cap))
        # attainment oracle (plain statement of the documented retained constraint, physical units)
        pr = a[3]
        if not isinstance(a[0], tuple) and len(pr.cap) > 1:
            first = pr.cap[0]["results"]
            pushed = False
            for later in pr.cap[1:]:
                for m in range(len(a_inst["pvals"])):
                    idx = range(T) if path else [ti]
                    for i in idx:
                        f0 = abs(first[m][v][i])
                        f1 = abs(later["results"][m][v][i])
                        slack = r + cr * nom
                        if f1 > f0 + slack + 1e-6 * (1.0 + f0 + slack):
                            c.fail("min-abs goal with relaxation: |f| at a later priority exceeds |f*| + relaxation "
                                   "(+ constraint_relaxation * nominal)", case,
                                   {"member": m, "step": i, "|f*|": f0, "|f| later": f1, "allowed slack": slack,
                                    "priority": later["priority"]})
                            break
                        if f1 > f0 + 0.5 * slack and slack > 0:
                            pushed = True
            if pushed:
                c.hit("min-abs relaxed/later priority uses the slack")
            # the Lean model of the converted goal's retained bound against the values actually attained
            i0 = 0 if path else ti
            lines.append({"op": "minabs_relax", "fstar": fr(float(first[0][v][i0])), "n": fr(nom), "r": fr(r),
                          "cr": fr(cr)})
            meta.append((case, nom, abs(first[0][v][i0]) + r + cr * nom,
                         max(abs(later["results"][0][v][i0]) for later in pr.cap[1:])))
        c.programs += 2
    outs = c.model(lines) if lines else []
    for (case, nom, phys, attained), mo in zip(meta, outs or []):
        upper = float(unfr(mo["upper"])) * nom
        if not abs(upper - phys) <= 1e-9 * (1 + abs(phys)):
            c.disagree("retained bound of the converted min-abs goal (model, scaled units x nominal) vs the "
                       "documented physical bound", case, upper, phys)
        if attained > upper + 1e-6 * (1.0 + upper):
            c.disagree("later priority exceeds the model's retained bound of the converted min-abs goal", case,
                       upper, attained)


def pairs_map_modes(c, n):
    for _ in range(n):
        inst = G.gen_instance(c.rng, allow_vector=None)
        a = rr(inst)
        for variant in ({"map_mode": "serial"}, {"map_mode": "thread"}, {"expand": True},
                        {"map_mode": "openmp"}):
            b = rr(dict(inst, **variant))
            if isinstance(b[0], tuple) and variant.get("map_mode") == "openmp":
                c.hit("pairs/map-modes/openmp-not-available")
                continue
            c.count(("map", inst["mode"], tuple(variant.items()), tuple(round(v, 6) for v in a[1])))
            compare(c, "map-modes-expand", {"inst": brief(inst), "variant": variant}, a[:3], b[:3], "unroll", str(variant),
                    path_dependent=(a[3].cap, b[3].cap) if inst["mode"] == "default" else None)
        c.programs += 4


def pairs_resolve(c, n):
    rng = c.rng
    for i in range(n):
        inst = G.gen_instance(rng, allow_vector=None)
        if i % 3 == 2:  # with min-abs goals (F43: single pass + min-abs could not be solved twice)
            inst = G.gen_instance(rng, mode=rng.choice(["sp1", "sp2", "keep", "default"]), allow_vector=False,
                                  allow_critical=False, max_prio=2)
            inst["minabs"] = [{"path": True, "vars": [rng.choice(["x", "u"])], "kind": "min", "priority": 4, "order": 1,
                               "weight": 1.0, "ti": 0, "nominal": [2.0]}]
            inst["goals"] = [g for g in inst["goals"] if int(g["priority"]) != 4]
        if i % 3 == 1 and inst["mode"] in ("sp1", "sp2"):
            inst["caching_qpsol"] = True
        fresh = rr(inst)
        out, pr = S.run_instance(inst, capture_full=False, twice=True)
        if isinstance(out, tuple) and out[0] == "raise":
            second = (out, [], None)
            first = None
        else:
            second = (out[1], objs(pr), S.failed_lp(pr) if out[1] is False else None)
            first = (out[0], [cap["obj"] for cap in pr.first_cap], None)
        c.count(("resolve", inst["mode"], bool(inst.get("minabs")), bool(inst.get("caching_qpsol")),
                 tuple(round(v, 6) for v in fresh[1])))
        pd = None
        if inst["mode"] == "default" and not (isinstance(out, tuple) and out[0] == "raise"):
            pd = (fresh[3].cap, pr.cap)
        compare(c, "second-optimize-vs-fresh", {"inst": brief(inst)}, fresh[:3], second, "fresh", "second optimize()",
                path_dependent=pd)
        if first is not None and first[0] is True and fresh[0] is True:
            compare(c, "first-optimize-vs-fresh", {"inst": brief(inst)}, fresh[:3], first, "fresh", "first optimize()",
                    path_dependent=(fresh[3].cap, pr.first_cap) if inst["mode"] == "default" else None)
        c.programs += 2


def corpus(c):
    """former failing inputs of repaired findings, checked as ordinary cases"""
    import random

    rng = random.Random(42)
    # F42: CachingQPSol halved the Hessian
    inst = f42_instance(rng)
    inst["goals"][1]["nominal"] = [10.0]
    a = rr(inst)
    b = rr(dict(inst, caching_qpsol=True))
    c.count(("corpus", "F42"))
    compare(c, "corpus/F42-caching-order2", {"inst": brief(inst)}, a[:3], b[:3], "qpsol", "CachingQPSol")
    # F43: MinAbs + SinglePass solved twice
    T = 3
    inst = {"times": [0.0, 1.0, 2.0], "theta": 1.0, "probs": [1.0], "pvals": [[0.5, 0.0]], "cvals": [[1.0] * T],
            "mode": "sp1", "solver": "highs", "opts": {},
            "goals": [{"path": True, "vars": ["u"], "kind": "min", "priority": 2, "order": 1, "weight": 1.0, "ti": 0,
                       "nominal": [1.0]}],
            "minabs": [{"path": True, "vars": ["x"], "kind": "min", "priority": 1, "order": 1, "weight": 1.0, "ti": 0,
                        "nominal": [2.0]}]}
    fresh = rr(inst)
    out, pr = S.run_instance(inst, capture_full=False, twice=True)
    c.count(("corpus", "F43"))
    if isinstance(out, tuple) and out[0] == "raise":
        c.fail("second optimize() of a MinAbs + SinglePass problem raised %s" % out[1], brief(inst), out[2])
    else:
        compare(c, "corpus/F43-minabs-single-pass-twice", {"inst": brief(inst)}, fresh[:3], (out[1], objs(pr), None),
                "fresh", "second optimize()")
    # F14: linearised order, vector path goal, scale_by_problem_size (objective level: see C03); here the
    # run must simply succeed and agree with the scalar goals
    g = {"path": True, "vars": ["x", "u"], "kind": "tmin", "priority": 1, "order": 2, "weight": 1.0, "ti": 0,
         "nominal": [1.0], "range": ([-50.0, -20.0], [50.0, 20.0]),
         "tmin": {"k": "ts2", "v": [[5.0, 5.0], [5.0, NAN], [5.0, NAN], [5.0, NAN]]}}
    inst = {"times": [0.0, 1.0, 2.0, 3.0], "theta": 1.0, "probs": [1.0], "pvals": [[0.5, 0.0]], "cvals": [[1.0] * 4],
            "mode": "keep", "solver": "highs", "opts": {"scale_by_problem_size": True}, "goals": [g], "linearize": True}
    split = copy.deepcopy(inst)
    split["goals"] = split_goal(g)
    c.count(("corpus", "F14"))
    compare(c, "corpus/F14-linearised-vector-vs-scalars", {"vector": brief(inst), "scalars": brief(split)},
            rr(inst)[:3], rr(split)[:3], "vector", "scalars")


def probe_constant_term(c):
    """goal function with a constant offset: plain qpsol reports f including the constant, the caching
    front-end reports the conic cost only (F48, repaired)"""
    from rtctools.optimization.goal_programming_mixin_base import Goal

    class Off(Goal):
        priority = 1
        order = 1

        def function(self, pr, m):
            return pr.state("u") + 7.0

    class Extra:
        def path_goals(self):
            return super().path_goals() + [Off()]

    inst = {"times": [0.0, 1.0, 2.0], "theta": 1.0, "probs": [1.0], "pvals": [[0.5, 0.0]], "cvals": [[1.0] * 3],
            "mode": "sp1", "solver": "highs", "opts": {},
            "goals": [{"path": True, "vars": ["x"], "kind": "min", "priority": 2, "order": 1, "weight": 1.0, "ti": 0,
                       "nominal": [1.0]}]}
    vals = {}
    for caching in (False, True):
        out, pr = S.run_instance(dict(inst, caching_qpsol=caching), extra_bases=(Extra,), capture_full=False)
        vals[caching] = (out, objs(pr))
    c.count(("probe", "F48"))
    bad = not (vals[False][0] is True and vals[True][0] is True
               and all(abs(a - b) <= 1e-6 * (1 + abs(a)) for a, b in zip(vals[False][1], vals[True][1])))
    what = ("CachingQPSol reports per-priority objective values %s, plain qpsol %s for a goal function with a "
            "constant term (state('u') + 7 on 3 steps)" % (vals[True][1], vals[False][1]))
    entry = next((k for k in c.known if k["id"] == "F48"), None)
    if entry is None:
        c.extra.setdefault("candidate_findings", []).append({"id": "F48", "reproduced": bad, "what": what})
        c.hit("probe/F48-" + ("reproduced(unlisted)" if bad else "not-reproduced"))
    else:
        c.known_probe("F48", bad, what)


def pairs_linearized(c, n):
    """linearised order never underestimates: optimum of the linearised problem >= ... is not an
    equivalence; what IS documented as equivalent is vector vs scalar goals also under linearisation"""
    done = tries = 0
    while done < n and tries < 60 * n:
        tries += 1
        inst = G.gen_instance(c.rng, mode=c.rng.choice(["keep", "sp1"]), allow_vector=True, allow_critical=False,
                              allow_empty=False, orders=(2, 3), linearize=True)
        if not any(len(s["vars"]) > 1 and s["kind"] != "min" for s in inst["goals"]):
            continue
        split = copy.deepcopy(inst)
        split["goals"] = [d for s in inst["goals"] for d in split_goal(s)]
        if any(s["kind"] != "min" and not comp_has_finite(s) for s in split["goals"]):
            continue
        done += 1
        a = rr(inst)
        b = rr(split)
        c.count(("lin-vector", inst["mode"], tuple(round(v, 6) for v in a[1])))
        compare(c, "linearised/vector-vs-scalars", {"vector": brief(inst), "scalars": brief(split)}, a[:3], b[:3],
                "vector", "scalars")
        c.programs += 2


def run_check(c):
    table_check(c)
    corpus(c)
    probe_constant_term(c)
    big = c.big
    pairs_vector(c, 150 if big else 8)
    pairs_single_pass(c, 120 if big else 6)
    pairs_priority_options(c, 120 if big else 8)
    pairs_caching(c, 100 if big else 5)
    pairs_caching_qp(c, 40 if big else 3)
    c17_caching.check_sessions(c, 260 if big else 14, 40 if big else 4)
    pairs_minabs(c, 150 if big else 6)
    pairs_minabs_relaxed(c, 150 if big else 8)
    pairs_map_modes(c, 30 if big else 2)
    pairs_resolve(c, 150 if big else 9)
    pairs_linearized(c, 60 if big else 3)


def run(c):
    c.rule = (
        "paired real runs on random linear synthetic models (see C03) with HiGHS and order-1 goals: each pair is one "
        "instance under two formulations documented as equivalent (vector/scalars, single pass x2 / keep-soft, "
        "CachingQPSol / qpsol incl. an order-2 objective with qpoases, min-abs / explicit two-sided, map modes and "
        "expand, second optimize() / fresh); plus the running code's linearised-order tables for orders 2-5 checked "
        "with exact rationals; plus CachingQPSol sessions on random 1-3 variable QPs / LPs (asymmetric coefficient "
        "matrix, constants in objective and rows, SX and MX symbols, qpoases / HiGHS, 1-4 constructions with rows "
        "appended or unchanged, 1-3 calls each with changing finite / infinite bounds, a malformed stream with another "
        "variable count or fewer rows); distinct = (family, mode, goal count, optimum vector) tuples resp. session shapes"
    )
    c.assumptions = [
        "HiGHS / qpoases return optimal points when they report success (per-instance certificates: property C03)",
        "map modes, expand and re-solve are runtime behaviour with no logic model beyond 'same rows': decided by the "
        "differential runs only (partial by design)",
        "CachingQPSol model: CasADi expressions are represented by their normal forms (quadratic objective with an "
        "arbitrary coefficient matrix, affine rows); ca.gradient / jacobian / substitute-at-0 / vertcat / slicing and "
        "the conic cost 1/2 x'Hx + g'x are table entries of the translator (trusted mapping, exercised exactly by the "
        "session stream); history independence is proved for NLP sequences whose rows extend the previous NLP's rows "
        "(what the single-pass mixin produces), and shown to fail without that hypothesis",
        "single pass vs keep-soft is compared under the documented hypothesis: function ranges of later goals are "
        "implied by the variable bounds, critical goals only at the first priority",
        "vector vs scalar goals: every component of a vector target goal has at least one finite target (a scalar "
        "goal without any is dropped and not counted in n_objectives)",
        "results (trajectories) are compared only through the per-priority optima; uniqueness is not certified here",
    ]
    from .translate_c17 import gen_c17, gen_caching, gen_optread

    c.prove(extra=gen_c17(c) + gen_caching(c) + gen_optread(c))  # + kernels translated from the source on every run
    t0 = time.time()
    run_check(c)
    c.notes.append("runtime equivalences are decided by differential runs (partial); formulation-level equalities and "
                   "the majorant are theorems.  correspondence wall %.0fs." % (time.time() - t0))


def replay(c, rp):
    from .translate_c17 import gen_c17, gen_caching, gen_optread

    c.prove(extra=gen_c17(c) + gen_caching(c) + gen_optread(c))  # + kernels translated from the source on every run
    table_check(c)
    corpus(c)
    c17_caching.check_sessions(c, 14, 4)
