"""
C17 — `CachingQPSol` sessions: the real front-end driven through several constructions (constraint rows
appended or unchanged, new objective every time, as a goal-programming run does per priority) and several
calls with changing bounds, on random small QPs / LPs with exactly representable data.

Observation point: the keyword arguments `CachingQPSol` passes to the conic back-end.  `casadi.conic` (the
library function the front-end calls, not rtc-tools code) is wrapped by a pass-through recorder for the
duration of a session; the front-end itself is used through its public call interface
`CachingQPSol()(name, solver_name, nlp, options)(x0=, lbx=, ubx=, lbg=, ubg=)` and `.stats()`.

Compared per call
  * correspondence (`c.disagree`): the recorded `h, g, a, x0, lbx, ubx, lba, uba` (exact) and the reported
    objective (1e-9, one float addition) against `C17.session` of the Lean model (Drivers/C17.lean, op
    `caching`); raised / not raised for constructions with another variable count and calls on a solver whose
    NLP has fewer rows than the cache;
  * property oracles (`c.fail`), plain Python, independent of the model:
      - paired run: `ca.qpsol` on the same NLP with the same bounds gives the same optimal objective (1e-6);
      - own solution: the reported objective is the NLP objective at the returned point, the point satisfies
        the caller's bounds (1e-6);
      - no history: a brand-new `CachingQPSol` on the same NLP and arguments hands the same QP to the back-end.
"""
import contextlib
from fractions import Fraction

import numpy as np

from .common import fr, quiet_fd, same, unfr

INF = float("inf")


@contextlib.contextmanager
def conic_spy(log):
    """wrap `casadi.conic` by a pass-through recorder"""
    import casadi as ca

    real = ca.conic

    class Spy:
        def __init__(self, name, solver, st, opts):
            self._s = real(name, solver, st, opts)
            self.rec = {"solver": solver, "h_shape": tuple(st["h"].shape), "a_shape": tuple(st["a"].shape), "calls": []}
            log.append(self.rec)

        def __call__(self, **kw):
            self.rec["calls"].append({k: np.array(ca.DM(v), dtype=float) for k, v in kw.items()})
            return self._s(**kw)

        def stats(self):
            return self._s.stats()

    ca.conic = Spy
    try:
        yield
    finally:
        ca.conic = real


def solver_opts(name):
    o = {"error_on_fail": False}
    if name == "qpoases":
        o["printLevel"] = "none"
    elif name == "highs":
        o["highs"] = {"output_flag": False, "primal_feasibility_tolerance": 1e-9, "dual_feasibility_tolerance": 1e-9}
    return o


def gen_objective(rng, n, lp):
    if lp:
        Q = [[0] * n for _ in range(n)]
    else:
        M = [[rng.randint(-2, 2) for _ in range(n)] for _ in range(n)]
        P = [[sum(M[k][i] * M[k][j] for k in range(n)) + (rng.choice([1, 2]) if i == j else 0) for j in range(n)]
             for i in range(n)]
        Q = [row[:] for row in P]
        for i in range(n):           # skew part: contributes nothing to x'Qx, makes Q asymmetric
            for j in range(i + 1, n):
                s = rng.choice([0, 0, 1, -2, 3])
                Q[i][j] += s
                Q[j][i] -= s
    c = [rng.randint(-4, 4) for _ in range(n)]
    k = rng.choice([0, 0, 7, -2.5, 1.25, 40])
    return Q, c, k


def gen_session(rng, malformed=None):
    n = rng.choice([1, 2, 2, 3])
    kind = rng.choice(["SX", "MX", "MX"])
    solver = rng.choice(["qpoases", "highs"])
    lp = solver == "highs" and rng.random() < 0.4
    pool = []
    for _ in range(7):
        a = [rng.randint(-2, 2) for _ in range(n)]
        if not any(a):
            a[rng.randrange(n)] = 1
        pool.append((a, rng.choice([0, 0, 3, -4, 0.5, -1.5, 7, 12])))
    m = rng.choice([1, 1, 2, 3])
    events = []
    nev = rng.choice([1, 2, 3, 3, 4])
    for e in range(nev):
        if e > 0:
            m = min(len(pool), m + rng.choice([0, 0, 1, 1, 2]))
        Q, c, k = gen_objective(rng, n, lp)
        calls = []
        for _ in range(rng.choice([1, 1, 2, 3])):
            calls.append(gen_call(rng, n, pool[:m], lp))
        events.append({"n": n, "Q": Q, "c": c, "k": k, "ga": [p[0] for p in pool[:m]], "gb": [p[1] for p in pool[:m]],
                       "calls": calls})
    sess = {"kind": kind, "solver": solver, "events": events, "malformed": malformed}
    if malformed == "nvars":
        # a construction with another number of variables in the middle: raises, the cache stays
        pos = rng.randrange(1, len(events) + 1)
        n2 = n + 1
        Q, c, k = gen_objective(rng, n2, lp)
        bad = {"n": n2, "Q": Q, "c": c, "k": k, "ga": [[1] * n2], "gb": [0], "calls": []}
        events.insert(pos, bad)
    elif malformed == "shrink":
        # a last construction whose NLP has fewer rows than the cache: the call raises (dimension mismatch)
        last = events[-1]
        mm = max(3, len(last["ga"]))
        last["ga"] = [p[0] for p in pool[:mm]]
        last["gb"] = [p[1] for p in pool[:mm]]
        last["calls"] = [gen_call(rng, n, pool[:mm], lp)]
        Q, c, k = gen_objective(rng, n, lp)
        events.append({"n": n, "Q": Q, "c": c, "k": k, "ga": [p[0] for p in pool[:mm - 1]],
                       "gb": [p[1] for p in pool[:mm - 1]], "calls": [gen_call(rng, n, pool[:mm - 1], lp)]})
    return sess


def gen_call(rng, n, rows, lp):
    xs = [rng.randint(-3, 3) for _ in range(n)]
    rad = [0, 1, 2, 4] if lp else [0, 1, 2, 4, INF, INF]
    lbx = [x - rng.choice(rad) for x in xs]
    ubx = [x + rng.choice(rad) for x in xs]
    lbg, ubg = [], []
    for a, b in rows:
        v = sum(ai * xi for ai, xi in zip(a, xs)) + b
        lbg.append(v - rng.choice([0, 0.5, 1, 3, INF]))
        ubg.append(v + rng.choice([0, 0.5, 1, 3, INF]))
    return {"x0": [rng.randint(-2, 2) for _ in range(n)], "lbx": lbx, "ubx": ubx, "lbg": lbg, "ubg": ubg}


def build_nlp(ev, kind):
    import casadi as ca

    n = ev["n"]
    x = (ca.SX if kind == "SX" else ca.MX).sym("x", n)
    f = ca.mtimes(x.T, ca.mtimes(ca.DM(ev["Q"]), x)) + ca.dot(ca.DM([float(v) for v in ev["c"]]), x) + float(ev["k"])
    if ev["ga"]:
        g = ca.mtimes(ca.DM(ev["ga"]), x) + ca.DM([float(v) for v in ev["gb"]])
    else:
        g = type(x)(0, 1)
    return {"x": x, "f": f, "g": g}


def f_value(ev, x):
    Q = np.array(ev["Q"], dtype=float)
    return float(x @ Q @ x + np.dot(np.array(ev["c"], dtype=float), x) + float(ev["k"]))


def run_call(solver, call):
    try:
        with quiet_fd():
            r = solver(x0=call["x0"], lbx=call["lbx"], ubx=call["ubx"], lbg=call["lbg"], ubg=call["ubg"])
            ok = bool(solver.stats()["success"])
        return {"f": float(r["f"]), "cost": float(r["cost"]) if "cost" in r else None,
                "x": np.array(r["x"], dtype=float).ravel(), "ok": ok}
    except Exception as e:  # noqa: BLE001
        return ("raise", type(e).__name__, str(e)[:200])


def run_real(sess):
    """the session on the real front-end; per event: 'raise' or the recorder entry + per-call results"""
    import casadi as ca
    from rtctools.optimization.single_pass_goal_programming_mixin import CachingQPSol

    log = []
    out = []
    opts = solver_opts(sess["solver"])
    with conic_spy(log):
        cq = CachingQPSol()
        for ev in sess["events"]:
            nlp = build_nlp(ev, sess["kind"])
            k0 = len(log)
            try:
                with quiet_fd():
                    s = cq("nlp", sess["solver"], nlp, dict(opts))
            except Exception as e:  # noqa: BLE001
                out.append({"made": ("raise", type(e).__name__, str(e)[:200]), "calls": []})
                continue
            rec = log[k0] if len(log) > k0 else None
            res = []
            for call in ev["calls"]:
                nc = len(rec["calls"]) if rec else 0
                r = run_call(s, call)
                seen = rec["calls"][nc] if rec and len(rec["calls"]) > nc else None
                res.append({"result": r, "handed": seen})
            out.append({"made": rec, "calls": res})
    # references, outside the recorder session: brand-new front-end per call, plain qpsol per call
    for ev, o in zip(sess["events"], out):
        if isinstance(o["made"], tuple) or o["made"] is None:
            continue
        nlp = build_nlp(ev, sess["kind"])
        for call, rc in zip(ev["calls"], o["calls"]):
            if isinstance(rc["result"], tuple):
                continue
            flog = []
            with conic_spy(flog):
                try:
                    with quiet_fd():
                        fs = CachingQPSol()("nlp", sess["solver"], nlp, dict(opts))
                    rc["fresh_result"] = run_call(fs, call)
                    rc["fresh_handed"] = flog[0]["calls"][0] if flog and flog[0]["calls"] else None
                except Exception as e:  # noqa: BLE001
                    rc["fresh_result"] = ("raise", type(e).__name__, str(e)[:200])
                    rc["fresh_handed"] = None
            try:
                with quiet_fd():
                    ps = ca.qpsol("plain", sess["solver"], nlp, dict(opts))
                rc["plain"] = run_call(ps, call)
            except Exception as e:  # noqa: BLE001
                rc["plain"] = ("raise", type(e).__name__, str(e)[:200])
    return out


def wire(sess, real):
    evs = []
    for ev, o in zip(sess["events"], real):
        calls = []
        for i, call in enumerate(ev["calls"]):
            cost = 0.0
            if i < len(o["calls"]) and not isinstance(o["calls"][i]["result"], tuple) \
                    and o["calls"][i]["result"]["cost"] is not None:
                cost = o["calls"][i]["result"]["cost"]
            calls.append({k: [fr(v) for v in call[k]] for k in ("x0", "lbx", "ubx", "lbg", "ubg")} | {"cost": fr(cost)})
        evs.append({"n": ev["n"], "Q": [[fr(v) for v in row] for row in ev["Q"]], "c": [fr(v) for v in ev["c"]],
                    "k": fr(ev["k"]), "ga": [[fr(v) for v in row] for row in ev["ga"]], "gb": [fr(v) for v in ev["gb"]],
                    "calls": calls})
    return {"op": "caching", "events": evs}


def mat_same(model, arr):
    rows = model["rows"]
    arr = np.asarray(arr, dtype=float)
    if arr.ndim != 2 or arr.shape[0] != len(rows) or (len(rows) and arr.shape[1] != model["ncol"]):
        return False
    return all(len(r) == arr.shape[1] and all(same(a, b, exact=True) for a, b in zip(r, arr[i]))
               for i, r in enumerate(rows))


def vec_same(model, arr, exact=True):
    arr = np.asarray(arr, dtype=float).ravel()
    return model is not None and len(model) == len(arr) and all(same(a, b, exact=exact) for a, b in zip(model, arr))


def handed_same(md, seen):
    """model dict (wire) vs recorded kwargs"""
    bad = []
    for k in ("h", "a"):
        if k not in seen or md[k] is None or not mat_same(md[k], seen[k]):
            bad.append(k)
    for k in ("g", "x0", "lbx", "ubx", "lba", "uba"):
        if k not in seen or not vec_same(md[k], seen[k]):
            bad.append(k)
    extra = sorted(set(seen) - {"h", "a", "g", "x0", "lbx", "ubx", "lba", "uba"})
    return bad + ["unexpected:" + k for k in extra]


def brief_handed(seen):
    return None if seen is None else {k: np.asarray(v).tolist() for k, v in seen.items()}


def brief(sess):
    return {"symbols": sess["kind"], "solver": sess["solver"], "malformed": sess["malformed"], "events": sess["events"]}


def check_sessions(c, n_ok, n_bad):
    rng = c.rng
    sessions = [gen_session(rng) for _ in range(n_ok)]
    sessions += [gen_session(rng, malformed=rng.choice(["nvars", "shrink"])) for _ in range(n_bad)]
    reals = [run_real(s) for s in sessions]
    outs = c.model([wire(s, r) for s, r in zip(sessions, reals)])
    for si, (sess, real) in enumerate(zip(sessions, reals)):
        mo = outs[si]["traces"] if outs is not None else None
        ms = tuple(len(ev["ga"]) for ev in sess["events"])
        c.count(("caching-session", sess["kind"], sess["solver"], sess["malformed"], sess["events"][0]["n"], ms,
                 tuple(len(ev["calls"]) for ev in sess["events"])))
        c.hit("caching-session/" + (sess["malformed"] or "rows appended or unchanged"))
        c.hit("caching-session/%s/%s" % (sess["kind"], sess["solver"]))
        c.programs += 1
        c.sample({"caching_session": brief(sess)}, limit=1)
        for ei, (ev, o) in enumerate(zip(sess["events"], real)):
            case = {"session": brief(sess), "event": ei}
            mt = mo[ei] if mo is not None else None
            raised = isinstance(o["made"], tuple)
            if mt is not None and (mt["made"] == "raise") != raised:
                c.disagree("CachingQPSol construction raises / does not raise", case, mt["made"],
                           o["made"] if raised else "constructed")
                continue
            if raised:
                c.hit("caching-session/construction raises (other variable count)")
                if sess["malformed"] != "nvars":
                    c.fail("CachingQPSol raised on a construction of a well-formed session: %s" % (o["made"],), case)
                continue
            if o["made"] is None:
                c.fail("CachingQPSol did not create a conic back-end solver", case)
                continue
            if ei > 0:
                c.hit("caching-session/construction with a filled cache/%s"
                      % ("rows appended" if len(ev["ga"]) > len(sess["events"][ei - 1]["ga"]) else "rows unchanged"
                         if len(ev["ga"]) == len(sess["events"][ei - 1]["ga"]) else "fewer rows"))
            shrunk = sess["malformed"] == "shrink" and ei == len(sess["events"]) - 1
            if mt is not None and not shrunk:
                md = mt["made"]
                if o["made"]["h_shape"] != (md["h"]["ncol"], md["h"]["ncol"]) \
                        or o["made"]["a_shape"] != (len(md["a"]["rows"]), md["a"]["ncol"]):
                    c.disagree("shapes of the structure the conic solver is created for", case,
                               {"h": md["h"]["ncol"], "a": [len(md["a"]["rows"]), md["a"]["ncol"]]},
                               {"h": o["made"]["h_shape"], "a": o["made"]["a_shape"]})
            for ci, (call, rc) in enumerate(zip(ev["calls"], o["calls"])):
                ccase = dict(case, call=ci)
                r = rc["result"]
                mc = mt["calls"][ci] if mt is not None and "calls" in mt and ci < len(mt["calls"]) else None
                c.count(("caching-call", si, ei, ci))
                if mc is not None and (mc == "raise") != isinstance(r, tuple):
                    c.disagree("CachingQPSol call raises / does not raise", ccase, mc,
                               r if isinstance(r, tuple) else "returned")
                    continue
                if isinstance(r, tuple):
                    c.hit("caching-session/call raises (fewer rows than the cache)")
                    if not shrunk:
                        c.fail("CachingQPSol call raised on a well-formed session: %s" % (r,), ccase)
                    continue
                c.hit("caching-session/calls")
                if ci > 0:
                    c.hit("caching-session/repeated call on one solver object")
                seen = rc["handed"]
                if seen is None:
                    c.fail("CachingQPSol returned without calling the conic back-end", ccase)
                    continue
                # --- correspondence with the Lean model
                if mc is not None:
                    bad = handed_same(mc, seen)
                    if bad:
                        c.disagree("QP handed to the conic back-end, entries %s" % bad, ccase,
                                   {k: mc[k] for k in mc if k.split(":")[-1] in bad or k in bad},
                                   brief_handed({k: v for k, v in seen.items() if k in bad}))
                    if r["cost"] is not None and not same(mc["f"], r["f"], exact=False):
                        c.disagree("reported objective (cost + f(0))", ccase, float(unfr(mc["f"])), r["f"])
                # --- oracle: no history
                fh = rc.get("fresh_handed")
                if fh is not None:
                    diff = sorted(k for k in set(seen) | set(fh)
                                  if k not in seen or k not in fh or seen[k].shape != fh[k].shape
                                  or not np.array_equal(seen[k], fh[k]))
                    if diff:
                        c.fail("CachingQPSol: the QP handed to the back-end after this history differs from the one a "
                               "brand-new CachingQPSol hands over for the same NLP and arguments (entries %s)" % diff,
                               ccase, {"with_history": brief_handed({k: seen.get(k) for k in diff if k in seen}),
                                       "fresh": brief_handed({k: fh.get(k) for k in diff if k in fh})})
                # --- oracle: own solution
                x = r["x"]
                tol = 1e-6
                if r["ok"]:
                    fx = f_value(ev, x)
                    if not abs(fx - r["f"]) <= tol * (1 + abs(fx)):
                        c.fail("CachingQPSol: reported objective is not the NLP objective at the returned point",
                               ccase, {"reported": r["f"], "f(x)": fx, "x": x.tolist()})
                    gx = [float(np.dot(a, x) + b) for a, b in zip(ev["ga"], ev["gb"])]
                    viol = [i for i, v in enumerate(gx) if v < call["lbg"][i] - tol * (1 + abs(v))
                            or v > call["ubg"][i] + tol * (1 + abs(v))]
                    viol += ["x%d" % i for i, v in enumerate(x) if v < call["lbx"][i] - tol * (1 + abs(v))
                             or v > call["ubx"][i] + tol * (1 + abs(v))]
                    if viol:
                        c.fail("CachingQPSol: the returned point of a successful solve violates the caller's bounds "
                               "(rows / variables %s)" % viol, ccase, {"x": x.tolist(), "g(x)": gx})
                # --- oracle: paired with plain qpsol
                pl = rc.get("plain")
                if isinstance(pl, tuple):
                    c.fail("plain ca.qpsol raised on the same NLP: %s" % (pl,), ccase)
                elif pl is not None:
                    if r["ok"] and pl["ok"]:
                        c.hit("caching-session/paired with plain qpsol: both solved")
                        if not abs(pl["f"] - r["f"]) <= tol * (1 + abs(pl["f"])):
                            c.fail("CachingQPSol and plain qpsol give different optimal objective values", ccase,
                                   {"CachingQPSol": r["f"], "qpsol": pl["f"], "x_caching": x.tolist(),
                                    "x_qpsol": pl["x"].tolist()})
                    elif r["ok"] != pl["ok"]:
                        fr_ = rc.get("fresh_result")
                        if not isinstance(fr_, tuple) and fr_ is not None and fr_["ok"] == pl["ok"]:
                            # the brand-new front-end agrees with plain qpsol, the one with a history does not
                            c.fail("CachingQPSol with a history %s where plain qpsol and a brand-new CachingQPSol %s"
                                   % ("fails" if pl["ok"] else "succeeds", "succeed" if pl["ok"] else "fail"), ccase,
                                   {"CachingQPSol": r["ok"], "qpsol": pl["ok"]})
                        else:
                            c.hit("solver-numerics/caching-session/one-sided failure")
                    else:
                        c.hit("caching-session/paired with plain qpsol: both fail")
