"""
C18 -- a successful homotopy run has solved the original problem (theta = 1).

Proof obligations: lean/RtcVerif/Props/C18.lean (model lean/RtcVerif/Model/C18Homotopy.lean).
Correspondence: the real `HomotopyMixin` (optimize / seed / parameters) over

  * a stub base class whose inner `optimize()` follows a script of outcomes (log of
    (theta, outcome, results used as seed), return value, hook counts, linear-model flags), and
  * a real small optimization problem (IPOPT), with and without `GoalProgrammingMixin`
    underneath, where failures are injected through the `casadi_solver` option,

against the Lean model through Drivers/C18.lean.  An independent oracle (the property re-stated
in plain Python on the observed log) runs on every instance.

Arithmetic: the model is exact; the code runs in binary64.  Options that are dyadic rationals
make every operation of the loop (add, subtract, halve, compare) exact in binary64, so those
instances are compared exactly.  For decimal options thetas are compared to 1e-12 and an
instance on which the model takes a branch decision within 1e-9 of a tie is *skipped and
counted* (binary64 drift could legitimately decide it the other way; the model does not exhibit
drift).
"""
import itertools
import logging
import math
from fractions import Fraction

import numpy as np

from . import c18_real
from .common import fr, unfr

TIE = Fraction(1, 10 ** 9)
FUEL = 4000


class Diverged(Exception):
    pass


# ---------------------------------------------------------------------------------------------
# the real mixin over a scripted base class


def make_stub_class():
    from pymoca.backends.casadi.alias_relation import AliasRelation
    from rtctools.optimization.homotopy_mixin import HomotopyMixin
    from rtctools.optimization.optimization_problem import OptimizationProblem

    ns = {m: (lambda self, *a, **k: None) for m in OptimizationProblem.__abstractmethods__}

    def __init__(self, script, opts, members=1, fuel=FUEL):
        self.script = list(script)
        self.opts = dict(opts)
        self.members = members
        self.fuel = fuel
        self.log = []  # (theta, ok, [index of the solve whose results seed member m], kwargs)
        self.current = None  # index of the solve whose output the base class exposes
        self.n_pre = self.n_post = self.n_clear = 0
        self._ar = AliasRelation()
        OptimizationProblem.__init__(self)

    def optimize(self, preprocessing=True, postprocessing=True, log_solver_failure_as_error=True):
        name = self.homotopy_options()["homotopy_parameter"]
        th = [self.parameters(m)[name] for m in range(self.members)]
        k = len(self.log)
        if k >= self.fuel:
            raise Diverged()
        ok = self.script[k] if k < len(self.script) else True
        used = []
        for m in range(self.members):
            sd = self.seed(m)
            if "x" in sd:
                v = sd["x"].values
                used.append((int(v[0]), int(v[1]), int(v[2])))  # (solve, member, optimize() call)
            else:
                used.append(None)
        self.current = k
        self.log.append((th, ok, used, (preprocessing, postprocessing, log_solver_failure_as_error),
                         (getattr(self, "linear_collocation", None), self.n_clear)))
        return ok

    def extract_results(self, ensemble_member=0):
        k = self.current
        return {"x": np.array([float(k), float(ensemble_member), float(getattr(self, "run", 0))]),
                "s": np.array([float(k)])}

    def pre(self):
        self.n_pre += 1

    def post(self):
        self.n_post += 1

    def clear_transcription_cache(self):
        self.n_clear += 1

    ns.update(
        __init__=__init__, optimize=optimize, extract_results=extract_results, pre=pre, post=post,
        clear_transcription_cache=clear_transcription_cache,
        alias_relation=property(lambda self: self._ar),
        ensemble_size=property(lambda self: self.members),
        times=lambda self, variable=None: np.array([0.0, 1.0, 2.0]),
    )
    Stub = type("ScriptedBase", (OptimizationProblem,), ns)

    class Scripted(HomotopyMixin, Stub):
        def homotopy_options(self):
            o = super().homotopy_options()
            o.update(self.opts)
            return o

    return Scripted


def run_impl(cls, opts, script, members=1, fuel=FUEL):
    """returns dict(kind='ok'|'raise'|'diverged', ret, log, ...)"""
    p = cls(script, opts, members, fuel)
    try:
        ret = p.optimize()
    except Diverged:
        return dict(kind="diverged", log=p.log, ret=None, p=p)
    except Exception as e:
        return dict(kind="raise", err=type(e).__name__, log=p.log, ret=None, p=p)
    final = [p.extract_results(m) for m in range(members)]
    return dict(kind="ok", ret=ret, log=p.log, p=p, final=[int(f["x"][0]) for f in final])


def run_impl_seq(cls, runs, members=1):
    """several optimize() calls on ONE object; runs = [(opts, script)]; returns one result per call"""
    p = cls([], {}, members, FUEL)
    out = []
    for ri, (opts, script) in enumerate(runs):
        p.script, p.opts, p.log, p.current = list(script), dict(opts), [], None
        p.n_pre = p.n_post = p.n_clear = 0
        p.run = ri
        b = solve_bound(opts)
        p.fuel = FUEL if b is None else min(FUEL, b + 5)
        try:
            ret = p.optimize()
        except Diverged:
            out.append(dict(kind="diverged", log=p.log, ret=None))
            break
        except Exception as e:
            out.append(dict(kind="raise", err=type(e).__name__, log=p.log, ret=None))
            continue
        final = [p.extract_results(m) for m in range(members)]
        out.append(dict(kind="ok", ret=ret, log=p.log, final=[int(f["x"][0]) for f in final],
                        counts=(p.n_pre, p.n_post, p.n_clear)))
    return out


# ---------------------------------------------------------------------------------------------
# option values


def is_dyadic(x, bits=12):
    f = Fraction(x)
    return f.denominator & (f.denominator - 1) == 0 and f.denominator <= (1 << bits) and abs(f) <= 8


def full_opts(opts):
    d = {"theta_start": 0.0, "delta_theta_0": 1.0, "delta_theta_min": 0.01}
    d.update({k: v for k, v in opts.items() if k in d})
    return d["theta_start"], d["delta_theta_0"], d["delta_theta_min"]


def exact_instance(opts):
    ts, d0, _ = full_opts(opts)
    return is_dyadic(ts) and is_dyadic(d0)


def solve_bound(opts):
    """the proved bound on the number of solves: pot/mu + 1 (None when delta_min <= 0)"""
    ts, d0, dmin = (Fraction(x) for x in full_opts(opts))
    if dmin <= 0 or d0 <= 0 or ts > 1:
        return None
    return math.floor(((1 - ts) + 2 * d0) / min(d0, dmin)) + 1


def gen_opts(rng):
    mode = rng.choice(["dy", "dy", "dy", "dec", "dec", "default"])
    o = {}
    if mode == "default":
        if rng.random() < 0.5:
            o["delta_theta_0"] = rng.choice([1.0, 0.5, 0.25, 0.3, 0.1])
        if rng.random() < 0.3:
            o["theta_start"] = rng.choice([0.0, 0.5, 1.0, 0.1])
        if rng.random() < 0.3:
            o["delta_theta_min"] = rng.choice([0.01, 0.05, 0.125])
    elif mode == "dy":
        o["theta_start"] = rng.choice([0.0, 0.0, 0.25, 0.5, 0.75, 1.0, -0.5, -1.0, 0.125, rng.randint(-64, 64) / 64])
        o["delta_theta_0"] = rng.choice([1.0, 1.0, 0.5, 0.25, 0.375, 0.125, 2.0, 0.3125, rng.randint(1, 128) / 64])
        o["delta_theta_min"] = rng.choice([1 / 128, 1 / 64, 1 / 16, 0.125, 0.25, 0.5, 1.0, 2.0, rng.randint(1, 64) / 256])
    else:
        o["theta_start"] = rng.choice([0.0, 0.1, 0.2, 0.3, 0.5, 0.7, 0.9, 1.0, -0.5, -0.3, round(rng.uniform(-1, 1), 2)])
        o["delta_theta_0"] = rng.choice([1.0, 0.1, 0.3, 0.25, 0.7, 0.05, 0.2, round(rng.uniform(0.02, 1.5), 2)])
        o["delta_theta_min"] = rng.choice([0.01, 0.01, 0.05, 0.1, 0.001, 0.3, round(rng.uniform(0.005, 0.5), 3)])
    if rng.random() < 0.04:
        o["theta_start"] = rng.choice([1.25, 2.0, 1.0 + 2.0 ** -20])  # the loop body never runs
    if rng.random() < 0.15:
        o["homotopy_parameter"] = rng.choice(["h", "alpha"])
    if rng.random() < 0.03:
        # no minimum increment: outside the termination theorem, every other clause still applies
        # (finite scripts only; afterwards every solve succeeds, so the run ends)
        o["theta_start"] = rng.choice([0.0, 0.5, -0.5])
        o["delta_theta_0"] = rng.choice([1.0, 0.5, 0.25])
        o["delta_theta_min"] = rng.choice([0.0, -1.0])
        o["_short"] = True
    return o


def gen_script(rng):
    kind = rng.choice(["rand", "rand", "rand", "rand", "allT", "allF", "oneF", "TthenF", "TthenF", "late", "late"])
    n = rng.choice([0, 1, 2, 3, 5, 8, 12, 20, 30])
    if kind == "rand":
        p = rng.choice([0.9, 0.7, 0.5, 0.3])
        s = [rng.random() < p for _ in range(n)]
        if s and rng.random() < 0.75:
            s[0] = True  # a failing first solve ends the run at once: keep that class small
        return s
    if kind == "allT":
        return [True] * n
    if kind == "allF":
        return [False] * max(n, 1)
    if kind == "oneF":
        s = [True] * max(n, 1)
        s[rng.randrange(len(s))] = False
        return s
    if kind == "TthenF":
        return [True] * rng.randint(1, 3) + [False] * n
    s = [rng.random() < 0.8 for _ in range(n)]
    return s + [False, True, False, False, True]


# ---------------------------------------------------------------------------------------------
# independent oracle: the property statement evaluated on the observed behaviour


def oracle(c, case, opts, r, exact):
    """r: result of run_impl (or of the real-problem runner, same shape: log of
    (theta, ok, used-index) with `used` = index of the solve whose results were the seed)"""
    ts, d0, dmin = full_opts(opts)
    tol = 0.0 if exact else 1e-12
    mtol = 0.0 if exact else 1e-9  # the comparison with delta_theta_min is strict ("below the minimum")
    if r["kind"] == "diverged":
        c.fail("homotopy loop did not end within %d solves" % FUEL, case)
        return
    if r["kind"] == "raise":
        if ts <= 1.0:
            c.fail("optimize() raised %s for theta_start <= 1" % r.get("err"), case)
        return
    log, ret = r["log"], r["ret"]
    bad = []
    if not isinstance(ret, (bool, np.bool_)):
        bad.append("optimize() returned %r" % (ret,))
    if not log:
        bad.append("no solve at all")
        c.fail("; ".join(bad), case)
        return
    th = [float(e[0]) for e in log]
    ok = [bool(e[1]) for e in log]
    used = [e[2] for e in log]
    if any(t > 1.0 for t in th):
        bad.append("theta exceeded 1: %r" % max(th))
    if any(t < ts for t in th):
        bad.append("theta below theta_start: %r" % min(th))
    if th[0] != ts:
        bad.append("first solve not at theta_start")
    if used[0] is not None:
        bad.append("first solve seeded with stored results")
    if ret and not (ok[-1] and th[-1] == 1.0):
        bad.append("success reported but the last solve is (theta=%r, ok=%r)" % (th[-1], ok[-1]))
    if ret is not None and bool(ret) != ok[-1]:
        bad.append("return value differs from the outcome of the last solve")
    acc = None  # index of the last accepted solve
    for k in range(len(log)):
        if k > 0:
            if acc is None:
                bad.append("solve %d after a failed first solve" % k)
                break
            if ok[k - 1]:
                if not th[k] > th[k - 1]:
                    bad.append("theta did not increase after the success at solve %d" % (k - 1))
                if th[k - 1] >= 1.0:
                    bad.append("a solve follows the success at theta = 1")
            else:
                if not th[k] < th[k - 1]:
                    bad.append("theta did not step back after the failure at solve %d" % (k - 1))
                inc_prev = th[k - 1] - th[acc]
                inc = th[k] - th[acc]
                if abs(inc - inc_prev / 2) > tol:
                    bad.append("increment after the failure at solve %d is %r, not half of %r" % (k - 1, inc, inc_prev))
                if inc_prev / 2 < dmin - mtol:
                    bad.append("run continued although the halved increment %r is below delta_theta_min" % (inc_prev / 2))
            if not th[k] > ts:
                bad.append("solve %d at theta <= theta_start" % k)
            if used[k] != acc:
                bad.append("solve %d seeded from solve %r, last accepted is %r" % (k, used[k], acc))
        if ok[k]:
            acc = k
    if not ret and not bad:
        k = len(log) - 1
        if ok[k]:
            pass  # already reported above
        elif not (k == 0 or (th[k] - th[acc]) / 2 < dmin + mtol):
            bad.append("failure reported although the halved increment %r is not below delta_theta_min" % ((th[k] - th[acc]) / 2))
    b = solve_bound(opts)
    if b is not None and len(log) > b + 1:
        bad.append("%d solves, proved bound %d" % (len(log), b))
    if ret and r.get("final") is not None and any(f != acc for f in r["final"]):
        bad.append("results exposed after a successful run are those of solve %r, last accepted %r" % (r["final"], acc))
    if bad:
        c.fail("; ".join(bad[:3]), case, {"log": list(zip(th, ok, used)), "ret": ret})


# ---------------------------------------------------------------------------------------------
# correspondence with the Lean model


def model_line(opts, script, pad, legacy=False):
    ts, d0, dmin = full_opts(opts)
    return dict(op="run", ts=fr(ts), d0=fr(d0), dmin=fr(dmin), script=[bool(b) for b in script], pad=pad, legacy=legacy)


def model_margin(opts, mo):
    """smallest distance from a tie over the branch decisions the model took on values that were
    produced by arithmetic (decisions on the raw option values are the same in binary64)"""
    ts, d0, dmin = (Fraction(x) for x in full_opts(opts))
    m = None

    def upd(x):
        nonlocal m
        x = abs(x)
        m = x if m is None or x < m else m

    for k, e in enumerate(mo["log"]):
        th, d = unfr(e["th"]), unfr(e["d"])
        if e["ok"]:
            if k > 0 and th != 1:
                upd(th)  # theta == 0.0
                upd(th - 1)  # theta >= 1.0
            if th < 1:
                upd(th + d - 1)  # theta + delta >= 1.0 (a rounded sum in binary64, also at the first solve)
        else:
            if k > 0:
                upd(th - ts)  # theta == theta_start
                upd(d / 2 - dmin)  # delta < delta_min
        if k > 0:
            upd(th - ts)  # seed: theta > theta_start
    return m


def compare(c, case, opts, r, mo, exact, stream):
    """model output `mo` vs implementation result `r`; returns False when skipped as near-tie"""
    if mo.get("raise"):
        if r["kind"] != "raise":
            c.disagree(stream + ": model raises (theta_start > 1), code does not", case, mo, r["kind"])
        return True
    if r["kind"] != "ok":
        c.disagree(stream + ": code %s, model returns" % r["kind"], case, mo.get("ret"), r.get("err"))
        return True
    if not exact:
        mg = model_margin(opts, mo)
        if mg is not None and mg < TIE:
            c.hit(stream + "/skipped-near-tie")
            return False
    mlog = mo["log"]
    ilog = r["log"]
    what = None
    if mo["ret"] is None:
        what = "model still running after the padded script"
    elif bool(r["ret"]) != mo["ret"]:
        what = "return value"
    elif len(mlog) != len(ilog):
        what = "number of solves"
    else:
        acc = None
        for k, (me, ie) in enumerate(zip(mlog, ilog)):
            ths = ie[0] if isinstance(ie[0], list) else [ie[0]]
            for t in ths:
                if exact:
                    good = Fraction(float(t)) == unfr(me["th"])
                else:
                    good = abs(float(t) - float(unfr(me["th"]))) <= 1e-12
                if not good:
                    what = "theta of solve %d" % k
            if bool(ie[1]) != me["ok"]:
                what = "outcome of solve %d" % k
            # seed source: model says base / stored(theta of an accepted solve)
            ms = me["seed"]
            if ms == "unset":
                what = "model reads unset results at solve %d" % k
            elif ms == "base":
                mi = None
            else:
                a = unfr(ms["stored"])
                mi = max(j for j in range(k) if mlog[j]["ok"] and unfr(mlog[j]["th"]) == a)
            useds = ie[2] if isinstance(ie[2], list) else [ie[2]]
            for m_, u in enumerate(useds):
                ui = u[0] if isinstance(u, tuple) else u
                if ui != mi:
                    what = "seed source of solve %d" % k
                if isinstance(u, tuple) and u[1] != m_:
                    what = "seed of member %d taken from member %d" % (m_, u[1])
            if what:
                break
    if what is None and "p" in r and hasattr(r["p"], "n_clear"):
        p = r["p"]
        if p.n_clear != mo["cleared"]:
            what = "clear_transcription_cache calls"
        elif mo["cleared"] > 0 and (getattr(p, "linear_collocation", None) is not False
                                    or getattr(p, "check_collocation_linearity", None) is not False):
            what = "linear-model flags after the success at theta = 0"
        elif mo["cleared"] == 0 and hasattr(p, "linear_collocation"):
            what = "linear-model flag set without a success at theta = 0"
    if what:
        c.disagree(stream + ": " + what, case, mo, {"ret": r["ret"], "log": [(e[0], e[1], e[2]) for e in ilog]})
    return True


def stub_extra_checks(c, case, r, opts):
    """things the model does not carry: hook counts and arguments of the inner optimize()"""
    p = r["p"]
    if r["kind"] == "ok":
        if p.n_pre != 1 or p.n_post != 1:
            c.fail("pre()/post() ran %d/%d times" % (p.n_pre, p.n_post), case)
    for e in r["log"]:
        if e[3] != (False, False, False):
            c.fail("inner optimize() called with (pre, post, log_as_error) = %r" % (e[3],), case)
            break
        if len(set(e[0])) != 1:
            c.fail("ensemble members see different theta", case)
            break
        if any(u is not None and (u[1] != m or u[0] != e[2][0][0]) for m, u in enumerate(e[2])) or \
                len({u is None for u in e[2]}) != 1:
            c.fail("a member is seeded with another member's (or another solve's) results", case, e[2])
            break


def run_batch(c, cls, batch, stream, members_of=None):
    """batch: list of (opts, script); runs implementation, oracle, model, comparison"""
    lines, impl = [], []
    for opts, script in batch:
        members = 1 if members_of is None else members_of(opts, script)
        b = solve_bound(opts)
        fuel = FUEL if b is None else min(FUEL, b + 5)
        r = run_impl(cls, opts, script, members, fuel)
        impl.append(r)
        lines.append(model_line(opts, script, pad=max(0, min(FUEL, len(r["log"]) + 2 - len(script)))))
    outs = c.model(lines)
    for i, ((opts, script), r) in enumerate(zip(batch, impl)):
        case = dict(stream=stream, options=opts, script=[bool(b) for b in script])
        exact = exact_instance(opts)
        ts, d0, dmin = full_opts(opts)
        log = r["log"]
        # the stub logs theta per member; the oracle looks at member 0
        flat = dict(r)
        flat["log"] = [(e[0][0], e[1], (e[2][0][0] if e[2][0] is not None else None)) for e in log]
        oracle(c, case, opts, flat, exact)
        stub_extra_checks(c, case, r, opts)
        nfail = sum(1 for e in log if not e[1])
        key = (stream, ts, d0, dmin, tuple(bool(e[1]) for e in log), r["ret"])
        c.count(key)
        c.hit("%s/%s" % (stream, "raise" if r["kind"] == "raise" else ("success" if r["ret"] else "failure")))
        c.hit("%s/%s" % (stream, "exact" if exact else "decimal"))
        if dmin <= 0:
            c.hit(stream + "/delta-min-nonpositive")
        if nfail and r["ret"]:
            c.hit(stream + "/success-after-failures")
        if len(log) == 1 and not log[0][1]:
            c.hit(stream + "/first-solve-fails")
        if r["kind"] == "ok" and not r["ret"] and len(log) > 1:
            c.hit(stream + "/delta-below-min")
        if any(abs(e[0][0]) == 0.0 and e[1] for e in log):
            c.hit(stream + "/success-at-theta-0")
        if r["kind"] == "ok" and not r["ret"] and len(log) > 1 and r.get("final") and r["final"][0] == len(log) - 1:
            # observation (not judged): after a FAILED run the base class exposes the failed solve's
            # output; the accepted results stay private to the mixin
            c.hit(stream + "/failed-run-exposes-failed-solve")
        c.sample(dict(case, ret=r["ret"], thetas=[e[0][0] for e in log]), limit=6)
        if outs is not None:
            compare(c, case, opts, r, outs[i], exact, stream)


# ---------------------------------------------------------------------------------------------
# streams


def stream_random(c, cls, n):
    rng = c.rng
    batch = []
    for _ in range(n):
        o, sc = gen_opts(rng), gen_script(rng)
        if o.pop("_short", False):
            sc = sc[:8]
        batch.append((o, sc))
    run_batch(c, cls, batch, "stub", members_of=lambda o, s: 1 + (len(s) % 2))


def stream_sequences(c, cls, big):
    """several optimize() calls on one object, an outcome script (and sometimes other options) per call.
    Each call is judged by the oracle on its own and compared with the model of a FRESH call
    (theorem C18_runs_independent): results stored by an earlier call must not influence it."""
    rng = c.rng
    scripts = [list(sc) for n in range(0, 4) for sc in itertools.product([True, False], repeat=n)]
    optsets = [{}, {"delta_theta_0": 0.5, "delta_theta_min": 0.125},
               {"theta_start": 0.25, "delta_theta_0": 0.375, "delta_theta_min": 1 / 16}]
    if big:
        optsets += [{"theta_start": -0.5, "delta_theta_0": 1.0, "delta_theta_min": 0.25}, {"theta_start": 1.0},
                    {"delta_theta_0": 0.3, "delta_theta_min": 0.05}]
    seqs = []
    for o in optsets:
        for s1 in scripts:
            for s2 in scripts:
                seqs.append([(o, s1), (o, s2)])
    for _ in range(1500 if big else 150):
        k = rng.choice([2, 3, 3, 4])
        same = rng.random() < 0.5
        o0 = gen_opts(rng)
        o0.pop("_short", None)
        runs = []
        for j in range(k):
            o = o0 if same else gen_opts(rng)
            o.pop("_short", None)
            if full_opts(o)[2] <= 0:
                o = dict(o, delta_theta_min=0.125)
            sc = gen_script(rng)[:10]
            if j > 0 and rng.random() < 0.4:
                sc = [False] + sc  # a later call whose first solve fails
            runs.append((o, sc))
        seqs.append(runs)
    results, lines = [], []
    for runs in seqs:
        members = 1 + (len(runs[0][1]) % 2)
        rs = run_impl_seq(cls, runs, members)
        results.append(rs)
        for (opts, script), r in zip(runs, rs):
            lines.append(model_line(opts, script, pad=max(0, min(FUEL, len(r["log"]) + 2 - len(script)))))
    outs = c.model(lines)
    pos = 0
    for runs, rs in zip(seqs, results):
        shape = []
        for ri, ((opts, script), r) in enumerate(zip(runs, rs)):
            case = dict(stream="sequence", call=ri, options=opts, script=[bool(b) for b in script],
                        calls=[dict(options=o, script=[bool(b) for b in sc]) for o, sc in runs])
            exact = exact_instance(opts)
            # seeds taken from results of ANOTHER call count as foreign (-1)
            log = []
            for e in r["log"]:
                used = [None if u is None else ((u[0], u[1]) if u[2] == ri else (-1, u[1])) for u in e[2]]
                log.append((e[0], e[1], used, e[3], e[4]))
            rr = dict(r, log=log)
            flat = dict(rr)
            flat["log"] = [(e[0][0], e[1], (e[2][0][0] if e[2][0] is not None else None)) for e in log]
            oracle(c, case, opts, flat, exact)
            if r["kind"] == "ok" and (r["counts"][0] != 1 or r["counts"][1] != 1):
                c.fail("call %d: pre()/post() ran %d/%d times" % (ri, r["counts"][0], r["counts"][1]), case)
            shape.append("raise" if r["kind"] != "ok" else ("ok" if r["ret"] else ("fail-first" if len(log) == 1 else "fail-later")))
            if outs is not None:
                mo = outs[pos]
                judged = compare(c, case, opts, rr, mo, exact, "sequence")  # False: skipped as a near-tie
                if judged and r["kind"] == "ok" and not mo.get("raise") and mo["cleared"] != r["counts"][2]:
                    c.disagree("sequence: clear_transcription_cache calls in call %d" % ri, case, mo["cleared"], r["counts"][2])
            pos += 1
        pos += len(runs) - len(rs)
        c.count(("sequence", tuple((full_opts(o), tuple(bool(e[1]) for e in r["log"]), r["ret"]) for (o, _), r in zip(runs, rs))))
        c.hit("sequence/%d-calls" % len(runs))
        for a, b in zip(shape, shape[1:]):
            c.hit("sequence/%s-then-%s" % (a, b))
        c.sample(dict(stream="sequence", calls=[dict(options=o, script=sc) for o, sc in runs], shape=shape), limit=8)
    return len(seqs)


GRID_QUICK = [
    {}, {"delta_theta_0": 0.5, "delta_theta_min": 0.125}, {"theta_start": 0.5, "delta_theta_0": 0.375, "delta_theta_min": 1 / 16},
    {"delta_theta_0": 0.3, "delta_theta_min": 0.05}, {"theta_start": 0.1, "delta_theta_0": 0.35, "delta_theta_min": 0.03},
]


def grid_thorough():
    g = []
    for ts in (0.0, 0.5, -0.5, 1.0, 0.125):
        for d0 in (1.0, 0.5, 0.375, 2.0):
            for dmin in (0.125, 1 / 32):
                g.append({"theta_start": ts, "delta_theta_0": d0, "delta_theta_min": dmin})
    for ts, d0, dmin in ((0.0, 1.0, 0.01), (0.1, 0.3, 0.01), (0.0, 0.1, 0.01), (0.3, 0.7, 0.05), (0.0, 0.25, 0.001),
                         (0.2, 0.2, 0.1), (-0.3, 0.3, 0.02), (0.9, 1.0, 0.01),
                         # decimal option sets whose sums stay clear of 1 (few near-ties, compared to 1e-12)
                         (0.1, 0.35, 0.01), (0.0, 0.15, 0.02), (0.3, 0.45, 0.05), (-0.3, 0.7, 0.03), (0.05, 0.6, 0.07)):
        g.append({"theta_start": ts, "delta_theta_0": d0, "delta_theta_min": dmin})
    return g


def stream_exhaustive(c, cls, grid, depth):
    """every outcome sequence of length <= depth that the loop consumes completely, for every
    option set of the grid (sequences the loop does not consume to the end coincide with a
    shorter one); after the script every solve succeeds"""
    total = 0
    for opts in grid:
        frontier = [[]]
        batch = []
        while frontier:
            nxt = []
            for s in frontier:
                batch.append((opts, s))
            # find which prefixes are still running after being consumed: run them
            for s in frontier:
                if len(s) >= depth:
                    continue
                for b in (True, False):
                    s2 = s + [b]
                    r = run_impl(cls, opts, s2, 1, fuel=len(s2) + 1)
                    # consumed completely iff at least len(s2) solves happened
                    if len(r["log"]) >= len(s2):
                        nxt.append(s2)
            frontier = nxt
        total += len(batch)
        run_batch(c, cls, batch, "exhaustive")
    return total


CORPUS = [
    # F3 (fixed in e603867): the former failing inputs, as ordinary cases
    ({"theta_start": 0.5}, []),
    ({"delta_theta_0": 0.3}, []),
    ({"delta_theta_0": 0.1}, []),
    ({}, [True, False, True, False]),
    ({}, [True] + [False] * 20),
    ({}, [False]),
    ({"theta_start": 1.0}, [False]),
    ({"theta_start": 1.0}, [True]),
    ({"delta_theta_0": 2.0}, [True, False, False, True]),
    ({"theta_start": -1.0, "delta_theta_0": 0.5, "delta_theta_min": 0.25}, [True, True, True, False, True]),
]


def legacy_probe(c):
    """the legacy loop body kept in the model reproduces finding F3 (model side only: the
    repaired code must NOT behave like it)"""
    outs = c.model([model_line({"theta_start": 0.5}, [True], 0, legacy=True),
                    model_line({"delta_theta_0": 0.3}, [], 10, legacy=True)])
    if outs is None:
        return
    if not (outs[0]["ret"] is True and outs[0]["acc"] == "1/2"):
        c.broken.append(("legacy model", "stepLegacy no longer reproduces the F3 overshoot: %r" % (outs[0],)))
    c.count(("legacy", "F3"))


def run(c):
    logging.getLogger("rtctools").setLevel(logging.CRITICAL)
    c.rule = (
        "scripted runs of the real HomotopyMixin: options (theta_start, delta_theta_0, delta_theta_min) from a dyadic "
        "grid/random dyadics (compared exactly), decimal values and defaults (1e-12, near-tie instances skipped and "
        "counted), theta_start > 1; outcome scripts random (p = 0.9..0.3), all-success, all-failure, single failure, "
        "success-then-failures; 1-2 ensemble members; exhaustive enumeration of all outcome sequences up to a depth for "
        "an option grid; real IPOPT problem with and without goal programming with injected failures.  distinct = "
        "(stream, options, consumed outcome sequence, return value)"
    )
    c.assumptions = [
        "the inner solve is an arbitrary outcome oracle (its numerical result is not modelled)",
        "binary64: the model is exact rational arithmetic; drift such as 0.1*3 is not exhibited by the model "
        "(decimal-option instances whose branch decisions are within 1e-9 of a tie are skipped and counted)",
        "seed source modelled for the first goal-programming run of each theta (`_gp_first_run`); later priorities "
        "are seeded by the goal-programming mixin itself",
        "after a FAILED run the base class exposes the output of the failed solve (HomotopyMixin keeps no results "
        "cache); the results clause is checked for successful runs",
    ]
    from .translate_c18 import gen_homotopy_step

    c.prove(extra=gen_homotopy_step(c))  # + the loop of HomotopyMixin.optimize translated from the source
    cls = make_stub_class()
    run_batch(c, cls, CORPUS, "corpus")
    legacy_probe(c)
    stream_random(c, cls, c.n(2500, 8000))
    if c.big:
        n = stream_exhaustive(c, cls, grid_thorough(), 12)
        c.exhaustive = True
        c.notes.append("all outcome sequences of length <= 12 for %d option sets enumerated (%d runs); " % (len(grid_thorough()), n))
    else:
        n = stream_exhaustive(c, cls, GRID_QUICK, 9)
        c.exhaustive = False
        c.notes.append("all outcome sequences of length <= 9 for %d option sets enumerated (%d runs); " % (len(GRID_QUICK), n))
    nq = stream_sequences(c, cls, c.big)
    c.notes.append("sequence stream: %d objects optimized 2-4 times (all pairs of outcome scripts of length <= 3 for "
                   "%d option sets, plus random ones with options changing between the calls); " % (nq, 6 if c.big else 3))
    c18_real.stream_real(c, c.n(40, 160), oracle, compare, model_line)
    c.programs = c.dist.get("real/programs", 0)
    c.notes.append("the unbounded claim (every outcome oracle, all options) is carried by the theorems; "
                   "the enumeration ties the model to the code on that sub-space.")


def replay(c, rp):
    logging.getLogger("rtctools").setLevel(logging.CRITICAL)
    from .translate_c18 import gen_homotopy_step

    c.prove(extra=gen_homotopy_step(c))  # + the loop of HomotopyMixin.optimize translated from the source
    cls = make_stub_class()
    batch = []
    for f in rp.get("failures", []) + rp.get("correspondence_disagreements", []):
        case = f.get("case") or {}
        if "options" in case and "script" in case and case.get("stream") != "real":
            opts = {k: (v if isinstance(v, str) else float(v)) for k, v in case["options"].items()}
            batch.append((opts, case["script"]))
            print("replaying", f["what"], case)
    run_batch(c, cls, CORPUS + batch, "replay")
