"""
C18 helper: the real `HomotopyMixin` over a real (small, IPOPT) optimization problem, with and
without `GoalProgrammingMixin` underneath.  Failures are injected through the public
`casadi_solver` option (effective outcome = script AND real success).  Observed through the
public API only: an `optimize()` override between the homotopy mixin and the rest logs
(theta, outcome, results), a `seed()` override on top sees what `HomotopyMixin.seed` returns.
"""
import numpy as np

from .common import quiet_fd

_CLASSES = None
REAL_FUEL = 80  # far above the proved bound for the option sets used here


class RealDiverged(Exception):
    pass


def make_classes():
    global _CLASSES
    if _CLASSES is not None:
        return _CLASSES
    import casadi as ca
    from pymoca.backends.casadi.alias_relation import AliasRelation
    from rtctools._internal.alias_tools import AliasDict
    from rtctools.optimization.collocated_integrated_optimization_problem import (
        CollocatedIntegratedOptimizationProblem,
    )
    from rtctools.optimization.goal_programming_mixin import Goal, GoalProgrammingMixin, StateGoal
    from rtctools.optimization.homotopy_mixin import HomotopyMixin
    from rtctools.optimization.timeseries import Timeseries

    class ScriptedSolver:
        def __init__(self, script):
            self.script = list(script)
            self.calls = 0

        def __call__(self, name, solver_name, nlp, options):
            outer = self
            real = ca.nlpsol(name, solver_name, nlp, options)

            class S:
                def __call__(s, **kw):
                    return real(**kw)

                def stats(s):
                    st = dict(real.stats())
                    ok = outer.script[outer.calls] if outer.calls < len(outer.script) else True
                    outer.calls += 1
                    if not ok:
                        st["success"] = False
                        st["return_status"] = "Scripted_Failure"
                    return st

            return S()

    class HomoBase(CollocatedIntegratedOptimizationProblem):
        """x' = -p x - h k x^2 + u + c   (h = homotopy parameter);   y = x + q"""

        def __init__(self, times=None, p=0.5, k=0.3, cvals=None, target=2.0, hname="theta", hopts=None,
                     script=(), members=1, **kw):
            self._times = np.array(times, dtype=float)
            self._p, self._k, self._target = p, k, target
            self._cvals = [np.array(cv, dtype=float) for cv in cvals]
            self._hname = hname
            self._hopts = dict(hopts or {})
            self._members = members
            self._ss = ScriptedSolver(script)
            x, dx, y, u = ca.MX.sym("x"), ca.MX.sym("der(x)"), ca.MX.sym("y"), ca.MX.sym("u")
            c, pp, kk, h, t = ca.MX.sym("c"), ca.MX.sym("p"), ca.MX.sym("k"), ca.MX.sym(hname), ca.MX.sym("time")
            self._mx = dict(time=[t], states=[x], derivatives=[dx], algebraics=[y], control_inputs=[u],
                            constant_inputs=[c], parameters=[pp, kk, h], lookup_tables=[])
            self._res = ca.vertcat(dx + pp * x + h * kk * x * x - u - c, y - x - 1.0)
            self._ar = AliasRelation()
            self.n_pre = self.n_post = 0
            super().__init__(**kw)

        dae_variables = property(lambda self: self._mx)
        dae_residual = property(lambda self: self._res)
        alias_relation = property(lambda self: self._ar)
        ensemble_size = property(lambda self: self._members)

        def times(self, variable=None):
            return self._times

        def parameters(self, ensemble_member):
            d = AliasDict(self._ar)
            d["p"] = self._p
            d["k"] = self._k
            return d

        def constant_inputs(self, ensemble_member):
            d = AliasDict(self._ar)
            d["c"] = Timeseries(self._times, self._cvals[ensemble_member])
            return d

        def bounds(self):
            b = AliasDict(self._ar)
            b["u"] = (-5.0, 5.0)
            b["x"] = (0.0, 10.0)
            b["y"] = (-100.0, 100.0)
            return b

        def history(self, ensemble_member):
            h = AliasDict(self._ar)
            h["x"] = Timeseries(self._times[:1], np.array([1.0]))
            return h

        def map_options(self):
            return {"mode": "unroll"}

        def solver_options(self):
            o = super().solver_options()
            o["ipopt"]["print_level"] = 0
            o["ipopt"]["tol"] = 1e-10
            o["print_time"] = False
            o["casadi_solver"] = self._ss
            return o

        def pre(self):
            self.n_pre += 1
            super().pre()

        def post(self):
            self.n_post += 1
            super().post()

    class Objective:
        def path_objective(self, ensemble_member):
            return (self.state("x") - self._target) ** 2 + 0.01 * self.state("u") ** 2

    class GLevel(StateGoal):
        state = "x"
        priority = 1

        def __init__(self, pr, lo):
            self.target_min = lo
            self.function_range = (-10.0, 20.0)
            super().__init__(pr)

    class GEffort(Goal):
        priority = 2
        order = 2

        def function(self, pr, ensemble_member):
            return pr.state("u")

    class Goals:
        def path_goals(self):
            return [GLevel(self, self._target), GEffort()]

    class Tap:
        """sits directly below HomotopyMixin: one call = one solve of the homotopy loop"""

        def optimize(self, preprocessing=True, postprocessing=True, log_solver_failure_as_error=True):
            if not hasattr(self, "tap_log"):
                self.tap_log, self.tap_res, self.tap_seed = [], [], []
            th = float(self.parameters(0)[self._hname])
            if len(self.tap_log) >= REAL_FUEL:
                raise RealDiverged()
            self._await_seed = True
            ok = super().optimize(preprocessing=preprocessing, postprocessing=postprocessing,
                                  log_solver_failure_as_error=log_solver_failure_as_error)
            if self._await_seed:  # seed() not consulted at all
                self.tap_seed.append("not-called")
                self._await_seed = False
            self.tap_log.append((th, bool(ok), (preprocessing, postprocessing)))
            self.tap_res.append([{k: np.array(v, copy=True) for k, v in self.extract_results(m).items()}
                                 for m in range(self.ensemble_size)])
            return ok

    class SeedTap:
        """sits above HomotopyMixin: sees the seed the mixin hands to the transcription"""

        def homotopy_options(self):
            o = super().homotopy_options()
            o.update(self._hopts)
            o["homotopy_parameter"] = self._hname
            return o

        def seed(self, ensemble_member):
            s = super().seed(ensemble_member)
            if getattr(self, "_await_seed", False) and ensemble_member == 0:
                self._await_seed = False
                v = s["x"] if "x" in s else None
                self.tap_seed.append(None if v is None else np.array(v.values, copy=True))
            return s

    class Plain(SeedTap, HomotopyMixin, Tap, Objective, HomoBase):
        pass

    class WithGP(SeedTap, HomotopyMixin, Tap, Goals, GoalProgrammingMixin, HomoBase):
        pass

    _CLASSES = (Plain, WithGP)
    return _CLASSES


def match_index(arr, recs, prefer):
    """index of the recorded result set whose 'x' equals `arr` bit for bit"""
    if arr is None:
        return None
    if isinstance(arr, str):
        return arr
    hits = [j for j, r in enumerate(recs) if r[0]["x"].shape == arr.shape and np.array_equal(r[0]["x"], arr)]
    if not hits:
        return -1
    return prefer if prefer in hits else hits[-1]


def run_real(cls, kw):
    p = cls(**kw)
    try:
        with quiet_fd():
            ret = p.optimize()
    except RealDiverged:
        return dict(kind="diverged", log=[(th, ok, None) for th, ok, _ in p.tap_log], ret=None, p=p)
    except Exception as e:
        return dict(kind="raise", err=type(e).__name__ + ": " + str(e)[:200], log=[], ret=None, p=p)
    log, acc = [], None
    for k, (th, ok, _kw) in enumerate(p.tap_log):
        used = match_index(p.tap_seed[k] if k < len(p.tap_seed) else "missing", p.tap_res[:k], acc)
        log.append((th, ok, used))
        if ok:
            acc = k
    final = match_index(p.extract_results(0)["x"], p.tap_res, acc)
    return dict(kind="ok", ret=ret, log=log, p=p, final=[final])


def residual_at_theta_one(p, kw):
    """max |x' + p x + k x^2 - u - c| of the exposed results on the collocation grid (the
    ORIGINAL problem, homotopy parameter 1), implicit Euler"""
    worst = 0.0
    for m in range(kw["members"]):
        r = p.extract_results(m)
        t, x, u = np.array(kw["times"], dtype=float), r["x"], r["u"]
        c = np.array(kw["cvals"][m], dtype=float)
        res = (x[1:] - x[:-1]) / (t[1:] - t[:-1]) + kw["p"] * x[1:] + kw["k"] * x[1:] ** 2 - u[1:] - c[1:]
        worst = max(worst, float(np.max(np.abs(res))))
    return worst


def stream_real(c, n, oracle, compare, model_line):
    Plain, WithGP = make_classes()
    rng = c.rng
    cases = []
    for i in range(n):
        gp = i % 2 == 1
        nt = rng.choice([3, 4, 5])
        times = list(np.cumsum([0.0] + [rng.choice([0.5, 1.0, 1.5]) for _ in range(nt - 1)]))
        members = rng.choice([1, 1, 2])
        hopts = rng.choice([
            {}, {"delta_theta_0": 0.5}, {"theta_start": 0.5, "delta_theta_0": 0.25},
            {"delta_theta_0": 0.375, "delta_theta_min": 0.0625}, {"delta_theta_0": 0.3},
            {"theta_start": 0.25, "delta_theta_0": 1.0, "delta_theta_min": 0.125}, {"delta_theta_0": 2.0},
        ])
        ncalls = rng.choice([0, 2, 4, 6, 10])
        pfail = rng.choice([0.0, 0.25, 0.4, 0.6])
        script = [rng.random() >= pfail for _ in range(ncalls)]
        if rng.random() < 0.15:
            script = [False] + script
        kw = dict(times=times, p=rng.choice([0.25, 0.5, 1.0]), k=rng.choice([0.125, 0.3, 0.5]),
                  cvals=[[rng.choice([0.0, 0.5, 1.0]) for _ in times] for _ in range(members)],
                  target=rng.choice([1.5, 2.0, 3.0]), hname=rng.choice(["theta", "theta", "h"]),
                  hopts=hopts, script=script, members=members)
        cases.append((gp, kw))
    results, lines = [], []
    for gp, kw in cases:
        r = run_real(WithGP if gp else Plain, kw)
        results.append(r)
        outcomes = [e[1] for e in r["log"]]
        lines.append(model_line(kw["hopts"], outcomes, pad=2))
    outs = c.model(lines)
    from .c18 import exact_instance, full_opts

    for i, ((gp, kw), r) in enumerate(zip(cases, results)):
        stream = "real-gp" if gp else "real"
        opts = kw["hopts"]
        case = dict(stream="real", goal_programming=gp, options=opts, solver_script=kw["script"],
                    times=kw["times"], p=kw["p"], k=kw["k"], cvals=kw["cvals"], target=kw["target"],
                    members=kw["members"], hname=kw["hname"])
        exact = exact_instance(opts)
        c.count((stream, full_opts(opts), tuple(e[1] for e in r["log"]), r["ret"], kw["members"], len(kw["times"])))
        c.hit("real/programs")
        c.hit("%s/%s" % (stream, "raise" if r["kind"] != "ok" else ("success" if r["ret"] else "failure")))
        if r["kind"] == "diverged":
            c.fail("homotopy loop on a real problem did not end within %d solves" % REAL_FUEL, case,
                   {"thetas": [e[0] for e in r["log"]][:12]})
            continue
        if r["kind"] != "ok":
            c.fail("homotopy run on a real problem raised " + r.get("err", ""), case)
            continue
        if any(not e[1] for e in r["log"]) and r["ret"]:
            c.hit(stream + "/success-after-failures")
        c.sample(dict(case, ret=r["ret"], log=[(e[0], e[1]) for e in r["log"]]), limit=8)
        oracle(c, case, opts, r, exact)
        p = r["p"]
        if p.n_pre != 1 or p.n_post != 1:
            c.fail("pre()/post() ran %d/%d times" % (p.n_pre, p.n_post), case)
        if any(e[2] != (False, False) for e in p.tap_log):
            c.fail("inner optimize() called with pre/post-processing enabled", case)
        if r["ret"]:
            res = residual_at_theta_one(p, kw)
            if not res <= 1e-4:
                c.fail("successful run, but the exposed results do not satisfy the theta = 1 dynamics "
                       "(max residual %.3g)" % res, case)
        if outs is not None:
            compare(c, case, opts, r, outs[i], exact, stream)
