"""
C19 — interpolation and bound merging behave as documented for every input shape.

Proof obligations: lean/RtcVerif/Props/C19.lean + the modules generated from the source on every run
(Gen/InterpCode.lean, Gen/InterpCols.lean, Gen/MergeCode.lean: `interpolate` incl. its 2-D branch,
`__interpolate`, `casadi_helpers.interpolate`, the whole of `merge_bounds`, `Timeseries.__init__`).
Correspondence: the real `OptimizationProblem.interpolate`, `casadi_helpers.interpolate` and `merge_bounds`
against the Lean models `Interp` / `Merge` and the code-level reference `MergeCode.mergeBoundsRef` (values AND
int / float result types) through Drivers/C19.lean; independent Python oracle for the property itself
(failing-input search), incl. associativity of merge_bounds over three bound pairs.
"""
import bisect
import itertools
import math

import numpy as np

from .common import fr, same, unfr
from .translate_c19 import gen_interp_code, gen_interp_cols, gen_merge_code

NAN = float("nan")
INF = float("inf")


def make_problem():
    from rtctools.optimization.optimization_problem import OptimizationProblem

    ns = {m: (lambda self, *a, **k: None) for m in OptimizationProblem.__abstractmethods__}
    cls = type("InterpOnly", (OptimizationProblem,), ns)
    return object.__new__(cls)


# ---------------------------------------------------------------------------------------------
# independent oracle (the documented behaviour, bisect based)


def oracle_interp(mode, ts, fs, fl, fr, t):
    """returns ('raise',) or ('val', x, exact) -- `exact`: equality must be exact"""
    if mode not in (0, 1, 2):
        return ("raise",)
    if t < ts[0]:
        return ("raise",) if fl is None else ("val", fl, True)
    if t > ts[-1]:
        return ("raise",) if fr is None else ("val", fr, True)
    j = bisect.bisect_right(ts, t) - 1  # ts[j] <= t
    if ts[j] == t:
        return ("val", fs[j], True)
    if mode == 1:
        return ("val", fs[j], True)
    if mode == 2:
        return ("val", fs[j + 1], True)
    w = (t - ts[j]) / (ts[j + 1] - ts[j])
    return ("val", fs[j] + (fs[j + 1] - fs[j]) * w, False)


def val_ok(expected, got, exact):
    if isinstance(expected, float) and math.isnan(expected):
        return isinstance(got, float) and math.isnan(got) or (np.isscalar(got) and np.isnan(got))
    if exact:
        return float(got) == float(expected)
    return abs(float(got) - float(expected)) <= 1e-9 * max(1.0, abs(expected), abs(got))


# ---------------------------------------------------------------------------------------------
# generators


def gen_knots(rng, dyadic, epoch=False):
    n = rng.choice([1, 2, 2, 3, 3, 4, 5, 7])
    if epoch:
        # large absolute times (seconds since a distant reference date), as the I/O mixins produce
        base = rng.choice([10_000_000.0, 1_700_000_000.0, 86_400.0 * 365 * 20])
        step = rng.choice([600.0, 3600.0, 900.0])
        ks = sorted(rng.sample(range(0, 40), n))
        ts = [base + k * step for k in ks]
        fs = [float(rng.randint(-64, 64)) * 6 for _ in ts]
        return ts, fs
    if dyadic:
        ts = sorted(rng.sample([k / 8 for k in range(-40, 80)], n))
        fs = [rng.randint(-64, 64) / 16 for _ in ts]
    else:
        ts = sorted(set(round(rng.uniform(-5, 10), 3) for _ in range(n)))
        fs = [rng.choice([rng.uniform(-100, 100), 0.0, 1.0]) for _ in ts]
    return ts, fs


def gen_queries(rng, ts, k):
    n = len(ts)
    pool = list(ts)
    pool += [(ts[j] + ts[j + 1]) / 2 for j in range(n - 1)]
    pool += [ts[0] - 1, ts[0] - 0.125, ts[-1] + 0.5, ts[-1] + 3]
    if n > 1:
        pool += [ts[0] + (ts[1] - ts[0]) * 0.25, ts[-1] - (ts[-1] - ts[-2]) * 0.125]
    return [rng.choice(pool) if rng.random() < 0.8 else rng.uniform(ts[0] - 2, ts[-1] + 2) for _ in range(k)]


def gen_fill(rng):
    return rng.choice([NAN, NAN, None, 0.0, -7.5, INF, -INF, 3.25])


def wire_fill(f):
    return None if f is None else fr(f)


NONE_SENTINEL = -1.2345e300  # stands for a Python `None` leaking into a result: never a documented value


def _denone(r):
    if r is None:
        return NONE_SENTINEL
    if isinstance(r, np.ndarray) and r.dtype == object:
        flat = [NONE_SENTINEL if x is None else x for x in r.ravel()]
        return np.array(flat, dtype=float).reshape(r.shape)
    return r


def call(fn, *a, **k):
    try:
        return ("ok", _denone(fn(*a, **k)))
    except Exception as e:  # the implementation rejects the input
        return ("raise", type(e).__name__)


# ---------------------------------------------------------------------------------------------


def stream_numeric(c, prob, N):
    rng = c.rng
    cases, lines = [], []
    for i in range(N):
        dy = rng.random() < 0.5
        epoch = rng.random() < 0.15
        ts, fs = gen_knots(rng, dy, epoch)
        mode = rng.choice([0, 0, 1, 1, 2, 2, 3]) if rng.random() < 0.1 else rng.choice([0, 1, 2])
        fl, frr = gen_fill(rng), gen_fill(rng)
        kind = rng.choice(["scalar", "array", "array", "array_eq", "cols", "cols_scalar"])
        if kind in ("scalar", "cols_scalar"):
            q = gen_queries(rng, ts, 1)
        elif kind == "array_eq":
            q = list(ts)
        else:
            q = gen_queries(rng, ts, rng.randint(1, 6))
            if epoch or rng.random() < 0.15:
                # a query array as long as the knot vector and close to it (shifted grid): the
                # "nothing to interpolate" early exit must not fire
                shift = rng.choice([1.0, 60.0, -60.0, 0.125, -0.125, 30.0]) if epoch else rng.choice([0.125, -0.125, 0.5])
                q = [x + (shift if rng.random() < 0.8 else 0.0) for x in ts]
                c.hit("interp/near-knot-array")
            if len(q) == len(ts) and q == ts:
                kind = "array_eq"
        case = dict(kind=kind, mode=mode, ts=ts, fs=fs, fl=fl, fr=frr, q=q)
        if kind.startswith("cols"):
            ncol = rng.randint(1, 3)
            cols = [fs] + [[rng.randint(-64, 64) / 16 for _ in ts] for _ in range(ncol - 1)]
            case["cols"] = cols
            if kind == "cols_scalar":
                # model: the scalar path applied to every column (interpColumnsScalar)
                lines.append(dict(op="interp2s", mode=mode, ts=[fr(x) for x in ts],
                                  cols=[[fr(x) for x in col] for col in cols],
                                  fl=wire_fill(fl), fr=wire_fill(frr), q=[fr(q[0])]))
                case["nlines"] = 1
            else:
                lines.append(dict(op="interp2", mode=mode, ts=[fr(x) for x in ts],
                                  cols=[[fr(x) for x in col] for col in cols],
                                  fl=wire_fill(fl), fr=wire_fill(frr), q=[fr(x) for x in q]))
                case["nlines"] = 1
        else:
            lines.append(dict(op="interp", mode=mode, ts=[fr(x) for x in ts], fs=[fr(x) for x in fs],
                              fl=wire_fill(fl), fr=wire_fill(frr), q=[fr(x) for x in q],
                              scalar=(kind == "scalar")))
            case["nlines"] = 1
        cases.append(case)
    outs = c.model(lines)
    pos = 0
    for case in cases:
        kind, mode, ts, fs, fl, frr, q = (case[k] for k in ("kind", "mode", "ts", "fs", "fl", "fr", "q"))
        tsa = np.array(ts, dtype=float)
        exact_mode = mode != 0
        # ---- implementation
        if kind == "scalar":
            r = call(prob.interpolate, float(q[0]), tsa, np.array(fs, dtype=float), fl, frr, mode)
            impl = r if r[0] == "raise" else ("ok", [[float(r[1])]])
            colsv = [fs]
        elif kind in ("array", "array_eq"):
            fsm = np.array(fs, dtype=float)
            r = call(prob.interpolate, np.array(q, dtype=float), tsa, fsm, fl, frr, mode)
            impl = r if r[0] == "raise" else ("ok", [list(map(float, np.asarray(r[1]).ravel()))])
            colsv = [fs]
        elif kind == "cols":
            fsm = np.array(case["cols"], dtype=float).T
            r = call(prob.interpolate, np.array(q, dtype=float), tsa, fsm, fl, frr, mode)
            impl = r if r[0] == "raise" else ("ok", [list(map(float, np.asarray(r[1])[:, j])) for j in range(fsm.shape[1])])
            colsv = case["cols"]
        else:  # cols_scalar
            fsm = np.array(case["cols"], dtype=float).T
            r = call(prob.interpolate, float(q[0]), tsa, fsm, fl, frr, mode)
            impl = r if r[0] == "raise" else ("ok", [[float(x)] for x in np.asarray(r[1]).ravel()])
            colsv = case["cols"]
        # ---- the result is a fresh value: writing into it must not reach the caller's series
        #      (history form of "exact at the knots": a second interpolation of the same arrays)
        if r[0] == "ok" and isinstance(r[1], np.ndarray) and r[1].ndim >= 1 and r[1].flags.writeable:
            fs_in = fsm if kind != "scalar" else None
            if fs_in is not None:
                before = fs_in.copy()
                r[1][...] = 12345.678
                c.hit("interp/result-written")
                if not np.array_equal(fs_in, before, equal_nan=True):
                    r2 = call(prob.interpolate, float(q[0]) if kind == "cols_scalar" else np.array(q, dtype=float),
                              tsa, fs_in, fl, frr, mode)
                    c.fail("writing into the result of interpolate changed the caller's series (the result "
                           "aliases its input): the next interpolation of the same series is wrong at its knots",
                           case, {"series_after": fs_in.tolist(), "second_call": repr(r2[1])})
        c.count(("num", kind, mode, len(ts), fl is None, frr is None, tuple(q) == tuple(ts)))
        c.hit("interp/" + kind)
        c.hit("interp/mode%d" % mode)
        c.sample({"stream": "interpolate", **{k: case[k] for k in ("kind", "mode", "ts", "fs", "fl", "fr", "q")}})
        # ---- oracle on the implementation (the property; an invalid mode is outside it and is
        #      covered by the correspondence only)
        exp_cols = []
        raises = False
        if mode not in (0, 1, 2):
            colsv = []
            impl_for_oracle = None
        else:
            impl_for_oracle = impl
        for col in colsv:
            ec = []
            for t in q:
                o = oracle_interp(mode, ts, col, fl, frr, t)
                if o[0] == "raise":
                    raises = True
                ec.append(o)
            exp_cols.append(ec)
        if impl_for_oracle is None:
            pass
        elif raises:
            if impl[0] != "raise":
                c.fail("interpolate accepted a query it must reject", case, impl)
        elif impl[0] == "raise":
            c.fail("interpolate raised %s on a valid call" % impl[1], case)
        else:
            for ec, ic in zip(exp_cols, impl[1]):
                if len(ec) != len(ic) or not all(val_ok(o[1], g, o[2]) for o, g in zip(ec, ic)):
                    c.fail("interpolate value differs from the documented interpolant", case,
                           {"expected": [o[1] for o in ec], "got": ic})
                    break
        # ---- correspondence with the Lean model
        if outs is None:
            continue
        mo = outs[pos:pos + case["nlines"]]
        pos += case["nlines"]
        if kind == "cols":
            model = "raise" if mo[0] == "raise" else mo[0]
        elif kind == "cols_scalar":
            model = "raise" if mo[0] == "raise" else [[m] for m in mo[0]]
        elif kind == "scalar":
            model = "raise" if mo[0] == "raise" else [[mo[0]]]
        else:
            model = "raise" if mo[0] == "raise" else [mo[0]]
        if model == "raise" or impl[0] == "raise":
            if (model == "raise") != (impl[0] == "raise"):
                c.disagree("interpolate raise/value", case, model, impl)
            continue
        ok = len(model) == len(impl[1]) and all(
            len(a) == len(b) and all(same(x, y, exact=exact_mode) for x, y in zip(a, b))
            for a, b in zip(model, impl[1]))
        if not ok:
            c.disagree("interpolate value", case, model, impl[1])


def stream_symbolic(c, prob, N):
    import casadi as ca
    from rtctools._internal.casadi_helpers import interpolate as sym_interpolate

    rng = c.rng
    cases, lines = [], []
    for i in range(N):
        ts, fs = gen_knots(rng, rng.random() < 0.5)
        if len(ts) < 2:
            ts = [ts[0], ts[0] + 1.5]
            fs = [fs[0], fs[0] - 2.0]
        mode = rng.choice([0, 1, 2])
        q = gen_queries(rng, ts, rng.randint(1, 6))
        cases.append((mode, ts, fs, q))
        lines.append(dict(op="sym", mode=mode, ts=[fr(x) for x in ts], fs=[fr(x) for x in fs], q=[fr(x) for x in q]))
    outs = c.model(lines)
    for k, (mode, ts, fs, q) in enumerate(cases):
        case = dict(stream="symbolic", mode=mode, ts=ts, fs=fs, q=q)
        xs = ca.MX.sym("xs", len(ts))
        r = call(lambda: np.array(ca.Function("f", [xs], [sym_interpolate(ts, xs, q, False, mode)])(fs)).ravel())
        c.count(("sym", mode, len(ts), tuple(t < ts[0] or t > ts[-1] for t in q)))
        c.hit("symbolic/mode%d" % mode)
        if r[0] == "raise":
            c.fail("symbolic interpolate raised " + r[1], case)
            continue
        sym = list(map(float, r[1]))
        # property: agrees with the numeric interpolator everywhere on the knot range
        num = prob.interpolate(np.array(q, dtype=float), np.array(ts), np.array(fs, dtype=float), NAN, NAN, mode)
        for t, s, n in zip(q, sym, num):
            if ts[0] <= t <= ts[-1] and not abs(s - n) <= 1e-9 * max(1, abs(n)):
                c.fail("numeric and symbolic interpolators disagree inside the range", case, {"t": t, "sym": s, "num": float(n)})
                break
        if outs is not None:
            if not all(same(m, s, exact=(mode != 0)) for m, s in zip(outs[k], sym)):
                c.disagree("symbolic interpolate", case, outs[k], sym)


# ---- merge_bounds -----------------------------------------------------------------------------


def gen_side(rng, shape):
    """one side of a bound pair; `shape` fixes (ncomp, times) used by compatible sides"""
    ncomp, times = shape
    from rtctools.optimization.timeseries import Timeseries

    kind = rng.choice(["sc", "sc", "vec", "ts", "ts2", "vec1"])
    ev = lambda: rng.choice([float(rng.randint(-9, 9)), float(rng.randint(-9, 9)), rng.uniform(-5, 5), INF, -INF])  # noqa
    if rng.random() < 0.12:  # incompatible shape / times
        ncomp = ncomp + 1
        if rng.random() < 0.5:
            times = [t + 0.5 for t in times] if rng.random() < 0.5 else times + [times[-1] + 1]
    # integer-typed inputs (Python int, integer-dtype arrays) are legitimate bounds too (F19, F52)
    as_int = rng.random() < 0.3
    iv = lambda: float(rng.randint(-9, 9))  # noqa
    if kind == "sc":
        v = iv() if as_int else ev()
        return {"k": "sc", "int": as_int, "v": fr(v)}, (int(v) if as_int else v)
    if kind == "vec1":
        v = iv() if as_int else ev()
        return {"k": "vec", "int": as_int, "v": [fr(v)]}, (np.array([int(v)]) if as_int else np.array([v]))
    if kind == "vec":
        vs = [iv() if as_int else ev() for _ in range(ncomp)]
        return ({"k": "vec", "int": as_int, "v": [fr(v) for v in vs]},
                (np.array([int(v) for v in vs]) if as_int else np.array(vs)))
    if kind == "ts":
        vs = [ev() for _ in times]
        return {"k": "ts", "t": [fr(t) for t in times], "v": [fr(v) for v in vs]}, Timeseries(np.array(times), np.array(vs))
    rows = [[ev() for _ in range(ncomp)] for _ in times]
    return ({"k": "ts2", "t": [fr(t) for t in times], "v": [[fr(v) for v in r] for r in rows]},
            Timeseries(np.array(times), np.array(rows)))


def impl_side_to_wire(v):
    from rtctools.optimization.timeseries import Timeseries

    if isinstance(v, Timeseries):
        vals = np.asarray(v.values)
        if vals.ndim == 2:
            return {"k": "ts2", "t": [fr(t) for t in v.times], "v": [[fr(x) for x in r] for r in vals]}
        return {"k": "ts", "t": [fr(t) for t in v.times], "v": [fr(x) for x in vals]}
    if isinstance(v, np.ndarray):
        return {"k": "vec", "v": [fr(x) for x in v]}
    return {"k": "sc", "v": fr(float(v))}


def impl_side_to_typed(v):
    """as impl_side_to_wire, plus the int / float flag of the result (Python int vs float, array dtype)"""
    w = impl_side_to_wire(v)
    if isinstance(v, np.ndarray):
        w["int"] = v.dtype.kind in "iu"
    elif w["k"] == "sc":
        w["int"] = isinstance(v, (int, np.integer)) and not isinstance(v, bool)
    else:
        w["int"] = False
    return w


def side_at(w, i, j):
    """denotation of a wire side at (time index, component); None where undefined"""
    k = w["k"]
    try:
        if k == "sc":
            return unfr(w["v"])
        if k == "vec":
            return unfr(w["v"][0]) if len(w["v"]) == 1 else unfr(w["v"][j])
        if k == "ts":
            return unfr(w["v"][i])
        return unfr(w["v"][i][j])
    except IndexError:
        return None


def stream_merge(c, N):
    from rtctools.optimization.optimization_problem import OptimizationProblem

    rng = c.rng
    cases, lines, case3 = [], [], []
    for i in range(N):
        ncomp = rng.randint(2, 3)
        nt = rng.randint(2, 4) if rng.random() < 0.85 else 1   # one stamp: one-element / one-row values (F35)
        times = [float(x) for x in sorted(rng.sample(range(0, 12), nt))]
        shape = (ncomp, times)
        sides = [gen_side(rng, shape) for _ in range(4)]  # lo1 hi1 lo2 hi2
        if nt == 1:
            c.hit("merge/one-time-stamp")
        cases.append((shape, sides))
        case3.append([gen_side(rng, shape) for _ in range(2)])   # a third pair for the associativity oracle
        lines.append(dict(op="merge", a=[sides[0][0], sides[1][0]], b=[sides[2][0], sides[3][0]]))
        lines.append(dict(op="merge", a=[sides[2][0], sides[3][0]], b=[sides[0][0], sides[1][0]]))
        # the code-level reference (PyV: with the int / float distinction), both orders
        lines.append(dict(op="mergecode", a=[sides[0][0], sides[1][0]], b=[sides[2][0], sides[3][0]]))
        lines.append(dict(op="mergecode", a=[sides[2][0], sides[3][0]], b=[sides[0][0], sides[1][0]]))
    outs = c.model(lines)
    for k, (shape, sides) in enumerate(cases):
        w = [s[0] for s in sides]
        v = [s[1] for s in sides]
        case = dict(stream="merge_bounds", a=[w[0], w[1]], b=[w[2], w[3]])
        r1 = call(OptimizationProblem.merge_bounds, (v[0], v[1]), (v[2], v[3]))
        r2 = call(OptimizationProblem.merge_bounds, (v[2], v[3]), (v[0], v[1]))
        c.count(("merge", w[0]["k"], w[1]["k"], w[2]["k"], w[3]["k"], r1[0]))
        c.hit("merge/" + r1[0])
        c.sample(case, limit=6)
        i1 = "raise" if r1[0] == "raise" else [impl_side_to_wire(x) for x in r1[1]]
        i2 = "raise" if r2[0] == "raise" else [impl_side_to_wire(x) for x in r2[1]]
        # ---- oracle: compatible shapes must be accepted, incompatible ones rejected (both orders)
        comp = _compatible(w[0], w[2]) and _compatible(w[1], w[3])
        if comp and (i1 == "raise" or i2 == "raise"):
            c.fail("merge_bounds rejects bound pairs of compatible shapes", case, {"ab": r1[1] if i1 == "raise" else "ok", "ba": r2[1] if i2 == "raise" else "ok"})
        elif not comp and (i1 != "raise" or i2 != "raise"):
            c.fail("merge_bounds accepts bound pairs of incompatible shapes or time stamps", case, {"ab": i1, "ba": i2})
        # ---- oracle: order independence, element-wise max/min wherever both sides are defined
        if (i1 == "raise") != (i2 == "raise"):
            c.fail("merge_bounds accepts one argument order and rejects the other", case, {"ab": i1, "ba": i2})
        elif i1 != "raise":
            if not _sides_equal(i1, i2):
                c.fail("merge_bounds depends on the argument order", case, {"ab": i1, "ba": i2})
            nt, nc = len(shape[1]) + 1, shape[0] + 1
            for (a, b, m, f, nm) in ((w[0], w[2], i1[0], max, "lower"), (w[1], w[3], i1[1], min, "upper")):
                bad = None
                for ti in range(nt):
                    for cj in range(nc):
                        x, y, z = side_at(a, ti, cj), side_at(b, ti, cj), side_at(m, ti, cj)
                        if x is not None and y is not None and (z is None or f(x, y) != z):
                            bad = (ti, cj, x, y, z)
                if bad:
                    c.fail("merged %s bound is not the element-wise %s" % (nm, f.__name__), case, bad)
        # ---- oracle: associativity with the rejection cases (`merge_assoc`): a third pair, both groupings
        third = case3[k]
        w3, v3 = [s[0] for s in third], [s[1] for s in third]
        r23 = call(OptimizationProblem.merge_bounds, (v[2], v[3]), (v3[0], v3[1]))
        left = r1 if r1[0] == "raise" else call(OptimizationProblem.merge_bounds, r1[1], (v3[0], v3[1]))
        right = r23 if r23[0] == "raise" else call(OptimizationProblem.merge_bounds, (v[0], v[1]), r23[1])
        c.hit("merge/assoc-" + ("raise" if left[0] == "raise" else "ok"))
        acase = dict(stream="merge_bounds associativity", a=[w[0], w[1]], b=[w[2], w[3]], c=w3)
        if (left[0] == "raise") != (right[0] == "raise"):
            c.fail("merge_bounds: one grouping of three bound pairs is accepted, the other rejected", acase,
                   {"(ab)c": left[0], "a(bc)": right[0]})
        elif left[0] != "raise":
            il = [impl_side_to_wire(x) for x in left[1]]
            ir = [impl_side_to_wire(x) for x in right[1]]
            if not _sides_equal(il, ir):
                c.fail("merge_bounds is not associative", acase, {"(ab)c": il, "a(bc)": ir})
        # ---- correspondence
        if outs is None:
            continue
        for (mo, im, what) in ((outs[4 * k], i1, "merge(a,b)"), (outs[4 * k + 1], i2, "merge(b,a)")):
            if mo == "raise" or im == "raise":
                if (mo == "raise") != (im == "raise"):
                    c.disagree(what + " raise/value", case, mo, im)
            elif not _sides_equal(mo, im):
                c.disagree(what, case, mo, im)
        # code-level reference: values AND result types (Python float vs int, dtype of vectors)
        t1 = "raise" if r1[0] == "raise" else [impl_side_to_typed(x) for x in r1[1]]
        t2 = "raise" if r2[0] == "raise" else [impl_side_to_typed(x) for x in r2[1]]
        for (mo, im, what) in ((outs[4 * k + 2], t1, "merge_bounds code-level (a,b)"),
                               (outs[4 * k + 3], t2, "merge_bounds code-level (b,a)")):
            if mo == "raise" or im == "raise":
                if (mo == "raise") != (im == "raise"):
                    c.disagree(what + " raise/value", case, mo, im)
            elif not _sides_equal(mo, im) or [bool(x.get("int")) for x in mo] != [bool(x.get("int")) for x in im]:
                c.disagree(what + " value / result type", case, mo, im)
        if r1[0] != "raise":
            c.hit("merge/result-" + "-".join(("int" if x.get("int") else "float") + x["k"] for x in t1))


def _compatible(a, b):
    """documented compatibility of two sides (a single-element vector counts as a scalar)"""
    def kind(w):
        return "sc" if (w["k"] == "vec" and len(w["v"]) == 1) else w["k"]

    ka, kb = kind(a), kind(b)
    if ka == "sc" or kb == "sc":
        return True
    if ka == "vec" and kb == "vec":
        return len(a["v"]) == len(b["v"])
    if {ka, kb} == {"vec", "ts2"}:
        v, t = (a, b) if ka == "vec" else (b, a)
        return all(len(r) == len(v["v"]) for r in t["v"])
    if ka == kb and ka in ("ts", "ts2"):
        return a["t"] == b["t"] and [len(r) if isinstance(r, list) else 1 for r in a["v"]] == \
            [len(r) if isinstance(r, list) else 1 for r in b["v"]]
    return False  # vec with 1-D Timeseries, 1-D with 2-D Timeseries


def _sides_equal(a, b):
    def norm(w):
        k = w["k"]
        if k == "sc":
            return ("sc", unfr(w["v"]))
        if k == "vec":
            return ("vec", tuple(unfr(x) for x in w["v"]))
        if k == "ts":
            return ("ts", tuple(unfr(x) for x in w["t"]), tuple(unfr(x) for x in w["v"]))
        return ("ts2", tuple(unfr(x) for x in w["t"]), tuple(tuple(unfr(x) for x in r) for r in w["v"]))

    return [norm(x) for x in a] == [norm(x) for x in b]


def stream_exhaustive(c, prob):
    """all positions of a query relative to <= 3 knots x modes x fills (support; complete for this
    sub-space because the kernels only compare and select)"""
    cases, lines = [], []
    for n in (1, 2, 3):
        ts = [float(2 * k) for k in range(n)]
        fs = [1.0 + 3 * k * (-1) ** k for k in range(n)]
        pos = [-1.0] + [x for k in range(n) for x in ([2.0 * k, 2.0 * k + 1] if k < n - 1 else [2.0 * k])] + [2.0 * n]
        for mode, t, fl, frr in itertools.product((0, 1, 2), pos, (NAN, None, 5.0), (NAN, None, -5.0)):
            cases.append((mode, ts, fs, fl, frr, t))
            lines.append(dict(op="interp", mode=mode, ts=[fr(x) for x in ts], fs=[fr(x) for x in fs],
                              fl=wire_fill(fl), fr=wire_fill(frr), q=[fr(t)], scalar=True))
    outs = c.model(lines)
    for k, (mode, ts, fs, fl, frr, t) in enumerate(cases):
        case = dict(stream="exhaustive", mode=mode, ts=ts, fs=fs, fl=fl, fr=frr, q=[t])
        r = call(prob.interpolate, t, np.array(ts), np.array(fs), fl, frr, mode)
        o = oracle_interp(mode, ts, fs, fl, frr, t)
        c.count(("exh", mode, len(ts), t, fl is None, frr is None))
        c.hit("exhaustive")
        if (o[0] == "raise") != (r[0] == "raise"):
            c.fail("interpolate raise behaviour", case, r)
        elif o[0] != "raise" and not val_ok(o[1], float(r[1]), o[2]):
            c.fail("interpolate value differs from the documented interpolant", case, {"expected": o[1], "got": float(r[1])})
        if outs is not None:
            mo = outs[k]
            if (mo == "raise") != (r[0] == "raise") or (mo != "raise" and not same(mo, float(r[1]), exact=True)):
                c.disagree("interpolate (exhaustive small scope)", case, mo, r)


CORPUS = [
    # F20 (fixed): scalar query with 2-D values
    dict(kind="cols_scalar", mode=0, ts=[0.0, 1.0, 2.0], cols=[[1.0, 2.0, 4.0], [10.0, 20.0, 40.0]], q=[0.5]),
]


def run_corpus(c, prob):
    from rtctools.optimization.optimization_problem import OptimizationProblem

    for case in CORPUS:
        fsm = np.array(case["cols"], dtype=float).T
        r = call(prob.interpolate, case["q"][0], np.array(case["ts"]), fsm, NAN, NAN, case["mode"])
        c.count(("corpus", "F20"))
        exp = [oracle_interp(case["mode"], case["ts"], col, NAN, NAN, case["q"][0])[1] for col in case["cols"]]
        if r[0] == "raise" or not np.allclose(np.asarray(r[1]).ravel(), exp):
            c.fail("interpolate(scalar t, 2-D fs)", case, r)
    # F52 (fixed): float scalar against an integer-dtype vector
    r = call(OptimizationProblem.merge_bounds, (2.5, 3), (np.array([1, 4, 1]), 4))
    c.count(("corpus", "F52"))
    if r[0] == "raise" or list(map(float, r[1][0])) != [2.5, 4.0, 2.5] or float(r[1][1]) != 3.0:
        c.fail("merge_bounds((2.5, 3), (array([1, 4, 1]), 4))", {"a": [2.5, 3], "b": [[1, 4, 1], 4]}, r)
    # F19 (fixed): int and float scalar bounds mixed
    r = call(OptimizationProblem.merge_bounds, (0, 1), (0.5, 2.0))
    c.count(("corpus", "F19"))
    if r[0] == "raise" or tuple(map(float, r[1])) != (0.5, 1.0):
        c.fail("merge_bounds((0, 1), (0.5, 2.0))", {"a": [0, 1], "b": [0.5, 2.0]}, r)


def generated(c):
    """source-to-Lean translation on every run: the generated modules and their obligations"""
    extra = gen_interp_code(c)
    if extra:
        extra = extra + gen_interp_cols(c)      # imports Gen/InterpCode.lean
    else:
        c.broken.append(("translator: OptimizationProblem.interpolate (2-D branch)",
                         "not generated: the 1-D paths it calls were not translated"))
    return extra + gen_merge_code(c)


def run(c):
    c.rule = (
        "random knot vectors (1-7 knots, dyadic and decimal), queries on/between/left/right of knots, "
        "scalar/array/early-exit/2-D forms, modes 0-2 (+ invalid), fills NaN/None/finite/inf; symbolic "
        "interpolant at numeric queries; merge_bounds over all kind pairs (int / float scalars, integer- / float-dtype "
        "vectors, 1-D / 2-D Timeseries, one and several time stamps) incl. incompatible shapes, both argument "
        "orders and a third pair for associativity; plus the exhaustive small-scope table.  distinct = (stream, kind, mode, "
        "#knots, fill kinds, outcome class) tuples"
    )
    c.assumptions = [
        "NumPy `interp`/`searchsorted`, CasADi `interp1d` evaluate as documented (re-stated in the model, tied by this run)",
        "linear mode compared with 1e-9 relative tolerance (binary64 vs exact rationals); all other observables exactly",
        "NaN-valued bounds are outside the merge model (the code's callers replace them beforehand)",
        "merge_bounds / Timeseries.__init__ are translated over a typed universe of Python values (int, float, "
        "integer- / float-dtype 1-D arrays, 1-D / 2-D Timeseries); np.full_like / broadcast_to / maximum / minimum "
        "are re-stated primitives (tied by the code-level correspondence of this run); the equality with the model "
        "holds for Timeseries built by __init__ (one-element 1-D values => one time stamp) with >= 1 row in 2-D values",
    ]
    c.prove(extra=generated(c))
    prob = make_problem()
    run_corpus(c, prob)
    stream_exhaustive(c, prob)
    stream_numeric(c, prob, c.n(1500, 40000))
    stream_symbolic(c, prob, c.n(150, 3000))
    stream_merge(c, c.n(600, 12000))
    c.exhaustive = False
    c.notes.append("exhaustive small-scope table (positions x modes x fills for <= 3 knots) run in full; "
                   "random streams are samples; the unbounded claim is carried by the theorems")


def replay(c, rp):
    c.prove(extra=generated(c))
    prob = make_problem()
    for f in rp.get("failures", []) + rp.get("correspondence_disagreements", []):
        print("replaying", f["what"], f["case"])
    run_corpus(c, prob)
    stream_exhaustive(c, prob)
