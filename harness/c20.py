"""
C20 — lookup tables evaluate, fit and invert their splines faithfully.

Proof obligations: lean/RtcVerif/Props/C20.lean.  Correspondence: the real CasADi functions of
`BSpline1D` / `BSpline2D`, `LookupTable.__call__` / `reverse_call`, `BSpline1D.fit` and the fit cache
of `CSVLookupTableMixin.pre()` against the Lean model (Drivers/C20.lean); independent oracles:
scipy `splev` / `bisplev` (evaluation, derivatives), an independent QP / least-squares reference
(fit), and the property re-stated in plain Python (inverse lookup, cache reuse).
"""
import contextlib
import logging
import math
import os
import shutil
import tempfile

import numpy as np

from .common import fr, quiet_fd, unfr

NAN = float("nan")
INF = float("inf")

# ---------------------------------------------------------------------------------------------
# helpers


def call(fn, *a, **k):
    try:
        return ("ok", fn(*a, **k))
    except Exception as e:  # the implementation rejects the input
        return ("raise", type(e).__name__, str(e))


def close(model, impl, scale, rtol=1e-9):
    """model: wire string; impl: float; tolerance relative to the magnitude of the coefficients"""
    m = unfr(model) if isinstance(model, str) else model
    impl = float(impl)
    if isinstance(m, float):
        return math.isnan(impl) if math.isnan(m) else impl == m
    if math.isnan(impl) or math.isinf(impl):
        return False
    return abs(float(m) - impl) <= rtol * max(scale, abs(float(m)), abs(impl)) + 1e-300


def fclose(a, b, scale, rtol=1e-9):
    a, b = float(a), float(b)
    if math.isnan(a) or math.isnan(b):
        return math.isnan(a) and math.isnan(b)
    return abs(a - b) <= rtol * max(scale, abs(a), abs(b))


def model(c, lines):
    """run the driver; an instance the driver refuses (`bad-op`: outside the hypotheses of the model)
    is recorded and then treated like a model-side rejection"""
    outs = c.model(lines)
    if outs is None:
        return None
    bad = [i for i, o in enumerate(outs) if o in ("bad-op", "bad-json")]
    if bad:
        c.broken.append(("model driver", "%d instance(s) outside the model's hypotheses, first: %s"
                         % (len(bad), str(lines[bad[0]])[:300])))
        outs = ["raise" if i in set(bad) else o for i, o in enumerate(outs)]
    return outs


def frs(xs):
    return [fr(float(x)) for x in xs]


def is_clamped(t, k):
    n = len(t)
    return n >= 2 * (k + 1) and all(t[i] == t[0] for i in range(k + 1)) and all(t[n - 1 - i] == t[-1] for i in range(k + 1))


# ---------------------------------------------------------------------------------------------
# generators


def gen_number(rng, dyadic, lo, hi):
    if dyadic:
        return rng.randint(int(lo * 8), int(hi * 8)) / 8
    return round(rng.uniform(lo, hi), 3)


def gen_knots(rng, k, style, dyadic):
    """a non-decreasing knot vector with at least k + 2 entries"""
    a = gen_number(rng, dyadic, -5, 5)
    span = rng.choice([1.0, 2.5, 10.0, 0.125]) if dyadic else round(rng.uniform(0.2, 12), 3)
    b = a + span
    ni = rng.choice([0, 0, 1, 2, 3, 4, 6])
    interior = []
    for _ in range(ni):
        if interior and rng.random() < 0.3:
            interior.append(rng.choice(interior))  # repeated interior knot
        else:
            u = rng.randint(1, 15) / 16 if dyadic else rng.uniform(0.02, 0.98)
            interior.append(a + span * u)
    interior.sort()
    # multiplicity of an interior knot at most k + 1
    out = []
    for v in interior:
        if out.count(v) < k + 1:
            out.append(v)
    interior = out
    if style == "clamped":
        t = [a] * (k + 1) + interior + [b] * (k + 1)
    elif style == "fitlike":
        d = 1e-4
        t = [a - d] * (k + 1) + interior + [b + d] * (k + 1)
    elif style == "overfull":  # more than k + 1 copies of an end knot (scipy gives no reference there)
        t = [a] * (k + 1 + rng.randint(0, 1)) + interior + [b] * (k + 2)
    else:  # open: simple or partially repeated end knots
        left = sorted(a - span * rng.randint(0, 3) / 8 for _ in range(k + 1))
        right = sorted(b + span * rng.randint(0, 3) / 8 for _ in range(k + 1))
        t = left + interior + right
    return [float(x) for x in t]


def gen_weights(rng, m, dyadic, shape=None):
    shape = shape or rng.choice(["any", "any", "inc", "dec", "unit", "const"])
    if shape == "unit":
        w = [0.0] * m
        w[rng.randrange(m)] = 1.0
    elif shape == "const":
        w = [gen_number(rng, dyadic, -50, 50)] * m
    else:
        w = [gen_number(rng, dyadic, -100, 100) for _ in range(m)]
        if rng.random() < 0.25:
            w[rng.randrange(m)] = rng.choice([0.0, 1.0])
        if shape == "inc":
            w = sorted(w)
        elif shape == "dec":
            w = sorted(w, reverse=True)
    return [float(x) for x in w]


def gen_queries(rng, t, nrand=6):
    t0, t1 = t[0], t[-1]
    ks = sorted(set(t))
    q = list(ks)
    q += [np.nextafter(t0, INF), np.nextafter(t1, -INF)]
    q += [(a + b) / 2 for a, b in zip(ks[:-1], ks[1:])]
    q += [rng.uniform(t0, t1) for _ in range(nrand)]
    q += [np.nextafter(v, -INF) for v in ks[1:-1][:2]]
    q += [t0 - 0.5, t1 + 0.25, np.nextafter(t0, -INF), np.nextafter(t1, INF)]
    return [float(x) for x in q]


# ---------------------------------------------------------------------------------------------
# 1-D evaluation


def impl_function_1d(t, w, k):
    import casadi as ca
    from rtctools.data.interpolation.bspline1d import BSpline1D

    sx = ca.SX.sym("x")
    expr = BSpline1D(np.array(t), np.array(w), k)(sx)
    f = ca.Function("f", [sx], [expr])
    return sx, expr, f


def check_table_1d(c, case, t, w, k, q, model_vals, model_d1=None, model_d2=None):
    """one 1-D table: real CasADi function and LookupTable.__call__ vs model and vs scipy"""
    import casadi as ca
    from scipy.interpolate import splev

    from rtctools.optimization.csv_lookup_table_mixin import LookupTable
    from rtctools.optimization.timeseries import Timeseries

    n = len(t)
    m = n - k - 1
    r = call(impl_function_1d, t, w, k)
    if r[0] == "raise":
        if len(w) >= m:
            c.fail("BSpline1D raised %s on a well-formed table" % r[1], case, r[2])
        if model_vals is not None and model_vals != "raise":
            c.disagree("b1 raise/value", case, model_vals, r[1:])
        c.hit("eval1d/raise")
        return None
    sx, expr, f = r[1]
    if model_vals == "raise":
        c.disagree("b1 raise/value", case, model_vals, "value")
        model_vals = None
    scale = max(1.0, max(abs(x) for x in w[:m]))
    impl = [float(f(x)) for x in q]
    # ---- correspondence with the model (every query, inside and outside the knot range)
    if model_vals is not None:
        bad = [(x, mv, iv) for x, mv, iv in zip(q, model_vals, impl) if not close(mv, iv, scale)]
        if bad:
            c.disagree("BSpline1D value", case, [b[1] for b in bad[:5]], [(b[0], b[2]) for b in bad[:5]])
    # ---- oracle: the reference B-spline (scipy), on the domain
    wpad = np.concatenate([np.array(w[:m], dtype=float), np.zeros(k + 1)])
    tt = np.array(t, dtype=float)
    clamped = is_clamped(t, k)
    overfull = t.count(t[0]) > k + 1 or t.count(t[-1]) > k + 1
    lo, hi = (t[0], t[-1]) if clamped else (t[k], t[n - k - 1])
    nref = 0
    for x, iv in zip(q, impl):
        inside = (lo <= x <= hi) if clamped else (lo <= x < hi)
        if not inside or overfull:
            continue
        ref = float(splev(x, (tt, wpad, k)))
        nref += 1
        if not fclose(ref, iv, scale):
            c.fail("1-D spline differs from the reference B-spline (scipy splev) on its domain",
                   dict(case, x=x), {"impl": iv, "reference": ref})
            break
    c.hit("eval1d/reference-points", nref)
    # ---- LookupTable numeric call (scalar, list, array, NaN, Timeseries)
    lt = LookupTable([sx], f, (tt, np.array(w, dtype=float), k))
    qq = q[: min(len(q), 8)]
    sc = [lt(x) for x in qq[:3]]
    if not all(isinstance(v, float) and v == iv for v, iv in zip(sc, impl)):
        c.fail("LookupTable scalar call differs from its CasADi function", case, sc)
    arr = lt(qq + [NAN])
    if not (isinstance(arr, np.ndarray) and len(arr) == len(qq) + 1 and math.isnan(arr[-1])
            and all(a == b for a, b in zip(arr[:-1], impl))):
        c.fail("LookupTable list call: values differ or NaN input does not give NaN", case, arr)
    if not math.isnan(lt(NAN)):
        c.fail("LookupTable(NaN) is not NaN", case, lt(NAN))
    ts = lt(Timeseries(np.arange(len(qq) + 1.0), np.array([NAN] + qq)))
    if not (isinstance(ts, Timeseries) and math.isnan(ts.values[0]) and list(ts.values[1:]) == impl[: len(qq)]
            and list(ts.times) == list(np.arange(len(qq) + 1.0))):
        c.fail("LookupTable Timeseries call", case, getattr(ts, "values", ts))
    # ---- domain: what users reach through `domain` lies inside the knot range, covers it up to one
    #      ulp at each end, and the table equals the reference spline at both domain ends
    dom = lt.domain
    if not (t[0] <= dom[0] <= np.nextafter(t[0], INF) and np.nextafter(t[-1], -INF) <= dom[1] <= t[-1]):
        c.fail("LookupTable.domain is not the knot range (up to one ulp)", case, dom)
    elif clamped and not overfull:
        for x in dom:
            ref = float(splev(x, (tt, wpad, k)))
            if not fclose(ref, lt(float(x)), scale):
                c.fail("table differs from the reference B-spline at an end of its domain", dict(case, x=float(x)),
                       {"impl": lt(float(x)), "reference": ref})
    rng_ = lt.range
    if not (rng_[0] == lt(float(dom[0])) and rng_[1] == lt(float(dom[1]))):
        c.fail("LookupTable.range is not the pair of values at the domain ends", case, rng_)
    # ---- derivative formula of the model vs CasADi's derivative of the real expression
    if model_d1 is not None and k >= 1:
        J = ca.jacobian(expr, sx)
        H = ca.jacobian(J, sx)
        fj = ca.Function("J", [sx], [J, H])
        span = max(t[-1] - t[0], 1e-9)
        hmin = min([b - a for a, b in zip(sorted(set(t))[:-1], sorted(set(t))[1:])] or [span])
        for idx, x in enumerate(q):
            if not (t[0] <= x < t[-1]):
                continue
            j, h = fj(x)
            j, h = float(j), float(h)
            s1 = scale * k / hmin
            if not close(model_d1[idx], j, s1, rtol=1e-7):
                c.disagree("first derivative formula", dict(case, x=x), model_d1[idx], j)
                break
            if model_d2 is not None and k >= 2:
                s2 = s1 * (k - 1) / hmin
                if not close(model_d2[idx], h, s2, rtol=1e-7):
                    c.disagree("second derivative formula", dict(case, x=x), model_d2[idx], h)
                    break
            # independent oracle for the derivatives (right-continuous at knots, like the code)
            if lo <= x < hi and x not in t and not overfull:
                r1 = float(splev(x, (tt, wpad, k), der=1))
                if not fclose(r1, j, s1, rtol=1e-7):
                    c.fail("derivative of the 1-D spline differs from scipy splev(der=1)", dict(case, x=x),
                           {"impl": j, "reference": r1})
                    break
    return lt


def stream_eval1d(c, N):
    rng = c.rng
    cases, lines = [], []
    for _ in range(N):
        k = rng.choice([0, 1, 1, 2, 2, 3, 3, 3, 3, 4])
        style = rng.choice(["clamped", "clamped", "clamped", "clamped", "fitlike", "fitlike", "open", "open", "overfull"])
        dyadic = rng.random() < 0.5
        t = gen_knots(rng, k, style, dyadic)
        m = len(t) - k - 1
        w = gen_weights(rng, m, dyadic)
        pad = rng.choice(["exact", "scipy", "junk", "short"]) if rng.random() < 0.5 else "exact"
        if pad == "scipy":
            w = w + [0.0] * (k + 1)
        elif pad == "junk":
            w = w + [gen_number(rng, dyadic, -100, 100) for _ in range(k + 1)]
        elif pad == "short":
            w = w[:-1]
        q = gen_queries(rng, t)
        case = dict(stream="eval1d", t=t, w=w, k=k, style=style, pad=pad)
        cases.append((case, t, w, k, q))
        lines.append(dict(op="b1", t=frs(t), w=frs(w), k=k, q=frs(q)))
        lines.append(dict(op="d1", t=frs(t), w=frs(w), k=k, d=1, q=frs(q)))
        lines.append(dict(op="d1", t=frs(t), w=frs(w), k=k, d=2, q=frs(q)))
    outs = model(c, lines)
    for i, (case, t, w, k, q) in enumerate(cases):
        mv = outs[3 * i] if outs is not None else None
        d1 = outs[3 * i + 1] if outs is not None and outs[3 * i + 1] != "raise" else None
        d2 = outs[3 * i + 2] if outs is not None and outs[3 * i + 2] != "raise" else None
        c.count(("eval1d", k, case["style"], case["pad"], len(t), len(set(t))), n=len(q))
        c.hit("eval1d/k%d" % k)
        c.hit("eval1d/" + case["style"])
        c.hit("eval1d/pad-" + case["pad"])
        c.sample(dict(case, q=q[:6]), limit=2)
        check_table_1d(c, case, t, w, k, q, mv, d1, d2)
    c.programs += len(cases)


def stream_exhaustive(c, big):
    """every multiplicity pattern of short knot vectors over {0,1,2,3} x orders 0-2 x query positions
    (on every knot value, between, outside): ties the model to the code on all repeated-knot /
    empty-span / end-point branches of the recursion (support, not proof)"""
    import itertools

    vals = [0.0, 1.0, 2.0, 3.0]
    q = [-0.5, 0.0, 0.5, 1.0, 1.5, 2.0, 2.5, 3.0, 3.5]
    cases, lines = [], []
    for k in (0, 1, 2):
        for n in range(k + 2, k + (5 if big else 4)):
            for t in itertools.combinations_with_replacement(vals, n):
                if t[0] == t[-1]:
                    continue
                t = list(t)
                w = [float(p) for p in (2, 3, 5, 7, 11, 13, 17)[: n - k - 1]]
                cases.append((t, w, k))
                lines.append(dict(op="b1", t=frs(t), w=frs(w), k=k, q=frs(q)))
    outs = model(c, lines)
    from scipy.interpolate import splev

    for i, (t, w, k) in enumerate(cases):
        case = dict(stream="eval1d", origin="exhaustive", t=t, w=w, k=k, style="exhaustive", pad="exact")
        r = call(impl_function_1d, t, w, k)
        c.count(("exh", k, tuple(t)), n=len(q))
        c.hit("exhaustive/k%d" % k)
        if r[0] == "raise":
            c.fail("BSpline1D raised %s on a well-formed table" % r[1], case, r[2])
            continue
        impl = [float(r[1][2](x)) for x in q]
        if outs is not None and (outs[i] == "raise" or not all(close(m, v, 17.0) for m, v in zip(outs[i], impl))):
            c.disagree("BSpline1D value (exhaustive small scope)", case, outs[i], impl)
        # reference where scipy defines one: regular end multiplicities, inside the base interval
        n = len(t)
        if max(t.count(v) for v in t) <= k + 1:
            wpad = np.concatenate([np.array(w), np.zeros(k + 1)])
            clamped = is_clamped(t, k)
            lo, hi = (t[0], t[-1]) if clamped else (t[k], t[n - k - 1])
            for x, v in zip(q, impl):
                if (lo <= x <= hi) if clamped else (lo <= x < hi):
                    ref = float(splev(x, (np.array(t), wpad, k)))
                    if not fclose(ref, v, 17.0):
                        c.fail("1-D spline differs from the reference B-spline (scipy splev) on its domain",
                               dict(case, x=x), {"impl": v, "reference": ref})
                        break
    c.programs += len(cases)
    return len(cases)


# ---------------------------------------------------------------------------------------------
# 2-D evaluation


def impl_function_2d(tx, ty, w, kx, ky):
    import casadi as ca
    from rtctools.data.interpolation.bspline2d import BSpline2D

    sx, sy = ca.SX.sym("x"), ca.SX.sym("y")
    f = ca.Function("f", [sx, sy], [BSpline2D(np.array(tx), np.array(ty), np.array(w), kx, ky)(sx, sy)])
    return sx, sy, f


def check_table_2d(c, case, tx, ty, w, kx, ky, q, model_vals):
    from scipy.interpolate import bisplev

    from rtctools.optimization.csv_lookup_table_mixin import LookupTable

    mx, my = len(tx) - kx - 1, len(ty) - ky - 1
    r = call(impl_function_2d, tx, ty, w, kx, ky)
    if r[0] == "raise":
        if len(w) >= mx * my:
            c.fail("BSpline2D raised %s on a well-formed table" % r[1], case, r[2])
        if model_vals is not None and model_vals != "raise":
            c.disagree("b2 raise/value", case, model_vals, r[1:])
        c.hit("eval2d/raise")
        return
    sx, sy, f = r[1]
    if model_vals == "raise":
        c.disagree("b2 raise/value", case, model_vals, "value")
        model_vals = None
    scale = max(1.0, max(abs(x) for x in w[: mx * my]))
    lt = LookupTable([sx, sy], f, (np.array(tx), np.array(ty), np.array(w), kx, ky))
    impl = [float(f(x, y)) for x, y in q]
    viaLT = [lt(x, y) for x, y in q[:6]]
    if not all(float(a) == b for a, b in zip(viaLT, impl)):
        c.fail("2-D LookupTable call differs from its CasADi function", case, viaLT)
    if not math.isnan(float(lt(NAN, q[0][1]))) or not math.isnan(float(lt(q[0][0], NAN))):
        c.fail("2-D LookupTable with a NaN input is not NaN", case)
    if model_vals is not None:
        bad = [(p, mv, iv) for p, mv, iv in zip(q, model_vals, impl) if not close(mv, iv, scale)]
        if bad:
            c.disagree("BSpline2D value", case, [b[1] for b in bad[:5]], [(b[0], b[2]) for b in bad[:5]])
    tck = [np.array(tx, dtype=float), np.array(ty, dtype=float), np.array(w[: mx * my], dtype=float), kx, ky]
    nref = 0
    if len(w) < mx * my:
        c.fail("BSpline2D accepted a weight vector that is too short", case, len(w))
        return
    for (x, y), iv in zip(q, impl):
        if not (tx[0] <= x <= tx[-1] and ty[0] <= y <= ty[-1]):
            continue
        ref = float(bisplev(x, y, tck))
        nref += 1
        if not fclose(ref, iv, scale):
            c.fail("2-D spline differs from the reference B-spline (scipy bisplev) on its domain",
                   dict(case, x=x, y=y), {"impl": iv, "reference": ref})
            break
    c.hit("eval2d/reference-points", nref)


def gen_queries_2d(rng, tx, ty, nrand=6):
    def axis(t):
        ks = sorted(set(t))
        return ks + [np.nextafter(t[-1], -INF), (ks[0] + ks[1]) / 2, (ks[-2] + ks[-1]) / 2]

    ax, ay = axis(tx), axis(ty)
    q = [(tx[-1], ty[-1]), (tx[0], ty[0]), (tx[-1], ty[0]), (tx[0], ty[-1])]
    q += [(tx[-1], rng.choice(ay)) for _ in range(2)] + [(rng.choice(ax), ty[-1]) for _ in range(2)]
    q += [(rng.choice(ax), rng.choice(ay)) for _ in range(6)]
    q += [(rng.uniform(tx[0], tx[-1]), rng.uniform(ty[0], ty[-1])) for _ in range(nrand)]
    q += [(tx[-1] + 0.5, ay[0]), (ax[0], ty[0] - 0.25), (np.nextafter(tx[-1], INF), ay[1])]
    return [(float(x), float(y)) for x, y in q]


def stream_eval2d(c, N):
    from scipy.interpolate import bisplrep

    rng = c.rng
    cases, lines = [], []
    # corpus: the former failing input of F28 (fixed), an ordinary case now
    gx, gy = np.meshgrid(np.linspace(0, 3, 5), np.linspace(0, 2, 5))
    gx, gy = gx.ravel(), gy.ravel()
    tck = bisplrep(gx, gy, gx * gx + gy, kx=3, ky=3)
    corpus_q = [(3.0, 1.0), (1.5, 2.0), (3.0, 2.0), (1.5, 1.0), (0.0, 0.0), (3.0, 0.0)]
    cases.append((dict(stream="eval2d", origin="corpus-F28", tx=list(tck[0]), ty=list(tck[1]), w=list(tck[2]), kx=3, ky=3),
                  list(map(float, tck[0])), list(map(float, tck[1])), list(map(float, tck[2])), 3, 3, corpus_q))
    for _ in range(N):
        kx, ky = rng.choice([1, 2, 3, 3]), rng.choice([1, 2, 3, 3])
        dyadic = rng.random() < 0.5
        if rng.random() < 0.25:
            # a table as the mixin builds it: bisplrep on gridded data (knots at the data bounds)
            nx, ny = rng.randint(4, 6), rng.randint(4, 6)
            xs = np.cumsum([rng.choice([0.5, 1.0, 1.5]) for _ in range(nx)])
            ys = np.cumsum([rng.choice([0.25, 1.0, 2.0]) for _ in range(ny)])
            X, Y = np.meshgrid(xs, ys)
            a, b = rng.uniform(-2, 2), rng.uniform(-2, 2)
            Z = a * X * X + b * X * Y + Y
            try:
                with quiet_fd():
                    tck = bisplrep(X.ravel(), Y.ravel(), Z.ravel(), kx=3, ky=3)
            except Exception:
                continue
            tx, ty, w, kx, ky = list(map(float, tck[0])), list(map(float, tck[1])), list(map(float, tck[2])), 3, 3
            origin = "bisplrep"
        else:
            tx = gen_knots(rng, kx, rng.choice(["clamped", "clamped", "fitlike"]), dyadic)
            ty = gen_knots(rng, ky, rng.choice(["clamped", "clamped", "fitlike"]), dyadic)
            # at most two interior knots per direction (keeps the CasADi expression small)
            tx = tx[: kx + 1] + tx[kx + 1: -(kx + 1)][:2] + tx[-(kx + 1):]
            ty = ty[: ky + 1] + ty[ky + 1: -(ky + 1)][:2] + ty[-(ky + 1):]
            w = gen_weights(rng, (len(tx) - kx - 1) * (len(ty) - ky - 1), dyadic, shape=rng.choice(["any", "any", "unit", "const"]))
            origin = "random"
            if rng.random() < 0.1:
                w = w[:-1]
                origin = "short"
        q = gen_queries_2d(rng, tx, ty)
        cases.append((dict(stream="eval2d", origin=origin, tx=tx, ty=ty, w=w, kx=kx, ky=ky), tx, ty, w, kx, ky, q))
    for (case, tx, ty, w, kx, ky, q) in cases:
        lines.append(dict(op="b2", tx=frs(tx), ty=frs(ty), w=frs(w), kx=kx, ky=ky, q=[[fr(x), fr(y)] for x, y in q]))
    outs = model(c, lines)
    for i, (case, tx, ty, w, kx, ky, q) in enumerate(cases):
        c.count(("eval2d", kx, ky, len(tx), len(ty), case["origin"]), n=len(q))
        c.hit("eval2d/" + case["origin"])
        c.sample(dict(case, q=q[:4]), limit=3)
        check_table_2d(c, case, tx, ty, w, kx, ky, q, outs[i] if outs is not None else None)
    c.programs += len(cases)


# ---------------------------------------------------------------------------------------------
# fitted curves


def gen_fit_data(rng, mono, curv):
    n = rng.randint(5, 9)
    dyadic = rng.random() < 0.4
    steps = [rng.choice([0.5, 1.0, 1.0, 2.0, 0.25]) if dyadic else round(rng.uniform(0.2, 2.0), 3) for _ in range(n - 1)]
    x0 = gen_number(rng, dyadic, -3, 3)
    x = np.array([x0] + list(x0 + np.cumsum(steps)), dtype=float)
    u = (x - x[0]) / (x[-1] - x[0])
    shape = rng.choice(["square", "sqrt", "line", "wave", "exp"])
    base = {"square": u * u, "sqrt": np.sqrt(u), "line": u, "wave": u + 0.3 * np.sin(4 * u), "exp": np.exp(1.5 * u)}[shape]
    amp = rng.choice([1.0, 10.0, 100.0, 0.1])
    sign = -1.0 if (mono < 0 or (mono == 0 and rng.random() < 0.3)) else 1.0
    noise = rng.choice([0.0, 0.0, 0.01, 0.05])
    y = amp * (sign * base + noise * np.array([rng.uniform(-1, 1) for _ in range(n)]))
    return x, np.array(y, dtype=float), shape, noise


def reference_fit(x, y, t, k, mono, curv, test_pts, eps):
    """independent reference: the same QP written with scipy's basis functions and solved with
    another solver (qpOASES); returns the optimal sum of squares, or None when not solvable"""
    import casadi as ca
    from scipy.interpolate import splev

    n = len(t)
    m = n - k - 1

    def col(i, pts, der):
        e = np.zeros(n)
        e[i] = 1.0
        return splev(pts, (t, e, k), der=der)

    A = np.column_stack([col(i, x, 0) for i in range(m)])
    if mono == 0 and curv == 0:
        sol, *_ = np.linalg.lstsq(A, y, rcond=None)
        return float(np.sum((A @ sol - y) ** 2)), sol
    rows, lb, ub = [], [], []
    if mono != 0:
        for i in range(m - 1):
            r_ = np.zeros(m)
            r_[i + 1], r_[i] = 1.0, -1.0
            rows.append(r_)
            lb.append(eps if mono > 0 else -INF)
            ub.append(INF if mono > 0 else -eps)
    if curv != 0:
        D2 = np.column_stack([col(i, test_pts, 2) for i in range(m)])
        for r_ in D2:
            rows.append(r_)
            lb.append(eps if curv > 0 else -INF)
            ub.append(INF if curv > 0 else -eps)
    G = np.array(rows)
    H = 2 * A.T @ A + 1e-12 * np.eye(m)
    g = -2 * A.T @ y
    try:
        with quiet_fd():
            S = ca.conic("ref", "qpoases", {"h": ca.DM(H).sparsity(), "a": ca.DM(G).sparsity()},
                         {"printLevel": "none", "error_on_fail": False})
            r = S(h=ca.DM(H), g=ca.DM(g), a=ca.DM(G), lba=ca.DM(lb), uba=ca.DM(ub))
            ok = S.stats()["success"]
    except Exception:
        return None
    if not ok:
        return None
    sol = np.array(r["x"]).ravel()
    return float(np.sum((A @ sol - y) ** 2)), sol


def gen_fit_case(rng):
    k = rng.choice([1, 2, 3, 3, 3, 3])
    mono = rng.choice([0, 0, 1, 1, -1, 5])
    curv = rng.choice([0, 0, 1, -1]) if k >= 2 else 0
    x, y, shape, noise = gen_fit_data(rng, mono, curv)
    if curv != 0 and rng.random() < 0.5:
        # half of the curvature cases: data that already has the requested sign (constraints
        # mostly inactive); the other half keeps the raw data (constraints active)
        u = (x - x[0]) / (x[-1] - x[0])
        y = (abs(y).max() or 1.0) * (u * u if curv > 0 else -(u * u)) * (1 if mono >= 0 else -1) + 0.01 * y
        if mono < 0:
            y = y[::-1].copy() if curv > 0 else y
    ntest = rng.choice([100, 30, 15])
    interior = None
    if rng.random() < 0.35 and len(x) >= 6:
        cnt = rng.randint(0, len(x) - 5)
        interior = sorted(rng.uniform(x[1], x[-2]) for _ in range(cnt))
    return dict(stream="fit", x=[float(v) for v in x], y=[float(v) for v in y], k=k, monotonicity=mono,
                curvature=curv, num_test_points=ntest, interior_pts=interior, shape=shape, noisy=noise > 0)


def stream_fit(c, N):
    run_fit_cases(c, [gen_fit_case(c.rng) for _ in range(N)])


@contextlib.contextmanager
def _record_fit_solver(rec):
    """pass-through recorder of the bounds `BSpline1D.fit` hands to its solver (the module-level `nlpsol`)"""
    import rtctools.data.interpolation.bspline1d as mod

    orig = mod.nlpsol

    def wrapped(*a, **kw):
        solver = orig(*a, **kw)

        class _S:
            def __call__(self_, **ckw):
                rec["lbg"] = np.array(ckw.get("lbg"), dtype=float).ravel()
                rec["ubg"] = np.array(ckw.get("ubg"), dtype=float).ravel()
                return solver(**ckw)

            def stats(self_):
                return solver.stats()

        return _S()

    mod.nlpsol = wrapped
    try:
        yield
    finally:
        mod.nlpsol = orig


def check_fit_setup(c, case, t, rec, o):
    """the knot vector returned by fit() and the row bounds handed to the solver vs the Lean model's `fitKnots` / `fitBounds`"""
    if o in ("bad-op", "bad-json", None) or not isinstance(o, dict):
        c.disagree("fit set-up: model driver rejected the case", case, o, None)
        return
    c.hit("fit/setup-compared")
    mt = [float(unfr(v)) for v in o["t"]]
    if len(mt) != len(t) or not np.allclose(mt, t, rtol=0, atol=1e-12):
        c.disagree("fit knot vector", case, mt, list(t))
    if "lbg" not in rec:
        return
    ntest = case["num_test_points"]
    ndc = len(t) - 1
    lbg, ubg = rec["lbg"], rec["ubg"]

    def ev(v):
        return float("inf") if v == "inf" else float("-inf") if v == "-inf" else float(unfr(v))

    want_l = [ev(o["dcMin"])] * ndc + [ev(o["ssMin"])] * ntest
    want_u = [ev(o["dcMax"])] * ndc + [ev(o["ssMax"])] * ntest
    if len(lbg) != len(want_l) or len(ubg) != len(want_u) or not np.array_equal(lbg, want_l) or not np.array_equal(ubg, want_u):
        c.disagree("fit constraint-row bounds", case, {"lbg": want_l[:3] + want_l[-2:], "ubg": want_u[:3] + want_u[-2:]},
                   {"lbg": list(lbg[:3]) + list(lbg[-2:]), "ubg": list(ubg[:3]) + list(ubg[-2:]), "n": len(lbg)})


def run_fit_cases(c, case_list):
    from scipy.interpolate import splev

    from rtctools.data.interpolation.bspline1d import BSpline1D

    cases, lines, setups, setup_lines = [], [], [], []
    for case in case_list:
        x, y = np.array(case["x"], dtype=float), np.array(case["y"], dtype=float)
        k, mono, curv, ntest = case["k"], case["monotonicity"], case["curvature"], case["num_test_points"]
        interior = case["interior_pts"]
        kw = dict(k=k, monotonicity=mono, curvature=curv, num_test_points=ntest)
        if interior is not None:
            kw["interior_pts"] = np.array(interior, dtype=float)
        rec = {}
        with quiet_fd(), _record_fit_solver(rec):
            r = call(BSpline1D.fit, x, y, ipopt_options={"print_level": 0, "sb": "yes"}, **kw)
        c.count(("fit", k, int(np.sign(mono)), curv, len(x), interior is None, bool(case.get("noisy"))))
        c.hit("fit/k%d mono%+d curv%+d" % (k, np.sign(mono), curv))
        c.sample(case, limit=6)
        if r[0] == "raise":
            c.hit("fit/solver-failed")
            if "Spline fitting failed with status" not in r[2] or (mono == 0 and curv == 0):
                c.fail("BSpline1D.fit raised %s" % r[1], case, r[2][:300])
            cases.append((case, None))
            continue
        t, w, kk = r[1]
        t = np.array(t, dtype=float)
        w = np.array(w, dtype=float)
        test_pts = np.linspace(x[0], x[-1], ntest)
        cases.append((case, (t, w, kk, test_pts)))
        # set-up handed to the solver (knot vector; bounds of the coefficient-difference and curvature rows) vs the model
        setups.append((case, t, rec))
        setup_lines.append(dict(op="fitsetup", x=frs(x), k=k, delta=fr(1e-4), eps=fr(1e-7), mono=int(np.sign(mono)),
                                curv=int(np.sign(curv)), interior=(frs(interior) if interior is not None else None)))
        lines.append(dict(op="b1", t=frs(t), w=frs(w), k=kk, q=frs(x)))
        lines.append(dict(op="d1", t=frs(t), w=frs(w), k=kk, d=1, q=frs(test_pts)))
        lines.append(dict(op="d1", t=frs(t), w=frs(w), k=kk, d=2, q=frs(test_pts)))
    souts = model(c, setup_lines) if setup_lines else []
    if souts is not None:
        for (case, t, rec), o in zip(setups, souts):
            check_fit_setup(c, case, t, rec, o)
    outs = model(c, lines)
    pos = 0
    for case, res in cases:
        if res is None:
            continue
        t, w, kk, test_pts = res
        x, y = np.array(case["x"]), np.array(case["y"])
        k, mono, curv = case["k"], case["monotonicity"], case["curvature"]
        n = len(t)
        m = n - k - 1
        eps = 1e-7
        yscale = max(1.0, float(np.max(np.abs(y))))
        # ---- shape of the returned tck (documented: like splrep)
        exp_int = case["interior_pts"]
        if exp_int is None:
            exp_int = list(x[k // 2 + 1: -k // 2]) if k % 2 == 1 else list((x[k // 2 + 1: -k // 2] + x[k // 2: -k // 2 - 1]) / 2)
        exp_t = [x[0] - 1e-4] * (k + 1) + list(exp_int) + [x[-1] + 1e-4] * (k + 1)
        if kk != k or len(t) != len(exp_t) or not np.allclose(t, exp_t, rtol=0, atol=1e-12) or len(w) != len(t):
            c.fail("fit returned an unexpected knot vector / order", case, {"t": list(t), "k": kk})
            pos += 3
            continue
        # the table is defined on the whole data range: the knots enclose it strictly
        if not (t[0] < x[0] and x[-1] < t[-1]):
            c.fail("fitted knots do not enclose the data range", case, list(t))
        wpad = np.concatenate([w[:m], np.zeros(k + 1)])
        fitted = splev(x, (t, wpad, k))
        sse = float(np.sum((fitted - y) ** 2))
        # ---- requested monotonicity / curvature at every test point
        d1 = splev(test_pts, (t, wpad, k), der=1)
        d2 = splev(test_pts, (t, wpad, k), der=2) if k >= 2 else np.zeros(len(test_pts))
        hmin = float(np.min(np.diff(x)))
        tol1 = 1e-6 * yscale / hmin
        tol2 = 1e-6 * yscale / hmin ** 2
        if mono > 0 and not np.all(d1 >= -tol1):
            c.fail("fit with monotonicity > 0 decreases at a test point", case, {"min slope": float(d1.min())})
        if mono < 0 and not np.all(d1 <= tol1):
            c.fail("fit with monotonicity < 0 increases at a test point", case, {"max slope": float(d1.max())})
        # monotone coefficients make the curve monotone everywhere (theorem
        # `increasing_coefficients_slope_nonneg`), not only at the test points
        dense = splev(np.linspace(x[0], x[-1], 397), (t, wpad, k), der=1)
        dw = np.diff(w[:m])
        if mono > 0 and not (np.all(dense >= -tol1) and np.all(dw >= eps - 1e-6 * yscale)):
            c.fail("fit with monotonicity > 0 is not increasing on the data range", case,
                   {"min slope": float(dense.min()), "min coefficient step": float(dw.min())})
        if mono < 0 and not (np.all(dense <= tol1) and np.all(dw <= -eps + 1e-6 * yscale)):
            c.fail("fit with monotonicity < 0 is not decreasing on the data range", case,
                   {"max slope": float(dense.max()), "max coefficient step": float(dw.max())})
        if curv > 0 and not np.all(d2 >= eps - tol2):
            c.fail("fit with curvature > 0 is not convex at a test point", case, {"min curvature": float(d2.min())})
        if curv < 0 and not np.all(d2 <= -eps + tol2):
            c.fail("fit with curvature < 0 is not concave at a test point", case, {"max curvature": float(d2.max())})
        # ---- least-squares quality against an independent reference
        ref = reference_fit(x, y, t, k, np.sign(mono), curv, test_pts, eps)
        if ref is None:
            c.hit("fit/reference-unavailable")
        else:
            ref_sse, ref_sol = ref
            c.hit("fit/reference-compared")
            sy2 = float(np.sum(y * y))
            # IPOPT stops slightly inside active constraints (barrier), hence the looser constrained tolerance
            tol = (1e-6 if (mono == 0 and curv == 0) else 1e-4) * sy2 + 1e-12
            c.extra.setdefault("fit_excess_sse_rel_max", 0.0)
            c.extra["fit_excess_sse_rel_max"] = max(c.extra["fit_excess_sse_rel_max"], (sse - ref_sse) / max(sy2, 1e-300))
            if sse > ref_sse + tol:
                c.fail("fit is not a least-squares approximation: an independent solve of the same "
                       "problem has a smaller sum of squares", case, {"fit sse": sse, "reference sse": ref_sse})
            if mono == 0 and curv == 0:
                # without constraints the fitted values are those of the linear least-squares solution
                ref_fitted = splev(x, (t, np.concatenate([ref_sol, np.zeros(k + 1)]), k))
                amp = float(np.max(np.abs(y))) or 1.0
                if not np.allclose(fitted, ref_fitted, rtol=0, atol=1e-4 * amp):
                    c.fail("unconstrained fit differs from the least-squares solution at the data points", case,
                           {"fit": list(fitted), "reference": list(ref_fitted)})
        # ---- exact re-check with the model's derivative formula (correspondence)
        if outs is not None:
            mv, m1, m2 = outs[pos], outs[pos + 1], outs[pos + 2]
            if mv == "raise" or not all(close(a, b, yscale) for a, b in zip(mv, fitted)):
                c.disagree("fitted curve value", case, mv, list(fitted))
            if m1 == "raise" or not all(close(a, b, yscale / hmin, rtol=1e-7) for a, b in zip(m1, d1)):
                c.disagree("fitted curve slope", case, m1, list(d1))
            elif m2 == "raise" or not all(close(a, b, yscale / hmin ** 2, rtol=1e-7) for a, b in zip(m2, d2)):
                c.disagree("fitted curve curvature", case, m2, list(d2))
            else:
                e1 = [float(unfr(v)) for v in m1]
                e2 = [float(unfr(v)) for v in m2]
                if mono > 0 and min(e1) < -tol1 or mono < 0 and max(e1) > tol1:
                    c.fail("requested monotonicity violated at a test point (exact derivative)", case, e1)
                if curv > 0 and min(e2) < eps - tol2 or curv < 0 and max(e2) > -eps + tol2:
                    c.fail("requested curvature violated at a test point (exact derivative)", case, e2)
        pos += 3
    nfail = sum(1 for _, res in cases if res is None)
    if cases and nfail * 3 > len(cases):
        c.broken.append(("fit stream", "%d of %d fits were refused by the solver: the fit clauses are not exercised" % (nfail, len(cases))))
    c.programs += len(cases)


# ---------------------------------------------------------------------------------------------
# inverse lookup


def classify_rev(r):
    if r[0] == "ok":
        return "ok"
    if r[1] == "ValueError" and "not in lookup table range" in r[2]:
        return "range"
    if r[1] == "ValueError" and "different signs" in r[2]:
        return "bracket"
    return "raise:" + r[1]


def make_table_1d(t, w, k):
    import casadi as ca
    from scipy.interpolate import splev

    from rtctools.data.interpolation.bspline1d import BSpline1D
    from rtctools.optimization.csv_lookup_table_mixin import LookupTable

    tt, ww = np.array(t, dtype=float), np.array(w, dtype=float)
    m = len(t) - k - 1
    sx = ca.SX.sym("x")
    f = ca.Function("f", [sx], [BSpline1D(tt, ww, k)(sx)])
    lt = LookupTable([sx], f, (tt, ww, k))
    wpad = np.concatenate([ww[:m], np.zeros(k + 1)])
    return lt, (lambda x: float(splev(x, (tt, wpad, k))))


def gen_reverse_cases(rng, it):
    """one table and four calls on it"""
    k = rng.choice([1, 2, 3, 3, 3])
    dyadic = rng.random() < 0.5
    t = gen_knots(rng, k, rng.choice(["clamped", "fitlike"]), dyadic)
    # continuous tables only (interior knot multiplicity <= k): the inverse lookup of a value
    # inside a jump has no solution (brentq's contract presupposes a continuous function)
    t = [v for i, v in enumerate(t) if v in (t[0], t[-1]) or t[:i].count(v) < k]
    if rng.random() < 0.5:
        # move the table so that 0.0 lies strictly inside its knot range (explicit bounds of exactly 0.0)
        shift = t[0] + (t[-1] - t[0]) * rng.choice([0.25, 0.5, 0.5, 0.75])
        t = [v - shift for v in t]
    m = len(t) - k - 1
    shape = rng.choice(["inc", "dec", "any", "any", "any"])
    w = gen_weights(rng, m, dyadic, shape=shape)
    if shape in ("inc", "dec") and len(set(w)) < len(w):
        w = [v + (i if shape == "inc" else -i) * 0.5 for i, v in enumerate(w)]
    if it == 0:  # corpus: the former failing input of F8a (decreasing table, fixed)
        k, t, w, shape = 3, [0.0] * 4 + [1.0, 2.0] + [3.0] * 4, [10.0, 9.0, 8.0, 6.5, 5.5, 4.8], "dec"
    lt, ref = make_table_1d(t, w, k)
    dl, du = np.nextafter(t[0], INF), np.nextafter(t[-1], -INF)
    r0, r1 = ref(dl), ref(du)
    rlo, rhi = min(r0, r1), max(r0, r1)
    width = max(rhi - rlo, 1e-6)
    out = []
    for _ in range(4):
        ny = rng.choice([1, 1, 2, 3, 5])
        ys = []
        for _ in range(ny):
            kind = rng.choice(["in", "in", "in", "in", "nan", "end", "below", "above", "far", "knotval"])
            if it == 0 and not ys:
                kind, v = "in", 6.0
            elif kind == "in":
                v = rlo + width * rng.uniform(0.02, 0.98)
            elif kind == "nan":
                v = NAN
            elif kind == "end":
                v = rng.choice(lt.range)
            elif kind == "below":
                v = rlo - width * rng.choice([1e-6, 0.01, 0.5])
            elif kind == "above":
                v = rhi + width * rng.choice([1e-6, 0.01, 0.5])
            elif kind == "far":
                v = rng.choice([-1e6, 1e6])
            else:
                v = ref(rng.choice(sorted(set(t))[:-1]))
            ys.append(float(v))
        detect = rng.random() < 0.8
        domkind = rng.choice(["default", "default", "lower", "upper", "both", "both"])
        if it == 0:
            detect, domkind = True, "default"
        ld = ud = None
        zero_inside = t[0] < 0.0 < t[-1]
        if domkind in ("lower", "both"):
            ld = float(t[0] + (t[-1] - t[0]) * rng.uniform(0.0, 0.45))
            if zero_inside and rng.random() < 0.5:
                ld = 0.0
        if domkind in ("upper", "both"):
            ud = float(min(t[0] + (t[-1] - t[0]) * rng.uniform(0.55, 1.0), du))
            if zero_inside and (ld is None or ld < 0.0) and rng.random() < 0.5:
                ud = 0.0
        form = rng.choice(["scalar", "list", "array", "timeseries"]) if ny > 1 or rng.random() < 0.5 else "scalar"
        if form == "scalar":
            ys = ys[:1]
        if form == "timeseries":
            # the Timeseries form forwards only the values (keyword arguments are dropped)
            detect, ld, ud = True, None, None
        out.append(dict(stream="reverse", t=t, w=w, k=k, shape=shape, ys=ys, form=form, detect=detect,
                        domain=[ld, ud], range_ends=[float(v) for v in lt.range]))
    return out


def stream_reverse(c, N):
    case_list = []
    for it in range(N):
        case_list += gen_reverse_cases(c.rng, it)
    run_reverse_cases(c, case_list)
    c.programs += N


def run_reverse_cases(c, case_list):
    from scipy.optimize import brentq

    from rtctools.optimization.timeseries import Timeseries

    cases, lines = [], []
    tables = {}
    for case in case_list:
        t, w, k = [float(v) for v in case["t"]], [float(v) for v in case["w"]], case["k"]
        ys = [float(v) for v in case["ys"]]
        case["ys"] = ys
        key = (tuple(t), tuple(w), k)
        if key not in tables:
            tables = {key: make_table_1d(t, w, k)}
        lt, ref = tables[key]
        dl, du = np.nextafter(t[0], INF), np.nextafter(t[-1], -INF)
        r0, r1 = ref(dl), ref(du)
        rlo, rhi = min(r0, r1), max(r0, r1)
        width = max(rhi - rlo, 1e-6)
        scale = max(1.0, max(abs(v) for v in w))
        form, detect = case["form"], case["detect"]
        ld, ud = case["domain"]
        if form == "scalar":
            arg = ys[0]
        elif form == "list":
            arg = list(ys)
        elif form == "array":
            arg = np.array(ys)
        else:
            arg = Timeseries(np.arange(float(len(ys))), np.array(ys))
        kw = {}
        if ld is not None or ud is not None:
            kw["domain"] = (ld, ud)
        if not detect:
            kw["detect_range_error"] = False
        r = call(lt.reverse_call, arg, **kw)
        cls = classify_rev(r)
        if cls == "ok":
            out = r[1]
            if form == "scalar":
                xs = [float(out)]
            elif form == "timeseries":
                xs = [float(v) for v in out.values]
            else:
                xs = [float(v) for v in out]
        else:
            xs = None
        lo_b, hi_b = (dl if ld is None else ld), (du if ud is None else ud)
        # the oracle's transcript: the implementation's own answers when it returned, else an
        # independent brentq on the reference spline
        roots = []
        for i, v in enumerate(ys):
            if math.isnan(v):
                roots.append(None)
            elif xs is not None:
                roots.append(None if i >= len(xs) or math.isnan(xs[i]) else xs[i])
            else:
                try:
                    roots.append(float(brentq(lambda x: ref(x) - v, lo_b, hi_b)))
                except ValueError:
                    roots.append(None)
        cases.append((case, cls, xs, r, (rlo, rhi, width, scale, dl, du, lo_b, hi_b), ref))
        lines.append(dict(op="rev", t=frs(t), w=frs(w), k=k, dl=fr(float(dl)), du=fr(float(du)),
                          ld=None if ld is None else fr(ld), ud=None if ud is None else fr(ud),
                          detect=detect, ys=[fr(v) for v in ys],
                          roots=[None if v is None else fr(v) for v in roots]))
    outs = model(c, lines)
    for i, (case, cls, xs, r, info, ref) in enumerate(cases):
        rlo, rhi, width, scale, dl, du, lo_b, hi_b = info
        ys = case["ys"]
        fin = [v for v in ys if not math.isnan(v)]
        margin = 1e-9 * max(scale, width)
        strictly_out = [v for v in fin if v < rlo - margin or v > rhi + margin]
        ends = set(case["range_ends"])
        well_in = all(rlo + margin <= v <= rhi - margin or v in ends for v in fin)
        near_end = any(abs(v - rlo) <= margin or abs(v - rhi) <= margin for v in fin)
        c.count(("rev", case["shape"], case["form"], case["detect"], case["domain"][0] is None,
                 case["domain"][1] is None, cls, len(ys), len(fin), bool(strictly_out)))
        for side, b in zip(("lower", "upper"), case["domain"]):
            c.hit("reverse/%s-%s" % (side, "none" if b is None else "zero" if b == 0.0 else "negative" if b < 0 else "positive"))
        c.hit("reverse/" + cls)
        c.hit("reverse/table-" + case["shape"])
        c.sample(case, limit=8)
        # ---- the property on the implementation's output
        tol = 1e-8 * max(scale, 1.0)
        if cls.startswith("raise:"):
            c.fail("reverse_call raised %s" % cls[6:], case, r[2])
        if cls == "ok":
            if len(xs) != len(ys):
                c.fail("reverse_call returned %d values for %d inputs" % (len(xs), len(ys)), case, xs)
            for v, x in zip(ys, xs):
                if math.isnan(v):
                    if not math.isnan(x):
                        c.fail("reverse_call of NaN is not NaN", case, xs)
                elif math.isnan(x) or not (min(lo_b, hi_b) <= x <= max(lo_b, hi_b)) or abs(ref(x) - v) > tol:
                    c.fail("reverse_call returned x with f(x) != y (or x outside the domain)", case,
                           {"y": v, "x": x, "f(x)": None if math.isnan(x) else ref(x)})
            if strictly_out and (case["detect"] or case["domain"] == [None, None]):
                c.fail("reverse_call accepted a value outside the table's range", case,
                       {"range": [rlo, rhi], "outside": strictly_out, "returned": xs})
        if cls == "range" and not case["detect"]:
            c.fail("range error although detect_range_error=False", case, r[2])
        if cls == "range" and well_in:
            c.fail("reverse_call rejected values inside the table's range", case, {"range": [rlo, rhi], "msg": r[2]})
        if cls == "bracket" and well_in and case["domain"] == [None, None] and fin:
            c.fail("reverse_call found no root for a value inside the range on the table's own domain", case, r[2])
        if cls == "bracket" and fin:
            # the documented rejection: some target has no sign change over the REQUESTED domain
            prods = [(ref(lo_b) - v) * (ref(hi_b) - v) for v in fin]
            if all(p < -(tol * tol) and abs(ref(lo_b) - v) > tol and abs(ref(hi_b) - v) > tol for p, v in zip(prods, fin)):
                c.fail("reverse_call raised although the requested domain brackets a root for every target", case,
                       {"domain": [lo_b, hi_b], "f(lo)-y, f(hi)-y": [[ref(lo_b) - v, ref(hi_b) - v] for v in fin]})
        # ---- correspondence with the model
        if outs is None:
            continue
        mo = outs[i]
        if not isinstance(mo, dict):
            c.disagree("reverse_call driver", case, mo, cls)
            continue
        mcls = mo["out"] if isinstance(mo["out"], str) else "ok"
        if near_end and mcls != cls and {mcls, cls} <= {"ok", "range", "bracket"}:
            c.hit("reverse/tie-at-range-end")  # y equals a range end up to rounding: not decidable
            continue
        if mcls != cls:
            c.disagree("reverse_call outcome", case, mcls, cls)
            continue
        if cls == "ok":
            mx = mo["out"]["xs"]
            if [v == "nan" for v in mx] != [math.isnan(v) for v in xs]:
                c.disagree("reverse_call NaN positions", case, mx, xs)
            for res in mo["out"]["res"]:
                if res != "nan" and abs(float(unfr(res))) > tol:
                    c.disagree("model residual f(x) - y at the returned x", case, res, xs)
                    break
        # contract of the root oracle on this transcript: it refuses only brackets without a sign change
        if cls == "bracket":
            sgn = [float(unfr(a)) * float(unfr(b)) for a, b in mo["brackets"]]
            if all(s < -tol * tol for s in sgn):
                c.disagree("brentq refused although every bracket has a sign change", case, mo["brackets"], cls)


# ---------------------------------------------------------------------------------------------
# fit cache: edit-and-reload histories through a real CSVLookupTableMixin problem

BASE = 1_000_000_000


def make_problem_class():
    from pymoca.backends.casadi.alias_relation import AliasRelation

    from rtctools.optimization.csv_lookup_table_mixin import CSVLookupTableMixin
    from rtctools.optimization.optimization_problem import OptimizationProblem

    ns = {m: (lambda self, *a, **k: None) for m in OptimizationProblem.__abstractmethods__}
    ns["alias_relation"] = property(lambda self: self._ar)

    def init(self, **kw):
        self._ar = AliasRelation()
        CSVLookupTableMixin.__init__(self, **kw)

    ns["__init__"] = init
    return type("LookupOnly", (CSVLookupTableMixin, OptimizationProblem), ns)


TABLE_X = {"ya": np.array([0.0, 1.0, 2.0, 3.0, 4.0, 5.0, 6.0]), "yb": np.array([-1.0, -0.5, 0.5, 1.0, 2.5, 3.0])}


def table_data(name, d):
    x = TABLE_X[name]
    u = (x - x[0]) / (x[-1] - x[0])
    # neither monotone nor of one curvature sign, so that every option set gives a different curve
    y = (1.0 + 0.5 * d) * (u + 0.35 * np.sin(5.0 * u + d)) * (10.0 if name == "ya" else 1.0)
    return x, np.round(y, 6)


OPTION_SETS = [
    {},  # ini present, no section: defaults
    {"ya": (1, 0)}, {"ya": (0, 1), "yb": (1, 0)}, {"yb": (-1, 0)}, {"ya": (1, 1), "yb": (0, -1)}, {"ya": (-1, 0), "yb": (0, 1)},
]


def write_csv(path, name, d, inp, mtime):
    x, y = table_data(name, d)
    with open(path, "w") as f:
        f.write("%s,%s\n" % (name, inp))
        for a, b in zip(x, y):
            f.write("%r,%r\n" % (float(b), float(a)))
    os.utime(path, (mtime, mtime))


def write_ini(path, o, mtime):
    with open(path, "w") as f:
        for name, (mono, curv) in sorted(OPTION_SETS[o].items()):
            f.write("[%s]\nmonotonicity = %d\ncurvature = %d\n\n" % (name, mono, curv))
    os.utime(path, (mtime, mtime))


class FreshFits:
    """fresh fits of (table, data id, options), the reference a served table is compared with"""

    def __init__(self):
        self.memo = {}

    def get(self, name, d, opts):
        from scipy.interpolate import splev

        from rtctools.data.interpolation.bspline1d import BSpline1D

        key = (name, d, opts)
        if key not in self.memo:
            x, y = table_data(name, d)
            with quiet_fd():
                t, w, k = BSpline1D.fit(x, y, k=3, monotonicity=opts[0], curvature=opts[1],
                                        ipopt_options={"print_level": 0, "sb": "yes"})
            probe = np.linspace(x[0], x[-1], 23)
            self.memo[key] = (probe, splev(probe, (t, np.concatenate([w[: len(t) - 4], np.zeros(4)]), 3)))
        return self.memo[key]


def effective_opts(name, o):
    return (0, 0) if o is None else OPTION_SETS[o].get(name, (0, 0))


def run_history(c, P, fresh, evs, names, init, allow_del=False, tag="cache"):
    """play one edit-and-reload history on a scratch folder; returns per table the list of
    (reused, served values ok for model's id, ...) observations"""
    d = tempfile.mkdtemp(prefix="c20_lt_")
    lt_dir = os.path.join(d, "lookup_tables")
    os.makedirs(lt_dir)
    ini_path = os.path.join(lt_dir, "curvefit_options.ini")
    obs = {n: [] for n in names}
    try:
        data = {n: init["data"][n] for n in names}
        for n in names:
            write_csv(os.path.join(lt_dir, n + ".csv"), n, data[n], "x" + n[-1], BASE + init["csvM"])
        ini = init.get("ini")
        if ini is not None:
            write_ini(ini_path, ini[0], BASE + ini[1])
        cur_ini = None if ini is None else ini[0]
        for (tau, kind, arg) in evs:
            mt = BASE + tau
            if kind == "editCsv":
                n, dnew = arg
                data[n] = dnew
                write_csv(os.path.join(lt_dir, n + ".csv"), n, dnew, "x" + n[-1], mt)
            elif kind == "editIni":
                write_ini(ini_path, arg, mt)
                cur_ini = arg
            elif kind == "delIni":
                if os.path.exists(ini_path):
                    os.remove(ini_path)
                cur_ini = None
            elif kind == "corrupt":
                n, how = arg
                p = os.path.join(lt_dir, n + (".ca" if how != "npz" else ".npz"))
                if os.path.exists(p):
                    st = os.stat(p)
                    if how == "remove":
                        os.remove(p)
                    else:
                        with open(p, "wb") as f:
                            f.write(b"garbage")
                        os.utime(p, (st.st_mtime, st.st_mtime))  # the damage keeps the time stamp
            elif kind == "pre":
                before = {}
                for n in names:
                    p = os.path.join(lt_dir, n + ".npz")
                    before[n] = os.stat(p).st_mtime_ns if os.path.exists(p) else None
                stamps = {n: (os.stat(os.path.join(lt_dir, n + ".csv")).st_mtime,
                              os.stat(ini_path).st_mtime if os.path.exists(ini_path) else None,
                              None if before[n] is None else before[n] / 1e9) for n in names}
                prob = P(input_folder=d, output_folder=d)
                with quiet_fd():
                    r = call(prob.pre)
                if r[0] == "raise":
                    c.fail("pre() raised %s during an edit-and-reload history" % r[1],
                           dict(stream=tag, init=init, evs=evs), r[2])
                    return None
                tables = prob.lookup_tables(0)
                for n in names:
                    p = os.path.join(lt_dir, n + ".npz")
                    after = os.stat(p).st_mtime_ns if os.path.exists(p) else None
                    reused = before[n] is not None and after == before[n]
                    if not reused:
                        for ext in (".npz", ".ca"):
                            q = os.path.join(lt_dir, n + ext)
                            if os.path.exists(q):
                                os.utime(q, (mt, mt))
                    x, _ = table_data(n, 0)
                    probe = np.linspace(x[0], x[-1], 23)
                    vals = np.array(tables[n](probe))
                    with np.load(p) as z:
                        tck = (np.array(z["arr_0"]), np.array(z["arr_1"]), int(z["arr_2"]))
                    obs[n].append(dict(reused=reused, vals=vals, current=(data[n], cur_ini), stamps=stamps[n], tau=tau,
                                       tck=tck, domain=tables[n].domain))
        return obs
    finally:
        shutil.rmtree(d, ignore_errors=True)


def gen_history(rng, names, allow_del=False):
    tau = 10
    init = dict(data={n: rng.randint(0, 3) for n in names}, csvM=rng.choice([1, 5]),
                ini=rng.choice([None, None, (rng.randrange(len(OPTION_SETS)), rng.choice([2, 7]))]))
    evs = [(tau, "pre", None)]
    for _ in range(rng.randint(5, 9)):
        tau += rng.choice([0, 0, 1, 3, 10])  # equal stamps exercise the strict comparison
        kind = rng.choice(["pre", "pre", "pre", "editCsv", "editCsv", "editIni", "editIni", "corrupt"] + (["delIni"] if allow_del else []))
        if kind == "editCsv":
            evs.append((tau, kind, (rng.choice(names), rng.randint(0, 5))))
        elif kind == "editIni":
            evs.append((tau, kind, rng.randrange(len(OPTION_SETS))))
        elif kind == "corrupt":
            evs.append((tau, kind, (rng.choice(names), rng.choice(["truncate", "remove", "npz"]))))
        else:
            evs.append((tau, kind, None))
    tau += rng.choice([0, 1, 5])
    evs.append((tau, "pre", None))
    return init, evs


def project(evs, n):
    """the events of one table, in the model's vocabulary"""
    out = []
    for (tau, kind, arg) in evs:
        if kind == "editCsv":
            if arg[0] == n:
                out.append([tau, "editCsv", arg[1]])
        elif kind == "editIni":
            out.append([tau, "editIni", arg])
        elif kind == "corrupt":
            if arg[0] == n:
                out.append([tau, "corrupt"])
        else:
            out.append([tau, kind])
    return out


def judge_history(c, fresh, init, evs, names, obs, model_out, tag):
    case = dict(stream=tag, init=init, evs=evs)
    for n in names:
        for j, o in enumerate(obs[n]):
            d_cur, o_cur = o["current"]
            csvM, iniM, npzM = o["stamps"]
            # ---- property: reused only while the cache is newer than the data and the options
            if o["reused"]:
                c.hit(tag + "/reused")
                if npzM is None or not (csvM < npzM) or (iniM is not None and not (iniM < npzM)):
                    c.fail("a cached fit was reused although it is not newer than the data / options file",
                           dict(case, table=n, pre_index=j), {"csv": csvM, "ini": iniM, "npz": npzM})
            else:
                c.hit(tag + "/recomputed")
            # ---- the served function is the spline of the stored knots and coefficients
            from scipy.interpolate import splev

            tk, ck, kk = o["tck"]
            xs_, _ = table_data(n, 0)
            pr = np.linspace(xs_[0], xs_[-1], 23)
            stored = splev(pr, (tk, np.concatenate([ck[: len(tk) - kk - 1], np.zeros(kk + 1)]), kk))
            if not np.allclose(o["vals"], stored, rtol=0, atol=1e-9 * max(1.0, float(np.max(np.abs(ck[: len(tk) - kk - 1]))))):
                c.fail("the served CasADi function is not the spline of the stored tck (.ca and .npz differ)",
                       dict(case, table=n, pre_index=j))
            if not (o["domain"][0] < xs_[0] and xs_[-1] < o["domain"][1]):
                c.fail("the table's domain does not contain its tabulated range", dict(case, table=n), o["domain"])
            # ---- property: what is served is the fit of the current data and options
            probe, exp = fresh.get(n, d_cur, effective_opts(n, o_cur))
            sc = max(1.0, float(np.max(np.abs(exp))))
            if not np.allclose(o["vals"], exp, rtol=0, atol=1e-5 * sc):
                c.fail("the served lookup table is not the fit of the current data and options (stale cache)",
                       dict(case, table=n, pre_index=j), {"max diff": float(np.max(np.abs(o["vals"] - exp)))})
            # ---- correspondence
            if model_out is not None:
                mo = model_out[n]
                if j >= len(mo) or len(mo) != len(obs[n]):
                    c.disagree("number of pre() runs", dict(case, table=n), len(mo), len(obs[n]))
                    break
                md, mopt, mre = mo[j]
                if bool(mre) != o["reused"]:
                    c.disagree("cache reused / recomputed", dict(case, table=n, pre_index=j), mre, o["reused"])
                _, mexp = fresh.get(n, md, effective_opts(n, mopt))
                if not np.allclose(o["vals"], mexp, rtol=0, atol=1e-5 * sc):
                    c.disagree("served fit is not the one the model predicts", dict(case, table=n, pre_index=j),
                               [md, mopt], float(np.max(np.abs(o["vals"] - mexp))))


def stream_cache(c, N):
    rng = c.rng
    P = make_problem_class()
    fresh = FreshFits()
    names = ["ya", "yb"]
    hist = []
    # corpus: F8b (fixed) — no ini, two pre() in a row
    hist.append((dict(data={"ya": 0, "yb": 1}, csvM=1, ini=None), [(10, "pre", None), (20, "pre", None)]))
    for _ in range(N):
        hist.append(gen_history(rng, names))
    lines = []
    for init, evs in hist:
        for n in names:
            lines.append(dict(op="cache", data=init["data"][n], csvM=init["csvM"],
                              ini=None if init["ini"] is None else list(init["ini"]), evs=project(evs, n)))
    outs = model(c, lines)
    for h, (init, evs) in enumerate(hist):
        obs = run_history(c, P, fresh, evs, names, init)
        kinds = tuple(k for (_, k, _) in evs)
        c.count(("cache", kinds, init["ini"] is None), n=sum(1 for k in kinds if k == "pre") * len(names))
        for k in kinds:
            c.hit("cache/ev-" + k)
        c.sample(dict(stream="cache", init=init, evs=evs), limit=10)
        if obs is None:
            continue
        mo = None if outs is None else {n: outs[2 * h + i] for i, n in enumerate(names)}
        judge_history(c, fresh, init, evs, names, obs, mo, "cache")
    c.programs += len(hist)
    return P, fresh


def stream_mixin_2d(c, P):
    """a 2-D table through the real mixin: values at the tabulated points (incl. the largest x / y),
    never served stale (the 2-D cache is always recomputed)"""
    from scipy.interpolate import bisplev

    d = tempfile.mkdtemp(prefix="c20_lt2_")
    lt_dir = os.path.join(d, "lookup_tables")
    os.makedirs(lt_dir)
    try:
        lines, cases = [], []
        for rep, coef in enumerate([(1.0, 0.0, 1.0), (0.5, 1.0, -1.0)]):
            gx, gy = np.meshgrid(np.linspace(0, 3, 5), np.linspace(0, 2, 5))
            gx, gy = gx.ravel(), gy.ravel()
            z = coef[0] * gx * gx + coef[1] * gx * gy + coef[2] * gy
            p = os.path.join(lt_dir, "zz.csv")
            with open(p, "w") as f:
                f.write("zz,xa,ya\n")
                for a, b, v in zip(gx, gy, z):
                    f.write("%r,%r,%r\n" % (float(v), float(a), float(b)))
            os.utime(p, (BASE + 10 * rep, BASE + 10 * rep))
            prob = P(input_folder=d, output_folder=d)
            with quiet_fd():
                r = call(prob.pre)
            case = dict(stream="mixin2d", coef=coef)
            c.count(("mixin2d", rep), n=len(gx))
            if r[0] == "raise":
                c.fail("pre() raised %s on a 2-D table" % r[1], case, r[2])
                continue
            tab = prob.lookup_tables(0)["zz"]
            got = np.array([float(tab(a, b)) for a, b in zip(gx, gy)])
            if not np.allclose(got, z, rtol=0, atol=1e-6 * max(1.0, np.abs(z).max())):
                bad = int(np.argmax(np.abs(got - z)))
                c.fail("2-D lookup table does not reproduce its tabulated values (stale or wrong at a data point)",
                       case, {"x": float(gx[bad]), "y": float(gy[bad]), "table": float(got[bad]), "data": float(z[bad])})
            with np.load(os.path.join(lt_dir, "zz.npz")) as data:
                tck = [data["arr_%d" % i] for i in range(5)]
            tck[3], tck[4] = int(tck[3]), int(tck[4])
            refv = np.array([float(bisplev(a, b, tck)) for a, b in zip(gx, gy)])
            if not np.allclose(got, refv, rtol=0, atol=1e-9 * max(1.0, np.abs(z).max())):
                c.fail("2-D lookup table differs from scipy bisplev on the stored tck", case)
            cases.append((case, got, max(1.0, float(np.abs(tck[2]).max()))))
            lines.append(dict(op="b2", tx=frs(tck[0]), ty=frs(tck[1]), w=frs(tck[2]), kx=tck[3], ky=tck[4],
                              q=[[fr(float(a)), fr(float(b))] for a, b in zip(gx, gy)]))
        outs = model(c, lines)
        if outs is not None:
            for (case, got, sc), mo in zip(cases, outs):
                if mo == "raise" or not all(close(m, g, sc) for m, g in zip(mo, got)):
                    c.disagree("2-D table through the mixin", case, mo, list(got))
    finally:
        shutil.rmtree(d, ignore_errors=True)


def stream_mixin_edges(c, P):
    """smallest tables through the real mixin: four points (no interior knot: the cubic through the
    data) are accepted and reproduced, three points are refused with the documented message"""
    for npts in (4, 3):
        d = tempfile.mkdtemp(prefix="c20_lt3_")
        lt_dir = os.path.join(d, "lookup_tables")
        os.makedirs(lt_dir)
        try:
            xs = [0.5, 1.0, 2.5, 3.0][:npts]
            ys = [2.0, -1.0, 0.5, 4.0][:npts]
            with open(os.path.join(lt_dir, "ye.csv"), "w") as f:
                f.write("ye,xe\n")
                for a, b in zip(xs, ys):
                    f.write("%r,%r\n" % (b, a))
            prob = P(input_folder=d, output_folder=d)
            with quiet_fd():
                r = call(prob.pre)
            case = dict(stream="mixin-edge", x=xs, y=ys)
            c.count(("mixin-edge", npts))
            if npts == 3:
                if r[0] != "raise" or "Too few data points" not in r[2]:
                    c.fail("a three-point table is not refused as documented", case, r[1:])
            elif r[0] == "raise":
                c.fail("pre() raised %s on a four-point table" % r[1], case, r[2])
            else:
                got = prob.lookup_tables(0)["ye"](xs)
                if not np.allclose(got, ys, rtol=0, atol=1e-5):
                    c.fail("a four-point table does not reproduce its data", case, list(got))
        finally:
            shutil.rmtree(d, ignore_errors=True)


def probe_ini_deleted(c, P, fresh):
    """candidate F29: the options file is deleted after a constrained fit was cached"""
    names = ["ya"]
    init = dict(data={"ya": 1}, csvM=1, ini=(1, 2))
    evs = [(10, "pre", None), (20, "delIni", None), (30, "pre", None)]
    obs = run_history(c, P, fresh, evs, names, init, allow_del=True, tag="probe-F29")
    c.count(("probe", "F29"))
    if obs is None:
        return
    o = obs["ya"][-1]
    _, exp = fresh.get("ya", 1, (0, 0))
    stale = o["reused"] and not np.allclose(o["vals"], exp, rtol=0, atol=1e-5 * max(1.0, np.abs(exp).max()))
    what = ("cache computed with curvefit options is reused after curvefit_options.ini was deleted "
            "(the served table still carries the old monotonicity constraint)")
    c.known_probe("F29", stale, what)
    c.hit("probe-F29/" + ("reproduced" if stale else "not-reproduced"))


# ---------------------------------------------------------------------------------------------


def run(c):
    logging.getLogger("rtctools").setLevel(logging.CRITICAL)
    c.rule = (
        "random knot vectors (orders 0-4; clamped / fit-like / open; repeated interior knots; dyadic and "
        "decimal), weights (any / monotone / unit / constant; exact, scipy-padded, junk-padded, short), "
        "queries at every knot, both end points and their float neighbours, mid-points, random interior "
        "and outside points; 2-D tensor tables incl. bisplrep tables with knots at the data bounds; "
        "BSpline1D.fit over orders, monotonicity / curvature options, test-point counts and custom interior "
        "knots; reverse_call on increasing / decreasing / non-monotone tables with in-range, end-of-range, "
        "out-of-range and NaN targets in scalar / list / array / Timeseries form; edit-and-reload histories "
        "(csv edits, ini edits, damaged cache files, equal time stamps) on two tables through a real "
        "CSVLookupTableMixin problem.  distinct = (stream, order, knot style, padding, sizes, outcome class) tuples"
    )
    c.assumptions = [
        "CasADi evaluates the expression graph the code builds (if_else, logic_and/or, jacobian); IPOPT returns a "
        "point within its tolerances when it reports success (re-checked per instance at the test points)",
        "scipy.optimize.brentq returns a root (to its tolerance) inside a sign-changing bracket of a continuous "
        "table and refuses other brackets (`RootSound eps` / `RootCompleteFor f` hypotheses of the theorems; the "
        "transcript is re-checked per call); tables with jumps (interior knots of multiplicity k+1) are outside "
        "the inverse-lookup clause",
        "file modification times are what os.path.getmtime reports and do not go backwards (`Chrono`)",
        "curvefit_options.ini is not deleted while a cache exists (hypothesis of `served_is_current`; the deletion "
        "case is known finding F29, reproduced by a dedicated probe and proved as `ini_deletion_serves_stale_witness`)",
        "spline values compared with 1e-9 relative tolerance (binary64 vs exact rationals), derivatives 1e-7, "
        "anything through IPOPT 1e-6",
        "least-squares quality and constraint satisfaction between test points are numerical: checked per "
        "instance against an independent QP / lstsq reference, not proved",
    ]
    from .translate_c20 import gen_bspline, gen_bspline2d, gen_fit_cache, gen_fit_setup, gen_reverse_domain

    c.prove(extra=gen_bspline(c) + gen_reverse_domain(c) + gen_bspline2d(c) + gen_fit_cache(c) + gen_fit_setup(c))  # + BSpline.basis / BSpline1D.__call__ translated from the source on every run
    nexh = stream_exhaustive(c, c.big)
    stream_eval1d(c, c.n(40, 1200))
    stream_eval2d(c, c.n(16, 400))
    stream_reverse(c, c.n(25, 800))
    stream_fit(c, c.n(30, 1000))
    P, fresh = stream_cache(c, c.n(6, 150))
    stream_mixin_2d(c, P)
    stream_mixin_edges(c, P)
    probe_ini_deleted(c, P, fresh)
    c.exhaustive = False
    c.notes.append("exhaustive small-scope table run in full (%d knot vectors: every multiplicity pattern of "
                   "length k+2..k+%d over four values, orders 0-2, nine query positions);" % (nexh, 4 if c.big else 3))
    c.notes.append("random streams are samples; the unbounded claims (local support, non-negativity, partition "
                   "of unity, coefficient hull, inverse-lookup soundness, cache invariant over all histories) "
                   "are carried by the theorems")


def replay(c, rp):
    """re-run the recorded failing inputs (by stream) against the current tree"""
    logging.getLogger("rtctools").setLevel(logging.CRITICAL)
    c.prove()
    recs = rp.get("failures", []) + rp.get("disagreements", []) + rp.get("correspondence_disagreements", [])
    fits, revs, hists = [], [], []
    P = fresh = None
    for f in recs:
        case = f.get("case") or {}
        print("replaying:", f["what"])
        st = case.get("stream")
        if st == "eval1d":
            t, w, k = [float(v) for v in case["t"]], [float(v) for v in case["w"]], case["k"]
            q = gen_queries(c.rng, t) + ([float(case["x"])] if "x" in case else [])
            outs = model(c, [dict(op="b1", t=frs(t), w=frs(w), k=k, q=frs(q)),
                            dict(op="d1", t=frs(t), w=frs(w), k=k, d=1, q=frs(q)),
                            dict(op="d1", t=frs(t), w=frs(w), k=k, d=2, q=frs(q))])
            ok = outs is not None
            check_table_1d(c, case, t, w, k, q, outs[0] if ok else None,
                           outs[1] if ok and outs[1] != "raise" else None, outs[2] if ok and outs[2] != "raise" else None)
            c.count(("replay", "eval1d"))
        elif st == "eval2d":
            tx, ty, w = ([float(v) for v in case[n]] for n in ("tx", "ty", "w"))
            q = gen_queries_2d(c.rng, tx, ty) + ([(float(case["x"]), float(case["y"]))] if "x" in case else [])
            outs = model(c, [dict(op="b2", tx=frs(tx), ty=frs(ty), w=frs(w), kx=case["kx"], ky=case["ky"],
                                 q=[[fr(a), fr(b)] for a, b in q])])
            check_table_2d(c, case, tx, ty, w, case["kx"], case["ky"], q, outs[0] if outs else None)
            c.count(("replay", "eval2d"))
        elif st == "fit":
            fits.append({k: v for k, v in case.items()})
        elif st == "reverse":
            revs.append({k: v for k, v in case.items()})
        elif st in ("cache", "probe-F29"):
            hists.append(case)
    if fits:
        run_fit_cases(c, fits)
    if revs:
        for case in revs:
            case["ys"] = [float("nan") if v == "nan" else float(v) for v in case["ys"]]
        run_reverse_cases(c, revs)
    if hists:
        P, fresh = make_problem_class(), FreshFits()
        names = ["ya", "yb"]
        for case in hists:
            init = dict(case["init"])
            init["data"] = {n: int(v) for n, v in init["data"].items()}
            init["ini"] = None if init.get("ini") is None else tuple(init["ini"])
            evs = [(e[0], e[1], tuple(e[2]) if isinstance(e[2], list) else e[2]) for e in case["evs"]]
            nm = [n for n in names if n in init["data"]]
            outs = model(c, [dict(op="cache", data=init["data"][n], csvM=init["csvM"],
                                 ini=None if init["ini"] is None else list(init["ini"]), evs=project(evs, n)) for n in nm])
            obs = run_history(c, P, fresh, evs, nm, init)
            c.count(("replay", "cache"))
            if obs is not None:
                judge_history(c, fresh, init, evs, nm, obs, None if outs is None else dict(zip(nm, outs)), "cache")
