"""
Shared plumbing for all property checks (see DESIGN.md section 2).

A check is a python module `harness/cXX.py` with a function `run(c: Check)`.  The entry point
`/verif/check` creates the `Check`, calls `run`, and `Check.finish()` writes the evidence file,
prints the report lines and decides the exit status:

  exit 0  property held on everything explored (KNOWN-FINDING lines may be printed)
  exit 1  `VIOLATION property=<id> replay=<path>` (+ ` no-failing-input-found` when a proof
          obligation or the correspondence broke but no concrete failing input was found)
  exit 2  infrastructure failure of the check itself (Lean missing, time-out, ...)
"""
import ast
import contextlib
import fcntl
import hashlib
import json
import math
import os
import random
import re
import subprocess
import sys
import time
import traceback
from fractions import Fraction

VERIF = os.path.dirname(os.path.dirname(os.path.abspath(__file__)))
LEAN_DIR = os.path.join(VERIF, "lean")
REPO = os.environ.get("RTC_REPO", "/repo")
# where evidence/ and replays/ are written (default /verif; trials against scratch trees set VERIF_OUT)
OUT = os.environ.get("VERIF_OUT", VERIF)
STD_AXIOMS = {"propext", "Classical.choice", "Quot.sound"}
FORBIDDEN = re.compile(
    r"\bsorry\b|\badmit\b|^\s*axiom\s|native_decide|bv_decide|implemented_by|\bunsafe\s|maxHeartbeats\s+0\b",
    re.M,
)

TRUSTED_BASE = [
    "Lean 4.33.0 kernel (thorough tier: leanchecker re-check of the compiled .olean files)",
    "axioms allowed: propext, Classical.choice, Quot.sound (audited with #print axioms on every run); "
    "no native_decide, no bv_decide, no sorry/admit, no own axioms",
    "Mathlib/Batteries lemmas imported by the proof files",
    "hand-written Lean model tied to /repo by the Python correspondence harness (this check): "
    "its generators, canonicalisation and the 1e-9 relative tolerance where quotients are compared",
]


class InfraError(Exception):
    """The check itself cannot run (not a statement about the property)."""


# ----------------------------------------------------------------------------------------------
# numbers on the wire


def fr(x):
    """exact wire form of a number (float -> exact rational; nan/inf tokens)"""
    if isinstance(x, str):
        return x
    if isinstance(x, Fraction):
        return str(x.numerator) if x.denominator == 1 else "%d/%d" % (x.numerator, x.denominator)
    if isinstance(x, bool):
        raise TypeError("bool on the wire")
    if isinstance(x, int):
        return str(x)
    x = float(x)
    if math.isnan(x):
        return "nan"
    if math.isinf(x):
        return "inf" if x > 0 else "-inf"
    f = Fraction(x)
    return str(f.numerator) if f.denominator == 1 else "%d/%d" % (f.numerator, f.denominator)


def unfr(s):
    """wire form -> Fraction (finite) or float nan/inf"""
    if s == "nan":
        return float("nan")
    if s == "inf":
        return float("inf")
    if s == "-inf":
        return float("-inf")
    return Fraction(s)


def same(model, impl, exact=False, rtol=1e-9, atol=1e-12):
    """compare a model value (wire string / Fraction / float) with an implementation float"""
    if isinstance(model, str):
        model = unfr(model)
    impl = float(impl)
    if isinstance(model, float):  # nan / inf
        if math.isnan(model):
            return math.isnan(impl)
        return impl == model
    if math.isnan(impl) or math.isinf(impl):
        return False
    if exact:
        return Fraction(impl) == model
    m = float(model)
    return abs(m - impl) <= atol + rtol * max(abs(m), abs(impl))


def same_list(model, impl, **kw):
    model = list(model)
    impl = list(impl)
    return len(model) == len(impl) and all(same(a, b, **kw) for a, b in zip(model, impl))


def jsonable(x):
    """best-effort conversion of numpy things for replay / sample files"""
    try:
        import numpy as np
    except Exception:  # pragma: no cover
        np = None
    if isinstance(x, dict):
        return {str(k): jsonable(v) for k, v in x.items()}
    if isinstance(x, (list, tuple)):
        return [jsonable(v) for v in x]
    if isinstance(x, Fraction):
        return fr(x)
    if np is not None:
        if isinstance(x, np.ndarray):
            return jsonable(x.tolist())
        if isinstance(x, np.generic):
            return jsonable(x.item())
    if isinstance(x, float):
        if math.isnan(x):
            return "nan"
        if math.isinf(x):
            return "inf" if x > 0 else "-inf"
        return x
    if isinstance(x, (int, str, bool)) or x is None:
        return x
    return repr(x)


@contextlib.contextmanager
def quiet_fd():
    """silence C-level stdout/stderr (IPOPT, CasADi) while a solver runs"""
    sys.stdout.flush()
    sys.stderr.flush()
    saved = os.dup(1), os.dup(2)
    devnull = os.open(os.devnull, os.O_WRONLY)
    try:
        os.dup2(devnull, 1)
        os.dup2(devnull, 2)
        yield
    finally:
        sys.stdout.flush()
        sys.stderr.flush()
        os.dup2(saved[0], 1)
        os.dup2(saved[1], 2)
        os.close(devnull)
        os.close(saved[0])
        os.close(saved[1])


# ----------------------------------------------------------------------------------------------
# Lean side


@contextlib.contextmanager
def lake_lock():
    path = os.path.join(LEAN_DIR, ".lake-verif.lock")
    with open(path, "w") as f:
        fcntl.flock(f, fcntl.LOCK_EX)
        try:
            yield
        finally:
            fcntl.flock(f, fcntl.LOCK_UN)


def strip_lean_comments(src):
    src = re.sub(r"/-.*?-/", "", src, flags=re.S)
    src = re.sub(r"--.*", "", src)
    return src


def lean_sources():
    out = []
    for root, _dirs, files in os.walk(os.path.join(LEAN_DIR, "RtcVerif")):
        for fn in files:
            if fn.endswith(".lean"):
                out.append(os.path.join(root, fn))
    for fn in os.listdir(os.path.join(LEAN_DIR, "Drivers")):
        if fn.endswith(".lean"):
            out.append(os.path.join(LEAN_DIR, "Drivers", fn))
    return sorted(out)


def module_closure(module):
    """RtcVerif modules imported (transitively) by `module`"""
    seen, todo = set(), [module]
    while todo:
        m = todo.pop()
        if m in seen or not m.startswith("RtcVerif"):
            continue
        seen.add(m)
        p = os.path.join(LEAN_DIR, *m.split(".")) + ".lean"
        if os.path.exists(p):
            for line in open(p):
                mm = re.match(r"\s*import\s+(\S+)", line)
                if mm:
                    todo.append(mm.group(1))
    return sorted(seen)


class LeanResult:
    def __init__(self):
        self.theorems = []  # names in Props/Cxx.lean
        self.discharged = []  # compiled + standard axioms only
        self.broken = []  # (name, reason)
        self.axioms = {}
        self.cmds = []
        self.build_ok = False


def lean_obligations(pid, thorough=False, extra=None, snapshots=None):
    """build Props/<pid>.lean, audit axioms of every theorem in it, grep forbidden tokens.
    `snapshots` = {path: text} of the generated modules as this run wrote them: restored under the lake
    lock before building, so that a concurrent run against another tree (seeded-change trials) cannot
    swap the generated text between generation and build."""
    res = LeanResult()
    module = "RtcVerif.Props.%s" % pid
    props = os.path.join(LEAN_DIR, "RtcVerif", "Props", pid + ".lean")
    if not os.path.exists(props):
        raise InfraError("no property file " + props)
    src = strip_lean_comments(open(props).read())
    ns = re.search(r"^namespace\s+(\S+)", src, re.M)
    ns = ns.group(1) if ns else ""
    res.theorems = re.findall(r"^\s*(?:protected\s+|private\s+)?theorem\s+([^\s:({\[]+)", src, re.M)
    if not res.theorems:
        raise InfraError("no theorems found in " + props)
    # forbidden tokens in everything the property file depends on
    for m in module_closure(module):
        p = os.path.join(LEAN_DIR, *m.split(".")) + ".lean"
        if os.path.exists(p):
            bad = FORBIDDEN.search(strip_lean_comments(open(p).read()))
            if bad:
                res.broken.append((m, "forbidden token %r" % bad.group(0).strip()))
    cmd = ["lake", "build", module]
    # modules imported by the driver only (they must be compiled before `lean --run` can load them)
    dpath = os.path.join(LEAN_DIR, "Drivers", pid + ".lean")
    if os.path.exists(dpath):
        for line in open(dpath):
            mm = re.match(r"\s*import\s+(RtcVerif\.\S+)", line)
            if mm and mm.group(1) not in cmd:
                cmd.append(mm.group(1))
    res.cmds.append("cd lean && " + " ".join(cmd))
    with lake_lock():
        try:
            p = subprocess.run(cmd, cwd=LEAN_DIR, capture_output=True, text=True, timeout=3000)
        except FileNotFoundError:
            raise InfraError("lake not found")
        except subprocess.TimeoutExpired:
            raise InfraError("lake build timed out")
        out = p.stdout + p.stderr
        if p.returncode != 0:
            errs = [l for l in out.splitlines() if l.startswith("error")]
            first = errs[0] if errs else out[-400:]
            failing = set(re.findall(r"Props/%s\.lean:(\d+):" % pid, "\n".join(errs)))
            res.broken.append(("lake build " + module, first[:400]))
            # which theorems are hit is decided below by the audit (it will fail as a whole)
            for t in res.theorems:
                res.broken.append((t, "property file does not compile"))
            return res
        res.build_ok = True
        if re.search(r"declaration uses .sorry.", out):
            res.broken.append((module, "declaration uses sorry"))
        # generated modules (source-to-Lean translation, see harness/translate.py): own obligations
        extra_ok = []
        for epath, etext in (snapshots or {}).items():
            if not os.path.exists(epath) or open(epath).read() != etext:
                tmp = epath + ".tmp%d" % os.getpid()
                with open(tmp, "w") as f:
                    f.write(etext)
                os.replace(tmp, epath)
        for (emod, ens, ethms) in (extra or []):
            epath = os.path.join(LEAN_DIR, *emod.split(".")) + ".lean"
            bad = None
            for m in module_closure(emod):
                mp = os.path.join(LEAN_DIR, *m.split(".")) + ".lean"
                if os.path.exists(mp):
                    bad = bad or FORBIDDEN.search(strip_lean_comments(open(mp).read()))
            ecmd = ["lake", "build", emod]
            res.cmds.append("cd lean && " + " ".join(ecmd))
            pe = subprocess.run(ecmd, cwd=LEAN_DIR, capture_output=True, text=True, timeout=3000)
            for t in ethms:
                res.theorems.append(emod.split(".")[-1] + "." + t)
            if pe.returncode != 0 or bad:
                eo = pe.stdout + pe.stderr
                errs = [l for l in eo.splitlines() if l.startswith("error")]
                for t in ethms:
                    res.broken.append((emod.split(".")[-1] + "." + t,
                                       "generated module does not check against the model: " + ((errs[0] if errs else str(bad))[:300])))
            else:
                extra_ok.append((emod, ens, ethms))
        # audit
        adir = os.path.join(LEAN_DIR, ".audit")
        os.makedirs(adir, exist_ok=True)
        afile = os.path.join(adir, pid + ".lean")
        own = [t for t in res.theorems if "." not in t]
        with open(afile, "w") as f:
            f.write("import %s\n" % module)
            for (emod, ens, ethms) in extra_ok:
                f.write("import %s\n" % emod)
            for t in own:
                full = (ns + "." + t) if ns else t
                f.write("#print axioms %s\n" % full)
            for (emod, ens, ethms) in extra_ok:
                for t in ethms:
                    f.write("#print axioms %s.%s\n" % (ens, t))
        acmd = ["lake", "env", "lean", afile]
        res.cmds.append("cd lean && lake env lean .audit/%s.lean  # #print axioms of every theorem" % pid)
        p = subprocess.run(acmd, cwd=LEAN_DIR, capture_output=True, text=True, timeout=1200)
        aout = p.stdout + p.stderr
        if thorough:
            mods = module_closure(module)
            for (emod, ens, ethms) in extra_ok:
                for m in module_closure(emod):
                    if m not in mods:
                        mods.append(m)
            ccmd = ["lake", "env", "leanchecker"] + mods
            res.cmds.append("cd lean && lake env leanchecker " + " ".join(mods))
            pc = subprocess.run(ccmd, cwd=LEAN_DIR, capture_output=True, text=True, timeout=3000)
            if pc.returncode != 0:
                res.broken.append(("leanchecker", (pc.stdout + pc.stderr)[-400:]))
    # parse "'name' depends on axioms: [a, b]" / "'name' does not depend on any axioms"
    text = re.sub(r"\s+", " ", aout)
    extra_full = {}
    for (emod, ens, ethms) in (extra or []):
        for t in ethms:
            extra_full[emod.split(".")[-1] + "." + t] = ens + "." + t
    already_broken = {n for n, _ in res.broken}
    for t in res.theorems:
        if t in already_broken:
            continue
        full = extra_full.get(t) or ((ns + "." + t) if ns else t)
        m = re.search(r"'%s' depends on axioms: \[([^\]]*)\]" % re.escape(full), text)
        if m:
            axs = {a.strip() for a in m.group(1).split(",") if a.strip()}
        elif re.search(r"'%s' does not depend on any axioms" % re.escape(full), text):
            axs = set()
        else:
            res.broken.append((t, "not found in #print axioms output"))
            continue
        res.axioms[t] = sorted(axs)
        extra = axs - STD_AXIOMS
        if extra:
            res.broken.append((t, "non-standard axioms: " + ", ".join(sorted(extra))))
        else:
            res.discharged.append(t)
    return res


def run_driver(pid, lines, driver=None, timeout=1200):
    """pipe JSON lines through `lake env lean --run Drivers/<pid>.lean`; returns parsed outputs"""
    driver = driver or pid
    path = os.path.join("Drivers", driver + ".lean")
    inp = "".join(json.dumps(l) + "\n" for l in lines)
    try:
        p = subprocess.run(
            ["lake", "env", "lean", "--run", path],
            cwd=LEAN_DIR,
            input=inp,
            capture_output=True,
            text=True,
            timeout=timeout,
        )
    except subprocess.TimeoutExpired:
        raise InfraError("model driver timed out")
    outs = [l for l in p.stdout.split("\n") if l.strip()]
    if p.returncode != 0 or len(outs) != len(lines):
        raise DriverError(
            "driver %s: exit %s, %d outputs for %d inputs: %s"
            % (driver, p.returncode, len(outs), len(lines), (p.stderr or p.stdout)[-500:])
        )
    return [json.loads(o) for o in outs]


class DriverError(Exception):
    pass


# ----------------------------------------------------------------------------------------------
# anchor pins (informational escalation, DESIGN.md section 1)


def file_ast_hash(path):
    try:
        tree = ast.parse(open(path).read())
    except Exception:
        return "unparsable"
    for node in ast.walk(tree):  # drop docstrings
        if isinstance(node, (ast.FunctionDef, ast.ClassDef, ast.AsyncFunctionDef, ast.Module)):
            b = node.body
            if b and isinstance(b[0], ast.Expr) and isinstance(getattr(b[0], "value", None), ast.Constant) \
                    and isinstance(b[0].value.value, str):
                node.body = b[1:] or [ast.Pass()]
    return hashlib.sha256(ast.dump(tree).encode()).hexdigest()[:16]


def anchored_files(pid):
    for line in open(os.path.join(VERIF, "properties.jsonl")):
        p = json.loads(line)
        if p["id"] == pid:
            return p["anchors"]["files"]
    return []


def load_pins():
    p = os.path.join(VERIF, "harness", "pins.json")
    return json.load(open(p)) if os.path.exists(p) else {}


def drifted_files(pid):
    pins = load_pins()
    out = []
    for f in anchored_files(pid):
        h = file_ast_hash(os.path.join(REPO, f))
        if pins.get(f) != h:
            out.append(f)
    return out


# ----------------------------------------------------------------------------------------------
# known findings


def load_known():
    p = os.path.join(VERIF, "known_findings.jsonl")
    out = []
    if os.path.exists(p):
        for line in open(p):
            line = line.strip()
            if line and not line.startswith("#"):
                out.append(json.loads(line))
    return out


# ----------------------------------------------------------------------------------------------


class Check:
    def __init__(self, pid, tier="quick", seed=0):
        self.pid = pid
        self.tier = tier
        self.seed = seed
        self.rng = random.Random(seed * 1000003 + int(pid[1:]))
        self.t0 = time.time()
        self.evaluations = 0
        self.nontrivial = set()
        self.samples = []
        self.disagreements = []  # correspondence model != code
        self.failures = []  # property oracle failed on the real code
        self.known_hits = {}  # finding id -> description (reproduced on this run)
        self.known_stale = []
        self.broken = []  # proof obligations / correspondence machinery that no longer checks
        self.dist = {}
        self.notes = []
        self.rule = ""
        self.assumptions = []
        self.exhaustive = None
        self.programs = 0
        self.lean = None
        self.extra = {}
        self.drift = drifted_files(pid)
        self.known = [k for k in load_known() if pid in k.get("properties", [])]
        self.escalated = bool(self.drift) and tier == "quick"

    # -- sizes -----------------------------------------------------------------------------
    def n(self, quick, thorough):
        """instance count for this tier (quick escalates to thorough size on anchor drift)"""
        return thorough if (self.tier == "thorough" or self.escalated) else quick

    @property
    def big(self):
        return self.tier == "thorough" or self.escalated

    def subseed(self):
        return self.rng.randrange(1 << 48)

    # -- bookkeeping -----------------------------------------------------------------------
    def count(self, key=None, n=1):
        self.evaluations += n
        if key is not None:
            self.nontrivial.add(key if isinstance(key, (str, int, tuple)) else json.dumps(jsonable(key), sort_keys=True))

    def hit(self, bucket, n=1):
        self.dist[bucket] = self.dist.get(bucket, 0) + n

    def sample(self, obj, limit=4):
        if len(self.samples) < limit:
            self.samples.append(jsonable(obj))

    def disagree(self, what, case, model=None, impl=None):
        if len(self.disagreements) < 50:
            self.disagreements.append({"what": what, "case": jsonable(case), "model": jsonable(model), "impl": jsonable(impl)})
        else:
            self.disagreements.append(None)

    def fail(self, what, case, detail=None, finding=None):
        """the property itself fails on the real code for this input"""
        if finding is not None and any(k["id"] == finding and k.get("status") == "known" for k in self.known):
            self.known_hits.setdefault(finding, what)
            return
        if len(self.failures) < 50:
            self.failures.append({"what": what, "case": jsonable(case), "detail": jsonable(detail)})
        else:
            self.failures.append(None)

    def known_probe(self, fid, reproduced, what):
        """result of the dedicated probe of a listed known finding"""
        entry = next((k for k in self.known if k["id"] == fid), None)
        if entry is None or entry.get("status") != "known":
            # not listed as known: a reproduced probe is an ordinary violation
            if reproduced:
                self.fail(what, {"probe": fid})
            return
        if reproduced:
            self.known_hits[fid] = what
        else:
            self.known_stale.append(fid)

    def model(self, lines, driver=None):
        try:
            return run_driver(self.pid, lines, driver)
        except DriverError as e:
            self.broken.append(("model driver", str(e)[:600]))
            return None

    def prove(self, extra=None):
        """proof obligations of this property (lake build + axiom audit); `extra` = generated modules
        [(module, namespace, [theorem names])] whose theorems count as obligations too"""
        snaps = {}
        for (emod, ens, ethms) in (extra or []):
            epath = os.path.join(LEAN_DIR, *emod.split(".")) + ".lean"
            if os.path.exists(epath):
                snaps[epath] = open(epath).read()
        self.lean = lean_obligations(self.pid, thorough=(self.tier == "thorough"), extra=extra, snapshots=snaps)
        for name, why in self.lean.broken:
            self.broken.append((name, why))
        return self.lean

    # -- finish ----------------------------------------------------------------------------
    def finish(self):
        wall = time.time() - self.t0
        os.makedirs(os.path.join(OUT, "evidence"), exist_ok=True)
        os.makedirs(os.path.join(OUT, "replays"), exist_ok=True)
        lean = self.lean
        nviol = len(self.failures)
        status = 0
        lines = []
        for fid, what in sorted(self.known_hits.items()):
            lines.append("KNOWN-FINDING: property=%s %s %s" % (self.pid, fid, what))
        replay = None
        if self.failures:
            replay = os.path.join(OUT, "replays", "%s-seed%d.json" % (self.pid, self.seed))
            json.dump(
                {"property": self.pid, "seed": self.seed, "tier": self.tier, "kind": "failing-input",
                 "failures": [f for f in self.failures if f][:20],
                 "disagreements": [d for d in self.disagreements if d][:10],
                 "broken": self.broken[:20]},
                open(replay, "w"), indent=1)
            lines.append("VIOLATION property=%s replay=%s" % (self.pid, replay))
            status = 1
        elif self.broken or self.disagreements:
            replay = os.path.join(OUT, "replays", "%s-seed%d.json" % (self.pid, self.seed))
            json.dump(
                {"property": self.pid, "seed": self.seed, "tier": self.tier, "kind": "no-failing-input-found",
                 "no_longer_checks": [{"name": n, "why": w} for n, w in self.broken[:40]],
                 "correspondence_disagreements": [d for d in self.disagreements if d][:20]},
                open(replay, "w"), indent=1)
            lines.append("VIOLATION property=%s replay=%s no-failing-input-found" % (self.pid, replay))
            status = 1
            nviol = max(1, len(self.disagreements))
        cov = {
            "obligations": len(lean.theorems) if lean else 0,
            "discharged": len(lean.discharged) if lean else 0,
            "checker_cmd": "; ".join(lean.cmds) if lean else "",
            "trusted_base": TRUSTED_BASE,
            "theorems": lean.theorems if lean else [],
            "axioms": lean.axioms if lean else {},
            "evaluations": self.evaluations,
            "distinct_nontrivial": len(self.nontrivial),
            "rule": self.rule,
            "samples": self.samples or [{"note": "no sample recorded"}],
            "disagreements_checked": len(self.disagreements),
            "programs": self.programs,
            "distribution": self.dist,
            "explanation": " ".join(self.notes),
            "known_findings_reproduced": sorted(self.known_hits),
            "known_findings_not_reproduced": sorted(self.known_stale),
            "anchor_drift": self.drift,
            "escalated_to_thorough_size": self.escalated,
        }
        if self.exhaustive is not None:
            cov["exhaustive"] = self.exhaustive
        cov.update(self.extra)
        ev = {
            "property_id": self.pid,
            "tier": self.tier,
            "seed": self.seed,
            "level": "proof",
            "coverage": cov,
            "assumptions": self.assumptions,
            "wall_s": round(wall, 2),
            "violations": nviol if status else 0,
        }
        json.dump(ev, open(os.path.join(OUT, "evidence", self.pid + ".json"), "w"), indent=1)
        for l in lines:
            print(l)
        print(
            "%s tier=%s seed=%d: %d/%d obligations discharged, %d evaluations (%d distinct non-trivial), "
            "%d disagreements, %d failures, %.1fs%s"
            % (self.pid, self.tier, self.seed, cov["discharged"], cov["obligations"], self.evaluations,
               len(self.nontrivial), len(self.disagreements), len(self.failures), wall,
               " [escalated: anchored files changed]" if (self.escalated or self.drift and self.tier == "quick") else "")
        )
        sys.stdout.flush()
        return status


def use_repo():
    """make sure `rtctools` is imported from the current working tree of /repo"""
    src = os.path.join(REPO, "src")
    if src not in sys.path:
        sys.path.insert(0, src)
    import rtctools  # noqa

    if not os.path.abspath(rtctools.__file__).startswith(os.path.abspath(src)):
        raise InfraError("rtctools imported from %s, expected %s" % (rtctools.__file__, src))
