"""
Source-to-Lean translation of small straight-line kernels (second tie between model and code).

For kernels that are pure compositions of `np.minimum` / `np.maximum` / branches on a flag, the
Python source in /repo is translated on every run into a Lean definition (`lean/RtcVerif/Gen/*.lean`)
together with a theorem stating that the generated definition equals the hand-written model the
property theorems are about.  A change of the source then breaks a *proof obligation* (the equality
no longer holds, or the translator no longer understands the code) instead of only a sampled
correspondence; the check then goes on to its failing-input search as usual.

Currently translated: `_GoalConstraint.update_bounds` (goal_programming_mixin_base.py) against
`C04.updateBoundsWith` (used by C02 and C04).
"""
import ast
import os

from .common import LEAN_DIR, REPO


class TranslationError(Exception):
    pass


def _find_method(tree, cls, name):
    for node in ast.walk(tree):
        if isinstance(node, ast.ClassDef) and node.name == cls:
            for item in node.body:
                if isinstance(item, ast.FunctionDef) and item.name == name:
                    return item
    raise TranslationError("%s.%s not found" % (cls, name))


class _UB:
    """symbolic execution of update_bounds over expression trees (strings of Lean terms)"""

    def __init__(self):
        self.env = {}

    # -- expressions ---------------------------------------------------------------------
    def expr(self, node):
        if isinstance(node, ast.Name):
            if node.id not in self.env:
                raise TranslationError("unknown name " + node.id)
            return self.env[node.id]
        if isinstance(node, ast.Attribute):
            # self.min / self.max / other.min / other.max ; `.values` and `.times` of a Timeseries
            if isinstance(node.value, ast.Name) and node.value.id in ("self", "other") and node.attr in ("min", "max"):
                return {("self", "min"): "s.lo", ("self", "max"): "s.hi",
                        ("other", "min"): "o.lo", ("other", "max"): "o.hi"}[(node.value.id, node.attr)]
            if node.attr == "values":
                return self.expr(node.value)  # element-wise: a Timeseries is its values
            raise TranslationError("unsupported attribute " + ast.dump(node))
        if isinstance(node, ast.Call):
            f = node.func
            if isinstance(f, ast.Attribute) and isinstance(f.value, ast.Name) and f.value.id == "np" \
                    and f.attr in ("maximum", "minimum") and len(node.args) == 2 and not node.keywords:
                a, b = self.expr(node.args[0]), self.expr(node.args[1])
                return "(%s %s %s)" % ("mx" if f.attr == "maximum" else "mn", a, b)
            if isinstance(f, ast.Name) and f.id == "Timeseries" and len(node.args) == 2:
                return self.expr(node.args[1])  # Timeseries(times, values) carries `values`
            raise TranslationError("unsupported call " + ast.dump(node)[:120])
        raise TranslationError("unsupported expression " + ast.dump(node)[:120])

    # -- statements ----------------------------------------------------------------------
    def assign(self, target, value_node):
        if isinstance(target, ast.Tuple):
            if not isinstance(value_node, ast.Tuple) or len(target.elts) != len(value_node.elts):
                raise TranslationError("tuple assignment shape")
            vals = [self.expr(v) for v in value_node.elts]
            for t, v in zip(target.elts, vals):
                self.store(t, v)
        else:
            self.store(target, self.expr(value_node))

    def store(self, target, val):
        if isinstance(target, ast.Name):
            self.env[target.id] = val
        elif isinstance(target, ast.Attribute) and isinstance(target.value, ast.Name) \
                and target.value.id == "self" and target.attr in ("min", "max"):
            self.env["@self." + target.attr] = val
        else:
            raise TranslationError("unsupported assignment target " + ast.dump(target)[:80])

    def block(self, stmts):
        for st in stmts:
            self.stmt(st)

    def stmt(self, st):
        if isinstance(st, ast.Expr) and isinstance(st.value, ast.Constant):
            return  # docstring
        if isinstance(st, ast.Assert):
            return
        if isinstance(st, ast.Assign) and len(st.targets) == 1:
            return self.assign(st.targets[0], st.value)
        if isinstance(st, ast.If):
            return self.branch(st)
        raise TranslationError("unsupported statement " + ast.dump(st)[:120])

    def branch(self, st):
        test = st.test
        # isinstance(<x>, Timeseries): both branches must agree once a Timeseries is read as its values
        if isinstance(test, ast.Call) and isinstance(test.func, ast.Name) and test.func.id == "isinstance":
            a, b = _UB(), _UB()
            a.env, b.env = dict(self.env), dict(self.env)
            a.block(st.body)
            b.block(st.orelse)
            keys = set(a.env) | set(b.env)
            for k in keys:
                if a.env.get(k, self.env.get(k)) != b.env.get(k, self.env.get(k)):
                    raise TranslationError("Timeseries and array branches differ for " + k)
            self.env = a.env
            self.env.update({k: v for k, v in b.env.items() if k not in self.env})
            return
        # enforce == "self"
        if isinstance(test, ast.Compare) and isinstance(test.left, ast.Name) and test.left.id == "enforce" \
                and len(test.ops) == 1 and isinstance(test.ops[0], ast.Eq) \
                and isinstance(test.comparators[0], ast.Constant) and test.comparators[0].value == "self":
            a, b = _UB(), _UB()
            a.env, b.env = dict(self.env), dict(self.env)
            a.block(st.body)
            b.block(st.orelse)
            for k in set(a.env) | set(b.env):
                va, vb = a.env.get(k, self.env.get(k)), b.env.get(k, self.env.get(k))
                if va is None or vb is None:
                    raise TranslationError("variable %s assigned in one branch only" % k)
                self.env[k] = va if va == vb else "(if enforceSelf then %s else %s)" % (va, vb)
            return
        raise TranslationError("unsupported condition " + ast.dump(test)[:120])


def translate_update_bounds():
    path = os.path.join(REPO, "src", "rtctools", "optimization", "goal_programming_mixin_base.py")
    fn = _find_method(ast.parse(open(path).read()), "_GoalConstraint", "update_bounds")
    args = [a.arg for a in fn.args.args]
    if args != ["self", "other", "enforce"]:
        raise TranslationError("unexpected signature %r" % args)
    if not (fn.args.defaults and isinstance(fn.args.defaults[-1], ast.Constant) and fn.args.defaults[-1].value == "self"):
        raise TranslationError("default of `enforce` is not 'self'")
    ub = _UB()
    ub.block(fn.body)
    lo, hi = ub.env.get("@self.min"), ub.env.get("@self.max")
    if lo is None or hi is None:
        raise TranslationError("self.min / self.max not assigned")
    return lo, hi


GEN_TEMPLATE = """import RtcVerif.Model.C04Store
/-!
GENERATED on every run of the C02 / C04 checks by harness/translate.py from
`_GoalConstraint.update_bounds` in /repo/src/rtctools/optimization/goal_programming_mixin_base.py.
Do not edit.  `updateBoundsGen` is the source, read element-wise; the theorem ties it to the model
the property theorems of C02 / C04 are about.
-/
namespace RtcVerif.Gen

def updateBoundsGen {α : Type} (mx mn : α → α → α) (s o : C04.Ivl α) (enforceSelf : Bool) : C04.Ivl α :=
  ⟨%s,
   %s⟩

theorem updateBoundsGen_eq_model {α : Type} (mx mn : α → α → α) (s o : C04.Ivl α) (enforceSelf : Bool) :
    updateBoundsGen mx mn s o enforceSelf = C04.updateBoundsWith mx mn s o enforceSelf := by
  cases enforceSelf <;> rfl

end RtcVerif.Gen
"""


def gen_update_bounds(c):
    """(re)generate lean/RtcVerif/Gen/UpdateBounds.lean; returns the extra obligation spec for c.prove"""
    gdir = os.path.join(LEAN_DIR, "RtcVerif", "Gen")
    os.makedirs(gdir, exist_ok=True)
    path = os.path.join(gdir, "UpdateBounds.lean")
    try:
        lo, hi = translate_update_bounds()
    except TranslationError as e:
        c.broken.append(("translator: _GoalConstraint.update_bounds", str(e)))
        return []
    text = GEN_TEMPLATE % (lo, hi)
    old = open(path).read() if os.path.exists(path) else None
    if old != text:
        tmp = path + ".tmp%d" % os.getpid()
        with open(tmp, "w") as f:
            f.write(text)
        os.replace(tmp, path)
    return [("RtcVerif.Gen.UpdateBounds", "RtcVerif.Gen", ["updateBoundsGen_eq_model"])]
