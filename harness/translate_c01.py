"""
Source-to-Lean translation of the decisive kernels of
`CollocatedIntegratedOptimizationProblem.transcribe` (second tie for C01, besides the
correspondence check).  On every run of the C01 check the method is parsed from
`$RTC_REPO/src/rtctools/optimization/collocated_integrated_optimization_problem.py`; four fragments
are located by NON-LOCAL anchors (attribute names, string literals, statement shapes), local names
are followed through their assignments (so renaming locals / reordering independent statements is
harmless), the fragments are executed symbolically against the closed table below, and
`lean/RtcVerif/Gen/CollocKernels.lean` is (re)generated (a second module, `Gen/CollocPlumbing.lean`,
is described at the end of the table) with

  effParGen        which parameter value a member's residual sees    = C01.effPar
  initRowsGen      argument order / model time of the initial residual = C01.initRowsCode
  initStateGen     X[initial_state_indices] * nominals                = C01.initStateCode
  initDersGen      scattered initial derivatives (member's own index) = C01.initDersCode
  ownInterpGen / ownColsGen  interpolant of a variable with its own stamps, overwritten columns = C01.interpOwnAll / C01.ownCols
  collocBlockGen   dt, finite differences, residual calls, theta branch = C01.collocBlock
  sliceIdxGen / timeIdxGen   slices of the mapped input row            = C01.sliceIdx / C01.timeIdx
  blockOfRowGen_eq_model     the two together                          = C01.blockOfRow

Closed table "Python construct -> model term" (anything else is REJECTED: broken obligation):

 K4  parameter classification  (anchor: `for i, p in enumerate(self.dae_variables["parameters"])`
     whose body has an if/else with a member loop in the else branch)
   values = [<store>[m]["parameters"][i] for m in range(self.ensemble_size)]   val m := (pvals m).getD j 0
   len(values) == 1                                   (E == 1)       (one value per member)
   all(ca.is_equal(ca.MX(v), ca.MX(values[0]), <int>) for v in values[1:])
                                                      (List.range (E-1)).all (val (m+1) == val 0)
                                                      [TRUSTED: ca.is_equal on numeric MX is equality]
   <p>.name() [not] in <name>                         [!] dyn j      [TRUSTED: the set of dynamic names]
   and / or / not                                     && / || / !
   then-branch `<L>.append(values[c])`                inlined value val c
   else-branch `for m in range(E): <L>[m].append(values[m])`   per-member value val m
 K5  initial residual  (anchors: ca.Function("initial_residual_total", ...); the `.call` whose
     arguments read ensemble_aggregate[...]["initial_state"])
   Function inputs [P, ca.vertcat(*(A + B + ...))] with the blocks
     self.dae_variables["states"|"algebraics"|"control_inputs"]  (in this order)  vars
     names assigned from [] / self.dae_variables["derivatives"][:]                ders
     self.dae_variables["constant_inputs"] / ["time"]                             inputs / time
   Function output [ca.veccat(R, I)], R from self.dae_residual, I from self.initial_residual
     (re-assignments through ca.substitute(...) keep the meaning)                 F ... ++ Finit ...
   call([<agg>["parameters"], ca.vertcat(*[<agg>["initial_state"], <agg>["initial_derivatives"],
         <agg>["initial_constant_inputs"], ca.repmat([c], 1, E)])], False, True)
     positional binding of the actual blocks to the formal blocks; c numeric -> rational,
     collocation_times[i] -> s.ts i
     [TRUSTED: ca.Function/map/call evaluate the expression at the bound arguments, column m = member m]
 K6  initial state / derivatives  (anchor: loop with `try: i = self.__differentiated_states_map[v]`)
   for j, v in enumerate(<collocated variable names>)           j ranges over List.range s.k
   try-body succeeds                                            iff j < s.nd, with i = j
                                                                [TRUSTED: differentiated states come first]
   <L>[j] = self.__indices_as_lists[<m>][v][0]                  I.idx <m> j 0
   <L>.append(self.variable_nominal(self.__initial_derivative_names[i]))   s.dnom j
   <L>.append(self.__indices[<m>][self.__initial_derivative_names[i]])     I.didx <m> j
   <L>.append(j)                                                j
   <m> = the variable of the enclosing `for .. in range(self.ensemble_size)` -> m;  literal n -> n
   except KeyError: <history block>; <L>.append(init_der)       histDer (I.hist m j) s.t0
     the history block is translated path by path (K11 below) into histDerGen, proved equal to histDer in
     Gen/CollocPlumbing.lean; K6 only checks its interface (this member's history, this variable, the result name)
   Z = ca.MX.zeros((n, 1))                                      List.replicate s.k 0
   Z[P] = X[I] * np.array(N)                                    scatter Z P (zipWith (*) (I.map X) N)
   if len(V) > 0: Z[P'] = V                                     scatter Z P' V   (empty lists: identity)
   X[L] * np.concatenate((<nominal arrays>))                    zipWith (*) (L.map X) ((range s.k).map s.nom)
 K7  variables with their own time stamps  (anchor: the loop that calls `interpolate(` with 5 arguments)
   interpolate(self.times(v), self.state_vector(v, ensemble_member=m), self.times(), False, self.interpolation_method(v))
                                                      tsL.map (fun t => outRat (interpSym o.mode (o.times.zip <values>) t))
     the 4th (equidistant) argument MUST be the literal False: the model's interpolant is ca.interp1d in
     its non-equidistant form   [TRUSTED: interp1d = the C19 interpolation model]
   if nominal != 1: R *= nominal   /   R *= nominal   (nominal = self.variable_nominal(v))   map (nomv * ·), fused
   <M>[:, c] = R[:-1]  /  <M>[:, c'] = R[1:]           columns (c, 0) / (c', 1) with Nat arithmetic over j and k
   if n == len(times): continue                       variables on the collocation grid are left to the reshape
 K1  collocation block  (anchor: `if th == 0: Y.append(a) elif th == 1: Y.append(b) else: Y.append(c)`
     with th = self.theta)
   U = ca.MX.sym("accumulated_U", ...);  U[a:b] / U[e]          slice u a b / u.getD e 0
   len(<collocated_variables>) / len(self.dae_variables["constant_inputs"])    k / nc  (Nat arithmetic + * )
   vector - vector, vector / scalar, scalar * vector, vector + vector     vsub, map (· / s), vscale, vadd
   scalar + - * /, numeric literals                             Rat arithmetic
   [r] = <f>.call([<params>, ca.vertcat(a, b, c, d)], False, True) with f = self.__dae_residual_function_collocated
                                                                F a b c d par
   `if th < 1:` / `if th > 0:` around such a definition         definedness guard; every use must be
                                                                implied by the branch condition for 0 <= theta <= 1
   t0 = self.initial_time                                       tinit

Second generated module `lean/RtcVerif/Gen/CollocPlumbing.lean` (`gen_colloc_plumbing`, 11 obligations):

  firstHalfGen / secondHalfGen   index lists behind ca.vertcat(X[..], X[..])  = C01.explicitInds / implicitInds (idxOf raw ph)
  repeatedNominalsGen            np.tile(np.repeat(nominals, n-1), 2)          = C01.repeatedNominals
  interpolatedFlatGen            the element-wise product                       = C01.interpolatedFlat
  reshapeShapeGen                the shape handed to reshape                    = (n - 1, 2 * k)
  stateMatrixGen_entries         entries (i, j), (i, k + j) of the reshape      = nom j * X (index of j at i / i + 1)
  uRowGen                        slots of accumulation_U in slot order          = C01.uRow
  histDerGen                     history block of the initial derivatives       = C01.histDer
  reduceMatvecGen                casadi_helpers.reduce_matvec on one entry      = C01.affVal (linear + constant part)
  initDersReducedGen_eq_model    the reduced initial derivatives                = C01.initDersCode (of C01_initial_rows)

 K8  index lists  (anchor: the loop over the collocated variable names with two `<L>.extend(<inds>[slice])`)
   for variable in [v.name() for v in <states + algebraics + control_inputs>]   v ranges over List.range k
   <inds> = self.__indices_as_lists[<m>][variable]  (<m> = enclosing member loop)   raw v
   if len(<inds>) != <n>: <inds> = <inds>.copy() | list(<inds>); <inds>.extend(<ph>); <inds> = <inds>[:<n>]
        with <ph> = [-1] * <n>, <n> = len(self.times())            padCut (raw v) n ph
        [TRUSTED: X[-1] is an existing position ph; the copy is REQUIRED (extend in place is rejected)]
   <L>.extend(<inds>[s])   s: [:-1] dropLast, [1:] tail, [a:] drop a, [:b] take b, [:-c] take (length - c)
   <L> = [] inside the member loop, assigned once               a fresh list per member
 K9  tiling / product / reshape
   ca.vertcat(X[A], X[B]) * R  |  R * ca.vertcat(X[A], X[B])     zipWith (*) (A.map X ++ B.map X) R
        (A first half, B second half; X = ca.MX.sym("X"))        [TRUSTED: vertcat = ++, element-wise product commutes]
   R = np.tile(np.repeat(N, c), t)                               npTile (npRepeat N c) t
   N = np.array([self.variable_nominal(v) for v in <collocated names>])   (List.range k).map nom
   M = M.reshape((r, c))                                         shape (r, c); entry (i, j) = flat[j * r + i]
        [TRUSTED: CasADi reshape is column-major]
   M = reduce_matvec(M, self.solver_input)                       value-preserving (K12)
   M[:, c] = ... only inside the own-time-stamp loop (K7), between the reshape and reduce_matvec
   index arithmetic: literals, + - *, len(<collocated variables>) k, len(self.times()) n, len(dae constant_inputs) nc
 K10 mapped input row  (anchor: U = ca.transpose(ca.horzcat(*U)))
   U = [None] * (...); U = [v for v in U if v.numel() > 0]; U = ca.transpose(ca.horzcat(*U))
        row i of the result = concatenation over the slots, in slot order, of row i of every block
   U[0] = M                                                      stateCols s X c.idx i
   U[<a + b*nc + j>] = ca.MX(<cin>[lo:hi]) in `for j, v in enumerate(self.dae_variables["constant_inputs"])`,
        v = v.name(), <cin> = <store>[<m>]["constant_inputs"][v]  (List.range s.nc).map (fun j => (slice (c.civ j)).getD i 0)
   U[<a + b*nc>] = ca.MX(<self.times()>[lo:hi])                  [(slice s.tsL).getD i 0]
   every other slot (path variables, extra constant inputs) must come after these     c.extraU i
   slot indices are linear forms in nc and j; the model slots must tile 0, 1 … 1+nc, … contiguously
 K11 history block  (the inner try of the `except KeyError` branch of K6)
   h = <history of member m>[variable]; except KeyError -> none     Option.elim h <except value> (fun ks => ...)
   h.times[i] / h.values[i], i an integer literal (negative: from the end)   pyAt (ks.map (·.1)) i / pyAt (ks.map (·.2)) i
   len(h.times) == c / len(h.values) == c                            ks.length = c   [TRUSTED: equal lengths]
   a == b, `or` / `and` (operands in canonical order), t0 = self.initial_time, + - * /, numeric literals
   if / else with one assignment of the result per branch             if … then … else …
   assert <test>                                                      ignored: precondition (the series ends at t0)
 K12 reduce_matvec(e, v)  (module-level function of _internal/casadi_helpers.py), one entry of an affine e
   ca.reshape(ca.mtimes(Af(ca.DM()), v), e.shape), Af = ca.Function(_, [ca.MX()], [ca.jacobian(e, v)])   lin
   ca.substitute(e, v, ca.MX.zeros(v.sparsity()))                     const      [TRUSTED: e affine in v: e(v) = lin + const]
   ca.evalf(const)                                                    const
   not ca.symvar(const) / const.is_zero()                             sym = false / const = 0
   return a / return a + b, if (early return)                         nested if-then-else over the paths
   call sites: ensemble_aggregate["initial_state" | "initial_derivatives"] = reduce_matvec(<itself>, self.solver_input)
 K13 cached functions  (transcribe() and clear_transcription_cache())
   self.__x tested with `is None` / `is not None` in transcribe() and assigned there     a cache slot "x" (cacheSlotsGen)
   clear_transcription_cache: only `self.__x = None` statements                           clearedSlotsGen
   clearCoversCacheGen: every cache slot is cleared; clearThenFreshGen: transcription after a clear = fresh object
        [TRUSTED: a slot is rebuilt from the current data exactly when it is None; nothing else is cached]
"""
import ast
import copy
import os
from fractions import Fraction

from .common import LEAN_DIR, REPO
from .translate import TranslationError, _find_method

SRC = ("src", "rtctools", "optimization", "collocated_integrated_optimization_problem.py")


def _u(node, n=110):
    try:
        return ast.unparse(node)[:n]
    except Exception:
        return ast.dump(node)[:n]


def _is_self_attr(node, suffix=None):
    return isinstance(node, ast.Attribute) and isinstance(node.value, ast.Name) and node.value.id == "self" \
        and (suffix is None or node.attr == suffix or node.attr.endswith(suffix))


def _dae_vars_key(node):
    """self.dae_variables["key"] -> key"""
    if isinstance(node, ast.Subscript) and _is_self_attr(node.value, "dae_variables") \
            and isinstance(node.slice, ast.Constant) and isinstance(node.slice.value, str):
        return node.slice.value
    return None


def _range_ensemble(node):
    return isinstance(node, ast.Call) and isinstance(node.func, ast.Name) and node.func.id == "range" \
        and len(node.args) == 1 and _is_self_attr(node.args[0], "ensemble_size")


def _rat(v):
    q = Fraction(v)
    return "%d" % q.numerator if q.denominator == 1 else "(%d / %d : Rat)" % (q.numerator, q.denominator)


class Fn:
    """the function with its assignments indexed by name"""

    def __init__(self, fn):
        self.fn = fn
        self.defs = {}
        self.parent = {}
        for node in ast.walk(fn):
            for ch in ast.iter_child_nodes(node):
                self.parent[ch] = node
        for node in ast.walk(fn):
            if isinstance(node, ast.Assign):
                for t in node.targets:
                    self._targets(t, node)
            elif isinstance(node, ast.AugAssign):
                self._targets(node.target, node)

    def _targets(self, t, node):
        if isinstance(t, ast.Name):
            self.defs.setdefault(t.id, []).append(node)
        elif isinstance(t, (ast.Tuple, ast.List)):
            for e in t.elts:
                self._targets(e, node)

    def the_def(self, name, before=None):
        ds = [d for d in self.defs.get(name, []) if before is None or d.lineno < before]
        if not ds:
            raise TranslationError("no assignment found for local `%s`" % name)
        return max(ds, key=lambda d: d.lineno)

    def all_defs(self, name):
        return self.defs.get(name, [])

    def enclosing(self, node, kind):
        p = self.parent.get(node)
        while p is not None and not isinstance(p, kind):
            p = self.parent.get(p)
        return p

    def guards(self, node):
        """tests of the enclosing `if` statements (with polarity) inside the function"""
        out = []
        ch, p = node, self.parent.get(node)
        while p is not None and p is not self.fn:
            if isinstance(p, ast.If):
                out.append((p.test, ch in p.body))
            ch, p = p, self.parent.get(p)
        return out


# =================================================================================================
# K4: parameter classification


def _k4(F):
    loop = None
    for node in ast.walk(F.fn):
        if isinstance(node, ast.For) and isinstance(node.iter, ast.Call) and isinstance(node.iter.func, ast.Name) \
                and node.iter.func.id == "enumerate" and node.iter.args \
                and _dae_vars_key(node.iter.args[0]) == "parameters":
            for st in node.body:
                if isinstance(st, ast.If) and st.orelse and any(
                        isinstance(x, ast.For) and _range_ensemble(x.iter) for x in st.orelse):
                    loop = node
    if loop is None:
        raise TranslationError("K4: parameter classification loop not found")
    if not (isinstance(loop.target, ast.Tuple) and len(loop.target.elts) == 2
            and all(isinstance(e, ast.Name) for e in loop.target.elts)):
        raise TranslationError("K4: loop target")
    iname, pname = loop.target.elts[0].id, loop.target.elts[1].id
    values = None
    the_if = None
    for st in loop.body:
        if isinstance(st, ast.Assign) and len(st.targets) == 1 and isinstance(st.targets[0], ast.Name) \
                and isinstance(st.value, ast.ListComp):
            lc = st.value
            g = lc.generators[0]
            ok = len(lc.generators) == 1 and not g.ifs and isinstance(g.target, ast.Name) and _range_ensemble(g.iter)
            e = lc.elt
            # <store>[m]["parameters"][i]
            ok = ok and isinstance(e, ast.Subscript) and isinstance(e.slice, ast.Name) and e.slice.id == iname \
                and isinstance(e.value, ast.Subscript) and isinstance(e.value.slice, ast.Constant) \
                and e.value.slice.value == "parameters" and isinstance(e.value.value, ast.Subscript) \
                and isinstance(e.value.value.slice, ast.Name) and e.value.value.slice.id == g.target.id
            if not ok or values is not None:
                raise TranslationError("K4: unsupported value list " + _u(st))
            values = st.targets[0].id
        elif isinstance(st, ast.If) and the_if is None:
            the_if = st
        else:
            raise TranslationError("K4: unsupported statement in the classification loop: " + _u(st))
    if values is None or the_if is None:
        raise TranslationError("K4: value list / branch not found")

    def val(idx):
        return "(pvals %s).getD j 0" % idx

    def test(node):
        if isinstance(node, ast.BoolOp):
            op = " && " if isinstance(node.op, ast.And) else " || "
            return "(" + op.join(test(v) for v in node.values) + ")"
        if isinstance(node, ast.UnaryOp) and isinstance(node.op, ast.Not):
            return "(!" + test(node.operand) + ")"
        if isinstance(node, ast.Compare) and len(node.ops) == 1:
            l, op, r = node.left, node.ops[0], node.comparators[0]
            # len(values) == 1
            if isinstance(op, ast.Eq) and isinstance(l, ast.Call) and isinstance(l.func, ast.Name) and l.func.id == "len" \
                    and len(l.args) == 1 and isinstance(l.args[0], ast.Name) and l.args[0].id == values \
                    and isinstance(r, ast.Constant) and r.value == 1:
                return "(E == 1)"
            # <p>.name() [not] in <name>
            if isinstance(op, (ast.In, ast.NotIn)) and isinstance(l, ast.Call) and isinstance(l.func, ast.Attribute) \
                    and l.func.attr == "name" and isinstance(l.func.value, ast.Name) and l.func.value.id == pname \
                    and not l.args and isinstance(r, ast.Name):
                return "(!dyn j)" if isinstance(op, ast.NotIn) else "(dyn j)"
        if isinstance(node, ast.Call) and isinstance(node.func, ast.Name) and node.func.id == "all" and len(node.args) == 1 \
                and isinstance(node.args[0], ast.GeneratorExp):
            ge = node.args[0]
            g = ge.generators[0]
            it = g.iter
            ok = len(ge.generators) == 1 and not g.ifs and isinstance(g.target, ast.Name) \
                and isinstance(it, ast.Subscript) and isinstance(it.value, ast.Name) and it.value.id == values \
                and isinstance(it.slice, ast.Slice) and isinstance(it.slice.lower, ast.Constant) \
                and it.slice.lower.value == 1 and it.slice.upper is None and it.slice.step is None
            e = ge.elt

            def mx(x, what):
                return isinstance(x, ast.Call) and _u(x.func) == "ca.MX" and len(x.args) == 1 and what(x.args[0])

            ok = ok and isinstance(e, ast.Call) and _u(e.func) == "ca.is_equal" and len(e.args) in (2, 3) \
                and mx(e.args[0], lambda a: isinstance(a, ast.Name) and a.id == g.target.id) \
                and mx(e.args[1], lambda a: isinstance(a, ast.Subscript) and isinstance(a.value, ast.Name)
                       and a.value.id == values and isinstance(a.slice, ast.Constant) and a.slice.value == 0)
            if ok:
                return "((List.range (E - 1)).all fun m => %s == %s)" % (val("(m + 1)"), val("0"))
        raise TranslationError("K4: unsupported condition " + _u(node))

    cond = test(the_if.test)

    def then_value(stmts):
        found = None
        for st in stmts:
            if not (isinstance(st, ast.Expr) and isinstance(st.value, ast.Call) and isinstance(st.value.func, ast.Attribute)
                    and st.value.func.attr == "append" and len(st.value.args) == 1):
                raise TranslationError("K4: unsupported statement " + _u(st))
            a = st.value.args[0]
            if isinstance(a, ast.Name) and a.id == pname:
                continue
            if isinstance(a, ast.Subscript) and isinstance(a.value, ast.Name) and a.value.id == values \
                    and isinstance(a.slice, ast.Constant) and isinstance(a.slice.value, int) and found is None:
                found = val(str(a.slice.value))
                continue
            raise TranslationError("K4: unsupported append " + _u(st))
        if found is None:
            raise TranslationError("K4: inlined value not found")
        return found

    def else_value(stmts):
        found = None
        for st in stmts:
            if isinstance(st, ast.Expr) and isinstance(st.value, ast.Call) and isinstance(st.value.func, ast.Attribute) \
                    and st.value.func.attr == "append" and len(st.value.args) == 1 \
                    and isinstance(st.value.args[0], ast.Name) and st.value.args[0].id == pname:
                continue
            if isinstance(st, ast.For) and _range_ensemble(st.iter) and isinstance(st.target, ast.Name) \
                    and len(st.body) == 1 and found is None:
                b = st.body[0]
                mv = st.target.id
                if isinstance(b, ast.Expr) and isinstance(b.value, ast.Call) and isinstance(b.value.func, ast.Attribute) \
                        and b.value.func.attr == "append" and isinstance(b.value.func.value, ast.Subscript) \
                        and isinstance(b.value.func.value.slice, ast.Name) and b.value.func.value.slice.id == mv \
                        and len(b.value.args) == 1:
                    a = b.value.args[0]
                    if isinstance(a, ast.Subscript) and isinstance(a.value, ast.Name) and a.value.id == values:
                        if isinstance(a.slice, ast.Name) and a.slice.id == mv:
                            found = val("m")
                            continue
                        if isinstance(a.slice, ast.Constant) and isinstance(a.slice.value, int):
                            found = val(str(a.slice.value))
                            continue
            raise TranslationError("K4: unsupported statement " + _u(st))
        if found is None:
            raise TranslationError("K4: per-member value not found")
        return found

    return dict(cond=cond, tv=then_value(the_if.body), ev=else_value(the_if.orelse))


# =================================================================================================
# K5: initial residual function and its call


def _k5(F):
    fun = None
    for node in ast.walk(F.fn):
        if isinstance(node, ast.Call) and _u(node.func) == "ca.Function" and node.args \
                and isinstance(node.args[0], ast.Constant) and node.args[0].value == "initial_residual_total":
            fun = node
    if fun is None or len(fun.args) < 3:
        raise TranslationError("K5: ca.Function('initial_residual_total', ...) not found")
    ins, outs = fun.args[1], fun.args[2]
    if not (isinstance(ins, ast.List) and len(ins.elts) == 2 and isinstance(outs, ast.List) and len(outs.elts) == 1):
        raise TranslationError("K5: function signature")
    vc = ins.elts[1]
    if not (isinstance(vc, ast.Call) and _u(vc.func) == "ca.vertcat" and len(vc.args) == 1
            and isinstance(vc.args[0], ast.Starred)):
        raise TranslationError("K5: second input is not ca.vertcat(*(...))")

    def chain(node):
        if isinstance(node, ast.BinOp) and isinstance(node.op, ast.Add):
            return chain(node.left) + chain(node.right)
        return [node]

    def kind(node):
        k = _dae_vars_key(node)
        if k in ("states", "algebraics", "control_inputs"):
            return ("V", k)
        if k == "constant_inputs":
            return ("C", k)
        if k == "time":
            return ("T", k)
        if isinstance(node, ast.Name):
            ds = F.all_defs(node.id)
            rhs = [d.value for d in ds if isinstance(d, ast.Assign)]
            okd = rhs and all(
                (isinstance(r, ast.List) and not r.elts)
                or (isinstance(r, ast.Subscript) and _dae_vars_key(r.value) == "derivatives") for r in rhs)
            if okd and not [d for d in ds if isinstance(d, ast.AugAssign)]:
                return ("D", node.id)
        raise TranslationError("K5: unsupported block in the function inputs: " + _u(node))

    kinds = [kind(x) for x in chain(vc.args[0].value)]
    vs = [k[1] for k in kinds if k[0] == "V"]
    if vs != ["states", "algebraics", "control_inputs"]:
        raise TranslationError("K5: variable blocks are not states, algebraics, control_inputs: %r" % vs)
    runs = []
    for k in kinds:
        if not runs or runs[-1] != k[0]:
            runs.append(k[0])
    if sorted(runs) != sorted(set(runs)) or set(runs) != {"V", "D", "C", "T"}:
        raise TranslationError("K5: input blocks are not four contiguous groups: %r" % runs)
    # outputs
    o = outs.elts[0]
    if not (isinstance(o, ast.Call) and _u(o.func) in ("ca.veccat", "ca.vertcat") and len(o.args) == 2):
        raise TranslationError("K5: output is not veccat(residual, initial residual)")

    def origin(node):
        if not isinstance(node, ast.Name):
            raise TranslationError("K5: output " + _u(node))
        src = None
        for d in sorted(F.all_defs(node.id), key=lambda d: d.lineno):
            v = d.value
            if _is_self_attr(v, "dae_residual") or _is_self_attr(v, "initial_residual"):
                src = v.attr
            elif isinstance(v, ast.Call) and _u(v.func) == "ca.substitute" and node.id in _u(v.args[0], 10 ** 6):
                continue
            else:
                raise TranslationError("K5: `%s` is re-assigned by %s" % (node.id, _u(v)))
        return src

    res_order = [origin(a) for a in o.args]
    if sorted(res_order) != ["dae_residual", "initial_residual"]:
        raise TranslationError("K5: outputs are %r" % res_order)
    # the call
    call = None
    for node in ast.walk(F.fn):
        if isinstance(node, ast.Call) and isinstance(node.func, ast.Attribute) and node.func.attr == "call" and node.args \
                and isinstance(node.args[0], ast.List) and "'initial_state'" in _u(node.args[0], 10 ** 6):
            if "'initial_derivatives'" in _u(node.args[0], 10 ** 6) and "'parameters'" in _u(node.args[0], 10 ** 6):
                call = node
    if call is None:
        raise TranslationError("K5: call of the initial residual map not found")
    # the callee must come from self.__initial_residual_with_params_fun_map
    cal = call.func.value
    if isinstance(cal, ast.Name):
        d = F.the_def(cal.id, call.lineno)
        if not _is_self_attr(d.value, "__initial_residual_with_params_fun_map"):
            raise TranslationError("K5: callee is " + _u(d.value))
    elif not _is_self_attr(cal, "__initial_residual_with_params_fun_map"):
        raise TranslationError("K5: callee is " + _u(cal))
    a = call.args[0].elts
    if len(a) != 2:
        raise TranslationError("K5: call arguments")

    def agg_key(node):
        if isinstance(node, ast.Subscript) and isinstance(node.value, ast.Name) and isinstance(node.slice, ast.Constant):
            return node.slice.value
        return None

    if agg_key(a[0]) != "parameters":
        raise TranslationError("K5: first actual argument is " + _u(a[0]))
    v2 = a[1]
    if not (isinstance(v2, ast.Call) and _u(v2.func) == "ca.vertcat"):
        raise TranslationError("K5: second actual argument is " + _u(v2))
    if len(v2.args) == 1 and isinstance(v2.args[0], ast.Starred) and isinstance(v2.args[0].value, ast.List):
        actual = v2.args[0].value.elts
    else:
        actual = v2.args
    if len(actual) != 4:
        raise TranslationError("K5: %d actual blocks" % len(actual))

    def act(node):
        k = agg_key(node)
        if k == "initial_state":
            return "z"
        if k == "initial_derivatives":
            return "d"
        if k == "initial_constant_inputs":
            return "u"
        if isinstance(node, ast.Call) and _u(node.func) == "ca.repmat" and len(node.args) == 3 \
                and _is_self_attr(node.args[2], "ensemble_size") and isinstance(node.args[1], ast.Constant) \
                and node.args[1].value == 1:
            x = node.args[0]
            if isinstance(x, ast.List) and len(x.elts) == 1:
                x = x.elts[0]
            return "T:" + _time_value(F, x, call.lineno)
        raise TranslationError("K5: unsupported actual block " + _u(node))

    binding = dict(zip(runs, [act(x) for x in actual]))
    for kd, need in (("V", "zdu"), ("D", "zdu"), ("C", "zdu")):
        if binding[kd] not in ("z", "d", "u"):
            raise TranslationError("K5: a time value is bound to the %s block" % kd)
    if not binding["T"].startswith("T:"):
        raise TranslationError("K5: the time input is bound to " + binding["T"])
    args = "%s %s %s (%s) par" % (binding["V"], binding["D"], binding["C"], binding["T"][2:])
    names = {"dae_residual": "F", "initial_residual": "Finit"}
    return " ++ ".join("%s %s" % (names[r], args) for r in res_order)


def _time_value(F, x, before):
    if isinstance(x, ast.Constant) and isinstance(x.value, (int, float)) and not isinstance(x.value, bool):
        return _rat(x.value)
    if isinstance(x, ast.Subscript) and isinstance(x.slice, ast.Constant) and isinstance(x.slice.value, int) \
            and x.slice.value >= 0:
        b = x.value
        if isinstance(b, ast.Name):
            b = F.the_def(b.id, before).value
        if isinstance(b, ast.Call) and _is_self_attr(b.func, "times") and not b.args:
            return "s.ts %d" % x.slice.value
    if _is_self_attr(x, "initial_time"):
        return "s.t0"
    if isinstance(x, ast.Name):
        return _time_value(F, F.the_def(x.id, before).value, before)
    raise TranslationError("K5: unsupported model time " + _u(x))


# =================================================================================================
# K6: initial state and initial derivatives

def _k6(F):
    loop = None
    for node in ast.walk(F.fn):
        if isinstance(node, ast.For) and any(
                isinstance(st, ast.Try) and "__differentiated_states_map" in _u(st, 10 ** 6) for st in node.body):
            loop = node
    if loop is None:
        raise TranslationError("K6: initial derivative loop not found")
    mloop = F.enclosing(loop, ast.For)
    if mloop is None or not _range_ensemble(mloop.iter) or not isinstance(mloop.target, ast.Name):
        raise TranslationError("K6: the loop is not inside `for <m> in range(self.ensemble_size)`")
    mvar = mloop.target.id
    if not (isinstance(loop.iter, ast.Call) and isinstance(loop.iter.func, ast.Name) and loop.iter.func.id == "enumerate"
            and isinstance(loop.target, ast.Tuple) and len(loop.target.elts) == 2):
        raise TranslationError("K6: loop header " + _u(loop.iter))
    jv, vv = loop.target.elts[0].id, loop.target.elts[1].id

    def member(node):
        if isinstance(node, ast.Name) and node.id == mvar:
            return "m"
        if isinstance(node, ast.Constant) and isinstance(node.value, int) and node.value >= 0:
            return str(node.value)
        raise TranslationError("K6: unsupported ensemble member index " + _u(node))

    lists = {}  # list name -> (branch, term)
    state_idx = None
    the_try = None
    for st in loop.body:
        if isinstance(st, ast.Assign) and len(st.targets) == 1 and isinstance(st.targets[0], ast.Subscript):
            t, v = st.targets[0], st.value
            # <L>[j] = self.__indices_as_lists[<m>][v][0]
            ok = isinstance(t.value, ast.Name) and isinstance(t.slice, ast.Name) and t.slice.id == jv \
                and isinstance(v, ast.Subscript) and isinstance(v.slice, ast.Constant) and v.slice.value == 0 \
                and isinstance(v.value, ast.Subscript) and isinstance(v.value.slice, ast.Name) and v.value.slice.id == vv \
                and isinstance(v.value.value, ast.Subscript) and _is_self_attr(v.value.value.value, "__indices_as_lists")
            if not ok or state_idx is not None:
                raise TranslationError("K6: unsupported statement " + _u(st))
            state_idx = (t.value.id, "I.idx %s j 0" % member(v.value.value.slice))
        elif isinstance(st, ast.Try) and the_try is None:
            the_try = st
        else:
            raise TranslationError("K6: unsupported statement " + _u(st))
    if the_try is None or state_idx is None:
        raise TranslationError("K6: try block / initial state index not found")
    if len(the_try.handlers) != 1 or _u(the_try.handlers[0].type) != "KeyError" or the_try.orelse or the_try.finalbody:
        raise TranslationError("K6: try/except shape")
    env = {}
    first = the_try.body[0]
    if not (isinstance(first, ast.Assign) and isinstance(first.targets[0], ast.Name) and isinstance(first.value, ast.Subscript)
            and _is_self_attr(first.value.value, "__differentiated_states_map")
            and isinstance(first.value.slice, ast.Name) and first.value.slice.id == vv):
        raise TranslationError("K6: the try body does not start with the differentiated-state lookup")
    ivar = first.targets[0].id

    def dername(node):
        if isinstance(node, ast.Name) and node.id in env:
            node = env[node.id]
        return isinstance(node, ast.Subscript) and _is_self_attr(node.value, "__initial_derivative_names") \
            and isinstance(node.slice, ast.Name) and node.slice.id == ivar

    def append(st, branch):
        if not (isinstance(st, ast.Expr) and isinstance(st.value, ast.Call) and isinstance(st.value.func, ast.Attribute)
                and st.value.func.attr == "append" and isinstance(st.value.func.value, ast.Name) and len(st.value.args) == 1):
            return False
        L, a = st.value.func.value.id, st.value.args[0]
        if L in lists:
            raise TranslationError("K6: list `%s` is appended to twice" % L)
        if isinstance(a, ast.Name) and a.id == jv:
            lists[L] = (branch, "POS")
        elif branch == "var" and isinstance(a, ast.Call) and _is_self_attr(a.func, "variable_nominal") and len(a.args) == 1 \
                and dername(a.args[0]):
            lists[L] = (branch, "s.dnom j")
        elif branch == "var" and isinstance(a, ast.Subscript) and dername(a.slice) and isinstance(a.value, ast.Subscript) \
                and _is_self_attr(a.value.value, "__indices"):
            lists[L] = (branch, "X (I.didx %s j)" % member(a.value.slice))
        elif branch == "const" and isinstance(a, ast.Name) and a.id == env.get("@init_der"):
            lists[L] = (branch, "histDer (I.hist m (s.nd + q)) s.t0")
        else:
            raise TranslationError("K6: unsupported append " + _u(st))
        return True

    for st in the_try.body[1:]:
        if isinstance(st, ast.Assign) and len(st.targets) == 1 and isinstance(st.targets[0], ast.Name):
            env[st.targets[0].id] = st.value
        elif not append(st, "var"):
            raise TranslationError("K6: unsupported statement " + _u(st))
    hb = the_try.handlers[0].body
    if not hb or not isinstance(hb[0], ast.Try):
        raise TranslationError("K6: the history block is missing")
    # the history block is translated path by path (K11, emitted into Gen/CollocPlumbing.lean as
    # histDerGen and proved equal to C01.histDer there); here only its interface is needed
    k11 = _k11(F, hb[0])
    if k11["var"] != vv:
        raise TranslationError("K6: the history is looked up for `%s`" % k11["var"])
    hd = F.the_def(k11["hist"], loop.lineno).value
    if not (isinstance(hd, ast.Call) and _is_self_attr(hd.func, "history") and len(hd.args) == 1 and member(hd.args[0]) == "m"):
        raise TranslationError("K6: history source " + _u(hd))
    env["@init_der"] = k11["out"]
    for st in hb[1:]:
        if not append(st, "const"):
            raise TranslationError("K6: unsupported statement " + _u(st))

    # after the loop: scatter assignments and the initial state
    def find_assign(pred, what):
        hits = [n for n in ast.walk(mloop) if isinstance(n, ast.Assign) and n.lineno > loop.lineno and pred(n)]
        if len(hits) != 1:
            raise TranslationError("K6: %s: %d candidates" % (what, len(hits)))
        return hits[0]

    def lst(name, branch, want=None):
        if name not in lists or lists[name][0] != branch:
            raise TranslationError("K6: `%s` is not a list of the %s branch" % (name, branch))
        t = lists[name][1]
        if want == "POS" and t != "POS":
            raise TranslationError("K6: `%s` is not the position list" % name)
        if want == "VAL" and t == "POS":
            raise TranslationError("K6: `%s` is the position list" % name)
        return t

    def is_xmul(v):
        """X[<L>] * np.array(<N>)  /  np.array(<N>) * X[<L>] -> (L, N)"""
        if not (isinstance(v, ast.BinOp) and isinstance(v.op, ast.Mult)):
            return None
        for a, b in ((v.left, v.right), (v.right, v.left)):
            if isinstance(a, ast.Subscript) and isinstance(a.value, ast.Name) and isinstance(a.slice, ast.Name) \
                    and isinstance(b, ast.Call) and _u(b.func) in ("np.array", "np.concatenate"):
                xd = F.the_def(a.value.id, v.lineno).value
                if not (isinstance(xd, ast.Call) and _u(xd.func) == "ca.MX.sym" and xd.args
                        and isinstance(xd.args[0], ast.Constant) and xd.args[0].value == "X"):
                    raise TranslationError("K6: `%s` is not the decision vector" % a.value.id)
                return a.slice.id, b
        return None

    var_sc = find_assign(lambda n: isinstance(n.targets[0], ast.Subscript) and isinstance(n.targets[0].slice, ast.Name)
                         and n.targets[0].slice.id in lists and lists[n.targets[0].slice.id][0] == "var", "scatter of the variable branch")
    zname = var_sc.targets[0].value.id
    zd = F.the_def(zname, var_sc.lineno).value
    if not (isinstance(zd, ast.Call) and _u(zd.func) == "ca.MX.zeros"):
        raise TranslationError("K6: `%s` does not start as zeros" % zname)
    xm = is_xmul(var_sc.value)
    if xm is None or _u(xm[1].func) != "np.array" or not isinstance(xm[1].args[0], ast.Name):
        raise TranslationError("K6: unsupported scatter value " + _u(var_sc.value))
    lst(var_sc.targets[0].slice.id, "var", "POS")
    vi, vn = lst(xm[0], "var", "VAL"), lst(xm[1].args[0].id, "var", "VAL")
    if not vi.startswith("X (") or vn.startswith("X ("):
        raise TranslationError("K6: index / nominal lists are mixed up")
    const_sc = find_assign(lambda n: isinstance(n.targets[0], ast.Subscript) and isinstance(n.targets[0].slice, ast.Name)
                           and n.targets[0].slice.id in lists and lists[n.targets[0].slice.id][0] == "const", "scatter of the constant branch")
    if const_sc.targets[0].value.id != zname or not isinstance(const_sc.value, ast.Name):
        raise TranslationError("K6: unsupported constant scatter " + _u(const_sc))
    lst(const_sc.targets[0].slice.id, "const", "POS")
    cv = lst(const_sc.value.id, "const", "VAL")
    g = F.guards(const_sc)
    for tst, pol in g:
        if tst is mloop or not pol:
            continue
    if_ = F.parent.get(const_sc)
    if isinstance(if_, ast.If):
        if not (_u(if_.test) == "len(%s) > 0" % const_sc.value.id and not if_.orelse and len(if_.body) == 1):
            raise TranslationError("K6: unsupported guard of the constant scatter: " + _u(if_.test))
    elif if_ is not mloop:
        raise TranslationError("K6: the constant scatter is nested in " + _u(if_, 60))
    # must be in this order: var scatter then const scatter (they do not overlap, but keep the model's order)
    # stored as the member's initial derivatives
    find_assign(lambda n: isinstance(n.targets[0], ast.Subscript) and isinstance(n.targets[0].slice, ast.Constant)
                and n.targets[0].slice.value == "initial_derivatives" and isinstance(n.value, ast.Name) and n.value.id == zname,
                "store of the initial derivatives")
    st_as = find_assign(lambda n: isinstance(n.targets[0], ast.Subscript) and isinstance(n.targets[0].slice, ast.Constant)
                        and n.targets[0].slice.value == "initial_state", "store of the initial state")
    xs = is_xmul(st_as.value)
    if xs is None or xs[0] != state_idx[0] or _u(xs[1].func) != "np.concatenate":
        raise TranslationError("K6: unsupported initial state " + _u(st_as.value))
    order = "var-first" if var_sc.lineno < const_sc.lineno else "const-first"
    return dict(state=state_idx[1], vi=vi, vn=vn, cv=cv, order=order)


# =================================================================================================
# K1: collocation block


class _K1:
    def __init__(self, F):
        self.F = F
        self.slices = {}  # (lo, hi) or ("at", e) -> placeholder
        self.guard_uses = []

    def nat(self, node, before):
        """index arithmetic over k and nc"""
        F = self.F
        if isinstance(node, ast.Constant) and isinstance(node.value, int) and node.value >= 0:
            return str(node.value)
        if isinstance(node, ast.BinOp) and isinstance(node.op, (ast.Add, ast.Mult)):
            return "(%s %s %s)" % (self.nat(node.left, before), "+" if isinstance(node.op, ast.Add) else "*",
                                   self.nat(node.right, before))
        if isinstance(node, ast.Call) and isinstance(node.func, ast.Name) and node.func.id == "len" and len(node.args) == 1:
            a = node.args[0]
            if _dae_vars_key(a) == "constant_inputs":
                return "nc"
            if isinstance(a, ast.Name):
                txt = " ".join(_u(d.value, 10 ** 5) for d in F.all_defs(a.id))
                if "self.dae_variables['states']" in txt and "self.dae_variables['control_inputs']" in txt \
                        and "self.dae_variables['algebraics']" in txt:
                    return "k"
        if isinstance(node, ast.Name):
            return self.nat(F.the_def(node.id, before).value, before)
        raise TranslationError("K1: unsupported index expression " + _u(node))

    def is_U(self, node, before):
        if not isinstance(node, ast.Name):
            return False
        d = self.F.the_def(node.id, before).value
        return isinstance(d, ast.Call) and _u(d.func) == "ca.MX.sym" and d.args and isinstance(d.args[0], ast.Constant) \
            and d.args[0].value == "accumulated_U"

    def ev(self, node, before, pc):
        """-> (type, term); type 'v' vector, 's' scalar"""
        F = self.F
        if isinstance(node, ast.Constant) and isinstance(node.value, (int, float)) and not isinstance(node.value, bool):
            return "s", _rat(node.value)
        if isinstance(node, ast.Name):
            if node.id == self.theta:
                return "s", "theta"
            d = F.the_def(node.id, before)
            v = d.value
            if _is_self_attr(v, "initial_time"):
                return "s", "tinit"
            if _is_self_attr(v, "theta"):
                return "s", "theta"
            # definedness guards
            for tst, pol in F.guards(d):
                self.guard_uses.append((tst, pol, pc, node.id))
            if isinstance(d, ast.Assign) and isinstance(d.targets[0], (ast.List, ast.Tuple)):
                if len(d.targets[0].elts) != 1:
                    raise TranslationError("K1: unsupported unpacking " + _u(d))
                return self.call(v, d.lineno, pc)
            if isinstance(d, ast.AugAssign):
                raise TranslationError("K1: augmented assignment to " + node.id)
            return self.ev(v, d.lineno, pc)
        if isinstance(node, ast.Subscript) and self.is_U(node.value, before):
            sl = node.slice
            if isinstance(sl, ast.Slice):
                if sl.step is not None or sl.lower is None or sl.upper is None:
                    raise TranslationError("K1: unsupported slice " + _u(node))
                key = (self.nat(sl.lower, before), self.nat(sl.upper, before))
                return "v", self.slices.setdefault(key, "@S%d@" % len(self.slices))
            key = ("at", self.nat(sl, before))
            return "s", self.slices.setdefault(key, "@S%d@" % len(self.slices))
        if isinstance(node, ast.BinOp):
            (ta, a), (tb, b) = self.ev(node.left, before, pc), self.ev(node.right, before, pc)
            op = type(node.op)
            if ta == "s" and tb == "s" and op in (ast.Add, ast.Sub, ast.Mult, ast.Div):
                return "s", "(%s %s %s)" % (a, {ast.Add: "+", ast.Sub: "-", ast.Mult: "*", ast.Div: "/"}[op], b)
            if ta == "v" and tb == "v" and op is ast.Sub:
                return "v", "(vsub %s %s)" % (a, b)
            if ta == "v" and tb == "v" and op is ast.Add:
                return "v", "(vadd %s %s)" % (a, b)
            if ta == "v" and tb == "s" and op is ast.Div:
                return "v", "((%s).map (· / %s))" % (a, b)
            if ta == "s" and tb == "v" and op is ast.Mult:
                return "v", "(vscale %s %s)" % (a, b)
            if ta == "v" and tb == "s" and op is ast.Mult:
                return "v", "(vscale %s %s)" % (b, a)
            raise TranslationError("K1: unsupported operation " + _u(node))
        raise TranslationError("K1: unsupported expression " + _u(node))

    def call(self, v, before, pc):
        F = self.F
        if not (isinstance(v, ast.Call) and isinstance(v.func, ast.Attribute) and v.func.attr == "call"
                and len(v.args) == 3 and isinstance(v.args[0], ast.List) and len(v.args[0].elts) == 2
                and _u(v.args[1]) == "False" and _u(v.args[2]) == "True"):
            raise TranslationError("K1: unsupported residual call " + _u(v))
        cal = v.func.value
        if isinstance(cal, ast.Name):
            cal = F.the_def(cal.id, before).value
        if not _is_self_attr(cal, "__dae_residual_function_collocated"):
            raise TranslationError("K1: callee is " + _u(cal))
        vc = v.args[0].elts[1]
        if not (isinstance(vc, ast.Call) and _u(vc.func) == "ca.vertcat" and len(vc.args) == 4
                and not any(isinstance(x, ast.Starred) for x in vc.args)):
            raise TranslationError("K1: residual arguments " + _u(vc))
        parts = [self.ev(x, before, pc) for x in vc.args]
        if [p[0] for p in parts] != ["v", "v", "v", "s"]:
            raise TranslationError("K1: residual argument kinds %r" % [p[0] for p in parts])
        return "v", ("CALL", parts[0][1], parts[1][1], parts[2][1], parts[3][1])


def _k1(F):
    # anchor: if th == 0: Y.append(a) elif th == 1: Y.append(b) else: Y.append(c), th from self.theta
    def theta_name(test, value):
        if isinstance(test, ast.Compare) and len(test.ops) == 1 and isinstance(test.ops[0], ast.Eq) \
                and isinstance(test.left, ast.Name) and isinstance(test.comparators[0], ast.Constant) \
                and test.comparators[0].value == value:
            ds = F.all_defs(test.left.id)
            if ds and all(_is_self_attr(d.value, "theta") for d in ds):
                return test.left.id
        return None

    def one_append(body):
        if len(body) == 1 and isinstance(body[0], ast.Expr) and isinstance(body[0].value, ast.Call) \
                and isinstance(body[0].value.func, ast.Attribute) and body[0].value.func.attr == "append" \
                and len(body[0].value.args) == 1:
            return body[0].value.args[0]
        return None

    hit = None
    for node in ast.walk(F.fn):
        if isinstance(node, ast.If) and theta_name(node.test, 0) and len(node.orelse) == 1 \
                and isinstance(node.orelse[0], ast.If) and theta_name(node.orelse[0].test, 1) == theta_name(node.test, 0):
            inner = node.orelse[0]
            a, b, c = one_append(node.body), one_append(inner.body), one_append(inner.orelse)
            if a is not None and b is not None and c is not None and "integrated" not in _u(a):
                hit = (node, a, b, c)
    if hit is None:
        raise TranslationError("K1: the three-way theta branch was not found")
    node, a, b, c = hit
    K = _K1(F)
    K.theta = theta_name(node.test, 0)
    ea = K.ev(a, node.lineno, "eq0")
    eb = K.ev(b, node.lineno, "eq1")
    ec = K.ev(c, node.lineno, "mid")
    # definedness: every guarded definition must be implied by the branch condition for 0 <= theta <= 1
    point = {"eq0": Fraction(0), "eq1": Fraction(1), "mid": Fraction(1, 2)}

    def holds(tst, th):
        if isinstance(tst, ast.Compare) and len(tst.ops) == 1 and isinstance(tst.left, ast.Name) and tst.left.id == K.theta \
                and isinstance(tst.comparators[0], ast.Constant) and isinstance(tst.comparators[0].value, (int, float)):
            cst = Fraction(tst.comparators[0].value)
            if cst not in (0, 1):
                raise TranslationError("K1: guard compares theta with %s" % cst)
            op = type(tst.ops[0])
            return {ast.Lt: th < cst, ast.LtE: th <= cst, ast.Gt: th > cst, ast.GtE: th >= cst,
                    ast.Eq: th == cst, ast.NotEq: th != cst}[op]
        raise TranslationError("K1: unsupported guard " + _u(tst))

    for tst, pol, pc, name in K.guard_uses:
        if _u(tst).startswith("self.integrate_states") or _u(tst).startswith("len("):
            continue  # integrate_states = False / there are collocated variables: outside the model's scope
        if holds(tst, point[pc]) != pol:
            raise TranslationError("K1: `%s` is used where theta %s but is only defined when %s%s"
                                   % (name, {"eq0": "== 0", "eq1": "== 1", "mid": "is strictly between 0 and 1"}[pc],
                                      "" if pol else "not ", _u(tst)))

    # roles from the residual calls: explicit = the call used when theta == 0, implicit = theta == 1
    def as_call(e, what):
        if e[0] != "v" or not isinstance(e[1], tuple):
            raise TranslationError("K1: the %s branch does not append a residual call" % what)
        return e[1]

    ca0, ca1 = as_call(ea, "theta == 0"), as_call(eb, "theta == 1")
    roles = {}

    def role(term, name):
        if not (isinstance(term, str) and term.startswith("@S") and term.endswith("@") and term.count("@") == 2):
            raise TranslationError("K1: %s is not a plain slice of the mapped input row (%s)" % (name, term))
        if term in roles and roles[term] != name:
            raise TranslationError("K1: the same slice serves as %s and %s" % (roles[term], name))
        roles[term] = name

    role(ca0[1], "s0")
    role(ca0[3], "c0")
    role(ca1[1], "s1")
    role(ca1[3], "c1")
    # time arguments: (<slice> - tinit)
    import re

    def time_role(t, name):
        m = re.fullmatch(r"\((@S\d+@) - tinit\)", t)
        if not m:
            raise TranslationError("K1: model time argument is %s" % t)
        role(m.group(1), name)

    time_role(ca0[4], "ta")
    time_role(ca1[4], "tb")
    if sorted(roles.values()) != ["c0", "c1", "s0", "s1", "ta", "tb"]:
        raise TranslationError("K1: roles %r" % roles)

    def render(e):
        t = e[1]
        if isinstance(t, tuple):
            t = "(F %s %s %s %s par)" % t[1:]
        return t

    def full(e):
        """render nested CALL tuples inside strings (blend expression)"""
        return render(e)

    # the blend expression may contain call tuples inside a formatted string: re-evaluate with rendering
    K2 = _K1(F)
    K2.theta = K.theta
    K2.slices = K.slices
    orig_call = K2.call

    def call_str(v, before, pc):
        ty, t = orig_call(v, before, pc)
        return ty, "(F %s %s %s %s par)" % t[1:]

    K2.call = call_str
    ta_ = K2.ev(a, node.lineno, "eq0")[1]
    tb_ = K2.ev(b, node.lineno, "eq1")[1]
    tc_ = K2.ev(c, node.lineno, "mid")[1]

    def subst(t):
        for ph, r in roles.items():
            t = t.replace(ph, r)
        if "@S" in t:
            raise TranslationError("K1: a slice of the input row is used outside the residual arguments: " + t)
        return t

    inv = {v: k for k, v in roles.items()}
    keys = {ph: key for key, ph in K.slices.items()}
    idx = [keys[inv[r]] for r in ("s0", "s1", "c0", "c1")]
    tim = [keys[inv[r]] for r in ("ta", "tb")]
    if any(k[0] == "at" for k in idx) or any(k[0] != "at" for k in tim):
        raise TranslationError("K1: slice / entry kinds")
    return dict(b0=subst(ta_), b1=subst(tb_), bm=subst(tc_),
                idx="[" + ", ".join("(%s, %s)" % k for k in idx) + "]",
                tim="(%s, %s)" % (tim[0][1], tim[1][1]))


# =================================================================================================
# K7: variables with their own time stamps


def _k7(F):
    loop = call = None
    for node in ast.walk(F.fn):
        if isinstance(node, ast.For) and isinstance(node.iter, ast.Call) and isinstance(node.iter.func, ast.Name) \
                and node.iter.func.id == "enumerate" and "state_vector" in _u(node, 10 ** 6):
            for sub in ast.walk(node):
                if isinstance(sub, ast.Call) and isinstance(sub.func, ast.Name) and sub.func.id == "interpolate" \
                        and len(sub.args) == 5 and F.enclosing(sub, ast.For) is node:
                    loop, call = node, sub
    if loop is None:
        raise TranslationError("K7: the interpolation of variables with their own time stamps was not found")
    if not (isinstance(loop.iter, ast.Call) and isinstance(loop.iter.func, ast.Name) and loop.iter.func.id == "enumerate"
            and isinstance(loop.target, ast.Tuple) and len(loop.target.elts) == 2):
        raise TranslationError("K7: loop header " + _u(loop.iter))
    jv, vv = loop.target.elts[0].id, loop.target.elts[1].id
    mloop = F.enclosing(loop, ast.For)
    if mloop is None or not _range_ensemble(mloop.iter):
        raise TranslationError("K7: not inside the member loop")
    mvar = mloop.target.id
    env = {}
    result = None
    scaled = False
    cols = {}
    for st in loop.body:
        if isinstance(st, ast.Assign) and len(st.targets) == 1 and isinstance(st.targets[0], ast.Name):
            env[st.targets[0].id] = st.value
            if st.value is call:
                result = st.targets[0].id
        elif isinstance(st, ast.If) and len(st.body) == 1 and isinstance(st.body[0], ast.Continue) and not st.orelse:
            t = st.test
            ok = isinstance(t, ast.Compare) and len(t.ops) == 1 and isinstance(t.ops[0], ast.Eq)
            if not ok:
                raise TranslationError("K7: unsupported skip condition " + _u(t))
        elif isinstance(st, ast.If) or isinstance(st, ast.AugAssign):
            aug = st
            if isinstance(st, ast.If):
                t = st.test
                ok = isinstance(t, ast.Compare) and len(t.ops) == 1 and isinstance(t.ops[0], ast.NotEq) \
                    and isinstance(t.comparators[0], ast.Constant) and t.comparators[0].value == 1 \
                    and len(st.body) == 1 and not st.orelse and isinstance(st.body[0], ast.AugAssign) \
                    and _u(t.left) == _u(st.body[0].value)
                if not ok:
                    raise TranslationError("K7: unsupported statement " + _u(st))
                aug = st.body[0]
            nv = aug.value
            if isinstance(nv, ast.Name):
                nv = env.get(nv.id)
            ok = isinstance(aug.op, ast.Mult) and isinstance(aug.target, ast.Name) and aug.target.id == result \
                and isinstance(nv, ast.Call) and _is_self_attr(nv.func, "variable_nominal") and len(nv.args) == 1 \
                and isinstance(nv.args[0], ast.Name) and nv.args[0].id == vv and not scaled
            if not ok:
                raise TranslationError("K7: unsupported scaling " + _u(aug))
            scaled = True
        elif isinstance(st, ast.Assign) and len(st.targets) == 1 and isinstance(st.targets[0], ast.Subscript):
            t, v = st.targets[0], st.value
            sl = t.slice
            ok = isinstance(sl, ast.Tuple) and len(sl.elts) == 2 and isinstance(sl.elts[0], ast.Slice) \
                and sl.elts[0].lower is None and sl.elts[0].upper is None \
                and isinstance(v, ast.Subscript) and isinstance(v.value, ast.Name) and v.value.id == result \
                and isinstance(v.slice, ast.Slice) and v.slice.step is None
            if not ok:
                raise TranslationError("K7: unsupported column assignment " + _u(st))
            lo, hi = v.slice.lower, v.slice.upper
            if lo is None and isinstance(hi, ast.UnaryOp) and isinstance(hi.op, ast.USub) and _u(hi.operand) == "1":
                part = 0
            elif hi is None and isinstance(lo, ast.Constant) and lo.value == 1:
                part = 1
            else:
                raise TranslationError("K7: unsupported part of the interpolant " + _u(v))
            if part in cols:
                raise TranslationError("K7: the same part of the interpolant is stored twice")

            def col(node):
                if isinstance(node, ast.Name) and node.id == jv:
                    return "j"
                if isinstance(node, ast.Constant) and isinstance(node.value, int) and node.value >= 0:
                    return str(node.value)
                if isinstance(node, ast.BinOp) and isinstance(node.op, (ast.Add, ast.Mult)):
                    return "(%s %s %s)" % (col(node.left), "+" if isinstance(node.op, ast.Add) else "*", col(node.right))
                if isinstance(node, ast.Call) and isinstance(node.func, ast.Name) and node.func.id == "len":
                    return _K1(F).nat(node, st.lineno)
                raise TranslationError("K7: unsupported column index " + _u(node))

            cols[part] = col(sl.elts[1])
        else:
            raise TranslationError("K7: unsupported statement " + _u(st))
    if result is None or sorted(cols) != [0, 1]:
        raise TranslationError("K7: interpolant / column assignments not found")

    def res(node):
        return env.get(node.id) if isinstance(node, ast.Name) and node.id in env else node

    a = [res(x) for x in call.args]
    ok0 = isinstance(a[0], ast.Call) and _is_self_attr(a[0].func, "times") and len(a[0].args) == 1 \
        and isinstance(a[0].args[0], ast.Name) and a[0].args[0].id == vv
    if not ok0:
        raise TranslationError("K7: knots are " + _u(a[0]))
    sv = a[1]
    okv = isinstance(sv, ast.Call) and _is_self_attr(sv.func, "state_vector") and sv.args \
        and isinstance(sv.args[0], ast.Name) and sv.args[0].id == vv
    mem = None
    if okv:
        if len(sv.args) == 2:
            mem = sv.args[1]
        for kw in sv.keywords:
            if kw.arg == "ensemble_member":
                mem = kw.value
    if not okv or not (isinstance(mem, ast.Name) and mem.id == mvar):
        raise TranslationError("K7: values are " + _u(sv))
    q = call.args[2]
    qd = F.the_def(q.id, loop.lineno).value if isinstance(q, ast.Name) else q
    if not (isinstance(qd, ast.Call) and _is_self_attr(qd.func, "times") and not qd.args and not qd.keywords):
        raise TranslationError("K7: query times are " + _u(qd))
    eq = call.args[3]
    if not (isinstance(eq, ast.Constant) and eq.value is False):
        raise TranslationError("K7: the equidistant argument of interpolate() must be the literal False "
                               "(the model's interpolant is the non-equidistant ca.interp1d), found " + _u(eq))
    if not (isinstance(a[4], ast.Call) and _is_self_attr(a[4].func, "interpolation_method") and len(a[4].args) == 1
            and isinstance(a[4].args[0], ast.Name) and a[4].args[0].id == vv):
        raise TranslationError("K7: interpolation mode is " + _u(a[4]))
    return dict(own_scale="nomv * " if scaled else "", own_cols="[(%s, 0), (%s, 1)]" % (cols[0], cols[1]))


# =================================================================================================

GEN_TEMPLATE = """import RtcVerif.Model.C01Colloc
import RtcVerif.Proofs.C01Gen
/-!
GENERATED on every run of the C01 check by harness/translate_c01.py from
`CollocatedIntegratedOptimizationProblem.transcribe` in
/repo/src/rtctools/optimization/collocated_integrated_optimization_problem.py.  Do not edit.
The `…Gen` definitions are the source, read through the table in the header of the translator; the
theorems tie them to the model functions the C01 property theorems are about.
-/
namespace RtcVerif.Gen
open RtcVerif RtcVerif.Interp RtcVerif.C01

/-! parameter classification: which value the residual of member `m` is given for parameter `j` -/
def effParGen (E npar : Nat) (dyn : Nat → Bool) (pvals : Nat → List Rat) (m : Nat) : List Rat :=
  (List.range npar).map (fun j =>
    if %(cond)s then %(tv)s else %(ev)s)

theorem effParGen_eq_model (E npar : Nat) (dyn : Nat → Bool) (pvals : Nat → List Rat) (m : Nat) :
    effParGen E npar dyn pvals m = effPar E npar dyn pvals m := by
  unfold effParGen effPar isConstPar
  apply List.map_congr_left
  intro j _
  generalize (E == 1) = a
  generalize ((List.range (E - 1)).all fun m => (pvals (m + 1)).getD j 0 == (pvals 0).getD j 0) = b
  generalize dyn j = d
  cases a <;> cases b <;> cases d <;> rfl

/-! initial residual: argument order and model time -/
def initRowsGen (F Finit : Residual) (s : Sys) (z d u par : List Rat) : List Rat :=
  %(init)s

theorem initRowsGen_eq_model (F Finit : Residual) (s : Sys) (c : Mem) (X : Vec) :
    initRowsGen F Finit s (initStateCode s c X) (initDersCode s c X) (initInputs s c) c.par
      = initRowsCode F Finit s c X := rfl

/-! initial state and scattered initial derivatives of member `m` -/
def initStateGen (I : Inst) (m : Nat) (X : Vec) : List Rat :=
  let s := I.sys
  List.zipWith (· * ·) ((List.range s.k).map (fun j => X (%(state)s))) ((List.range s.k).map s.nom)

theorem initStateGen_eq_model (I : Inst) (m : Nat) (X : Vec) :
    initStateGen I m X = initStateCode I.sys (I.mem m) X := rfl

def initDersGen (I : Inst) (m : Nat) (X : Vec) : List Rat :=
  let s := I.sys
  let z := List.replicate s.k (0 : Rat)
%(ders)s

theorem initDersGen_eq_model (I : Inst) (m : Nat) (X : Vec) :
    initDersGen I m X = initDersCode I.sys (I.mem m) X := rfl

/-! variables with their own time stamps: interpolant at the collocation times, overwritten columns -/
def ownInterpGen (X : Vec) (idxv : Nat → Nat) (nomv : Rat) (o : Own) (tsL : List Rat) : List Rat :=
  tsL.map (fun t => %(own_scale)soutRat (interpSym o.mode
    (o.times.zip ((List.range o.times.length).map (fun q => X (idxv q)))) t))

theorem ownInterpGen_eq_model (X : Vec) (idxv : Nat → Nat) (nomv : Rat) (o : Own) (tsL : List Rat) :
    ownInterpGen X idxv nomv o tsL = interpOwnAll X idxv nomv o tsL := rfl

def ownColsGen (k j : Nat) : List (Nat × Nat) := %(own_cols)s

theorem ownColsGen_eq_model (k j : Nat) : ownColsGen k j = ownCols k j := by
  unfold ownColsGen ownCols
  first
    | rfl
    | (simp only [List.cons.injEq, Prod.mk.injEq, and_true, true_and]; omega)

/-! collocation block: finite differences, residual calls, theta branch -/
def collocBlockGen (F : Residual) (theta tinit : Rat) (par s0 s1 c0 c1 : List Rat) (ta tb : Rat) : List Rat :=
  if theta = 0 then %(b0)s
  else if theta = 1 then %(b1)s
  else %(bm)s

theorem collocBlockGen_eq_model (F : Residual) (theta tinit : Rat) (par s0 s1 c0 c1 : List Rat) (ta tb : Rat) :
    collocBlockGen F theta tinit par s0 s1 c0 c1 ta tb = collocBlock F theta tinit par s0 s1 c0 c1 ta tb := by
  unfold collocBlockGen collocBlock
  split
  · rfl
  · split
    · rfl
    · first
      | rfl
      | exact vadd_comm _ _

/-! positions of the slices of the mapped input row -/
def sliceIdxGen (k nc : Nat) : List (Nat × Nat) := %(idx)s
def timeIdxGen (k nc : Nat) : Nat × Nat := %(tim)s

theorem sliceIdxGen_eq_model (k nc : Nat) : sliceIdxGen k nc = sliceIdx k nc := by
  unfold sliceIdxGen sliceIdx
  first
    | rfl
    | (simp only [List.cons.injEq, Prod.mk.injEq, and_true, true_and]; omega)

theorem timeIdxGen_eq_model (k nc : Nat) : timeIdxGen k nc = timeIdx k nc := by
  unfold timeIdxGen timeIdx
  first
    | rfl
    | (simp only [Prod.mk.injEq]; omega)
    | (simp only [Prod.mk.injEq]; constructor <;> omega)

/-- the DAE block the mapped function computes from its input row -/
theorem blockOfRowGen_eq_model (F : Residual) (theta tinit : Rat) (par : List Rat) (k nc : Nat) (u : List Rat) :
    collocBlockGen F theta tinit par
        (slice u ((sliceIdxGen k nc).getD 0 (0, 0)).1 ((sliceIdxGen k nc).getD 0 (0, 0)).2)
        (slice u ((sliceIdxGen k nc).getD 1 (0, 0)).1 ((sliceIdxGen k nc).getD 1 (0, 0)).2)
        (slice u ((sliceIdxGen k nc).getD 2 (0, 0)).1 ((sliceIdxGen k nc).getD 2 (0, 0)).2)
        (slice u ((sliceIdxGen k nc).getD 3 (0, 0)).1 ((sliceIdxGen k nc).getD 3 (0, 0)).2)
        (u.getD (timeIdxGen k nc).1 0) (u.getD (timeIdxGen k nc).2 0)
      = blockOfRow F theta tinit par k nc u := by
  rw [collocBlockGen_eq_model, sliceIdxGen_eq_model, timeIdxGen_eq_model, blockOfRow_idx]

end RtcVerif.Gen
"""

THEOREMS = ["effParGen_eq_model", "initRowsGen_eq_model", "initStateGen_eq_model", "initDersGen_eq_model",
            "ownInterpGen_eq_model", "ownColsGen_eq_model",
            "collocBlockGen_eq_model", "sliceIdxGen_eq_model", "timeIdxGen_eq_model", "blockOfRowGen_eq_model"]


def translate():
    path = os.path.join(REPO, *SRC)
    fn = _find_method(ast.parse(open(path).read()), "CollocatedIntegratedOptimizationProblem", "transcribe")
    F = Fn(fn)
    k4 = _k4(F)
    init = _k5(F)
    k6 = _k6(F)
    k1 = _k1(F)
    k7 = _k7(F)
    var_sc = ("scatter %%s (List.range s.nd)\n    (List.zipWith (· * ·) ((List.range s.nd).map (fun j => %s)) "
              "((List.range s.nd).map (fun j => %s)))" % (k6["vi"], k6["vn"])).replace("(fun j => s.dnom j)", "s.dnom")
    const_sc = ("scatter %%s ((List.range (s.k - s.nd)).map (s.nd + ·))\n    ((List.range (s.k - s.nd)).map (fun q => %s))"
                % k6["cv"]).replace("histDer (I.hist m (s.nd + q)) s.t0", "(I.mem m).dconst (s.nd + q)")
    # the model states the history constant through `(I.mem m).dconst`, which unfolds to histDer (I.hist m v) t0
    const_sc = const_sc.replace("(I.mem m).dconst (s.nd + q)", "histDer (I.hist m (s.nd + q)) s.t0")
    if k6["order"] == "var-first":
        ders = "  let a := %s\n  %s" % (var_sc % "z", const_sc % "a")
    else:
        ders = "  let a := %s\n  %s" % (const_sc % "z", var_sc % "a")
    d = dict(k4)
    d.update(init=init, state=k6["state"], ders=ders)
    d.update(k1)
    d.update(k7)
    return GEN_TEMPLATE % d


def gen_colloc_kernels(c):
    """(re)generate lean/RtcVerif/Gen/CollocKernels.lean; returns the extra obligation spec for c.prove"""
    gdir = os.path.join(LEAN_DIR, "RtcVerif", "Gen")
    os.makedirs(gdir, exist_ok=True)
    path = os.path.join(gdir, "CollocKernels.lean")
    what = "translator: CollocatedIntegratedOptimizationProblem.transcribe"
    try:
        text = translate()
    except TranslationError as e:
        c.broken.append((what, str(e)))
        return []
    except (OSError, SyntaxError) as e:
        c.broken.append((what, "cannot read/parse the source: %s" % e))
        return []
    old = open(path).read() if os.path.exists(path) else None
    if old != text:
        tmp = path + ".tmp%d" % os.getpid()
        with open(tmp, "w") as f:
            f.write(text)
        os.replace(tmp, path)
    return [("RtcVerif.Gen.CollocKernels", "RtcVerif.Gen", list(THEOREMS))]


# =================================================================================================
# Second generated module: Gen/CollocPlumbing.lean (index lists, tiling / reshape, mapped input row,
# history block, reduce_matvec)

HELPERS = ("src", "rtctools", "_internal", "casadi_helpers.py")


def _int_lit(node):
    """integer literal, possibly negated -> int or None"""
    if isinstance(node, ast.Constant) and isinstance(node.value, int) and not isinstance(node.value, bool):
        return node.value
    if isinstance(node, ast.UnaryOp) and isinstance(node.op, ast.USub) and isinstance(node.operand, ast.Constant) \
            and isinstance(node.operand.value, int) and not isinstance(node.operand.value, bool):
        return -node.operand.value
    return None


def _is_colloc_vars(F, name):
    """`name` is the list states + algebraics + control_inputs"""
    txt = " ".join(_u(d.value, 10 ** 5) for d in F.all_defs(name))
    return "self.dae_variables['states']" in txt and "self.dae_variables['control_inputs']" in txt \
        and "self.dae_variables['algebraics']" in txt


def _is_colloc_names(F, node, before):
    """[v.name() for v in <collocated variables>] (through a local)"""
    if isinstance(node, ast.Name):
        node = F.the_def(node.id, before).value
    if not (isinstance(node, ast.ListComp) and len(node.generators) == 1 and not node.generators[0].ifs):
        return False
    g = node.generators[0]
    e = node.elt
    return isinstance(g.target, ast.Name) and isinstance(g.iter, ast.Name) and _is_colloc_vars(F, g.iter.id) \
        and isinstance(e, ast.Call) and isinstance(e.func, ast.Attribute) and e.func.attr == "name" and not e.args \
        and isinstance(e.func.value, ast.Name) and e.func.value.id == g.target.id


class _Nat:
    """index arithmetic over n (= len(self.times())), k, nc; `names` gives the Lean spelling"""

    def __init__(self, F, names, loopvars=None):
        self.F, self.names, self.loopvars = F, names, loopvars or {}

    def __call__(self, node, before):
        F = self.F
        if isinstance(node, ast.Constant) and isinstance(node.value, int) and not isinstance(node.value, bool) \
                and node.value >= 0:
            return str(node.value)
        if isinstance(node, ast.BinOp) and isinstance(node.op, (ast.Add, ast.Mult, ast.Sub)):
            op = {ast.Add: "+", ast.Mult: "*", ast.Sub: "-"}[type(node.op)]
            return "(%s %s %s)" % (self(node.left, before), op, self(node.right, before))
        if isinstance(node, ast.Call) and isinstance(node.func, ast.Name) and node.func.id == "len" and len(node.args) == 1 \
                and not node.keywords:
            a = node.args[0]
            if _dae_vars_key(a) == "constant_inputs":
                return self.names["nc"]
            if isinstance(a, ast.Name):
                if _is_colloc_vars(F, a.id):
                    return self.names["k"]
                if _is_colloc_names(F, a, before):
                    return self.names["k"]
                d = F.the_def(a.id, before).value
                if isinstance(d, ast.Call) and _is_self_attr(d.func, "times") and not d.args and not d.keywords:
                    return self.names["n"]
        if isinstance(node, ast.Name):
            if node.id in self.loopvars:
                return self.loopvars[node.id]
            return self(F.the_def(node.id, before).value, before)
        raise TranslationError("unsupported index expression " + _u(node))


def _slice_term(base, sl, nat, before, what):
    """Python slice of a list -> Lean term (table: [:-1] dropLast, [1:] tail, [a:] drop a, [:b] take b,
    [a:b] (take b).drop a, [0:b] take b, [:-c] take (length - c))"""
    if not isinstance(sl, ast.Slice) or sl.step is not None:
        raise TranslationError("%s: unsupported subscript %s" % (what, _u(sl)))
    lo, hi = sl.lower, sl.upper
    t = base
    if hi is not None:
        v = _int_lit(hi)
        if v is not None and v < 0:
            t = "(%s).dropLast" % t if v == -1 else "((%s).take ((%s).length - %d))" % (t, t, -v)
        else:
            t = "((%s).take %s)" % (t, nat(hi, before))
    if lo is not None:
        v = _int_lit(lo)
        if v is None or v < 0:
            if v is not None:
                raise TranslationError("%s: negative lower bound %s" % (what, _u(sl)))
            t = "((%s).drop %s)" % (t, nat(lo, before))
        elif v == 1 and hi is None:
            t = "(%s).tail" % t
        elif v > 0:
            t = "((%s).drop %d)" % (t, v)
    return t


def _member_loop(F, node):
    m = F.enclosing(node, ast.For)
    while m is not None and not _range_ensemble(m.iter):
        m = F.enclosing(m, ast.For)
    if m is None or not isinstance(m.target, ast.Name):
        raise TranslationError("not inside `for <m> in range(self.ensemble_size)`: " + _u(node, 60))
    return m


def _is_X(F, node, before):
    if not isinstance(node, ast.Name):
        return False
    xd = F.the_def(node.id, before).value
    return isinstance(xd, ast.Call) and _u(xd.func) == "ca.MX.sym" and xd.args \
        and isinstance(xd.args[0], ast.Constant) and xd.args[0].value == "X"


# -- K8: index lists --------------------------------------------------------------------------------


def _ext_slice(st):
    """<L>.extend(<name>[slice]) -> (L, name, slice)"""
    if isinstance(st, ast.Expr) and isinstance(st.value, ast.Call) and isinstance(st.value.func, ast.Attribute) \
            and st.value.func.attr == "extend" and isinstance(st.value.func.value, ast.Name) and len(st.value.args) == 1 \
            and not st.value.keywords:
        a = st.value.args[0]
        if isinstance(a, ast.Subscript) and isinstance(a.value, ast.Name) and isinstance(a.slice, ast.Slice):
            return st.value.func.value.id, a.value.id, a.slice
    return None


def _k8(F):
    loop = None
    for node in ast.walk(F.fn):
        if isinstance(node, ast.For) and len([st for st in node.body if _ext_slice(st)]) == 2 \
                and "__indices_as_lists" in _u(node, 10 ** 6):
            if loop is not None:
                raise TranslationError("K8: two candidate index-list loops")
            loop = node
    if loop is None:
        raise TranslationError("K8: the loop filling the explicit / implicit index lists was not found")
    mloop = _member_loop(F, loop)
    mvar = mloop.target.id
    if not (isinstance(loop.target, ast.Name) and _is_colloc_names(F, loop.iter, loop.lineno)) or loop.orelse:
        raise TranslationError("K8: loop header " + _u(loop.iter))
    vv = loop.target.id
    nat = _Nat(F, {"n": "n", "k": "k", "nc": "nc"})
    env = {}
    pieces = {}

    def is_n(node):
        try:
            return nat(node, loop.lineno) == "n"
        except TranslationError:
            return False

    def placeholder(node):
        d = F.the_def(node.id, loop.lineno).value if isinstance(node, ast.Name) else node
        if isinstance(d, ast.BinOp) and isinstance(d.op, ast.Mult):
            for a, b in ((d.left, d.right), (d.right, d.left)):
                if isinstance(a, ast.List) and len(a.elts) == 1 and _int_lit(a.elts[0]) == -1 and is_n(b):
                    return True
        return False

    def padded(st):
        t = st.test
        ok = isinstance(t, ast.Compare) and len(t.ops) == 1 and isinstance(t.ops[0], ast.NotEq) and not st.orelse
        name = None
        if ok:
            for a, b in ((t.left, t.comparators[0]), (t.comparators[0], t.left)):
                if isinstance(a, ast.Call) and isinstance(a.func, ast.Name) and a.func.id == "len" and len(a.args) == 1 \
                        and isinstance(a.args[0], ast.Name) and a.args[0].id in env and is_n(b):
                    name = a.args[0].id
        if name is None:
            raise TranslationError("K8: unsupported condition " + _u(t))
        stage = 0  # 0 start, 1 copied, 2 extended, 3 cut
        for b in st.body:
            if isinstance(b, ast.Assign) and len(b.targets) == 1 and isinstance(b.targets[0], ast.Name) \
                    and b.targets[0].id == name:
                v = b.value
                if stage == 0 and isinstance(v, ast.Call) and isinstance(v.func, ast.Attribute) and v.func.attr == "copy" \
                        and isinstance(v.func.value, ast.Name) and v.func.value.id == name and not v.args:
                    stage = 1
                    continue
                if stage == 0 and isinstance(v, ast.Call) and isinstance(v.func, ast.Name) and v.func.id == "list" \
                        and len(v.args) == 1 and isinstance(v.args[0], ast.Name) and v.args[0].id == name:
                    stage = 1
                    continue
                if stage == 2 and isinstance(v, ast.Subscript) and isinstance(v.value, ast.Name) and v.value.id == name \
                        and isinstance(v.slice, ast.Slice) and v.slice.lower is None and v.slice.step is None \
                        and v.slice.upper is not None and is_n(v.slice.upper):
                    stage = 3
                    continue
            if stage == 1 and isinstance(b, ast.Expr) and isinstance(b.value, ast.Call) \
                    and isinstance(b.value.func, ast.Attribute) and b.value.func.attr == "extend" \
                    and isinstance(b.value.func.value, ast.Name) and b.value.func.value.id == name \
                    and len(b.value.args) == 1 and placeholder(b.value.args[0]):
                stage = 2
                continue
            if stage == 0 and isinstance(b, ast.Expr) and "extend" in _u(b):
                raise TranslationError("K8: the stored index list is extended in place (no copy): " + _u(b))
            raise TranslationError("K8: unsupported statement in the padding block: " + _u(b))
        if stage != 3:
            raise TranslationError("K8: the padding block is not copy / extend(place holder) / [:n]")
        env[name] = "(padCut %s n ph)" % env[name]

    for st in loop.body:
        if isinstance(st, ast.Assign) and len(st.targets) == 1 and isinstance(st.targets[0], ast.Name):
            v = st.value
            ok = isinstance(v, ast.Subscript) and isinstance(v.slice, ast.Name) and v.slice.id == vv \
                and isinstance(v.value, ast.Subscript) and _is_self_attr(v.value.value, "__indices_as_lists") \
                and isinstance(v.value.slice, ast.Name) and v.value.slice.id == mvar
            if not ok:
                raise TranslationError("K8: unsupported statement " + _u(st))
            env[st.targets[0].id] = "(raw v)"
        elif isinstance(st, ast.If):
            padded(st)
        elif _ext_slice(st):
            L, name, sl = _ext_slice(st)
            if name not in env:
                raise TranslationError("K8: `%s` is not the index list of the variable" % name)
            if L in pieces:
                raise TranslationError("K8: `%s` is extended twice" % L)
            pieces[L] = _slice_term(env[name], sl, nat, st.lineno, "K8")
        else:
            raise TranslationError("K8: unsupported statement " + _u(st))
    for L in pieces:
        d = F.the_def(L, loop.lineno)
        if not (isinstance(d.value, ast.List) and not d.value.elts) or _member_loop(F, d) is not mloop \
                or len([x for x in F.all_defs(L)]) != 1:
            raise TranslationError("K8: `%s` is not a fresh empty list of this ensemble member" % L)
    return dict(pieces=pieces, mloop=mloop, loop=loop)


# -- K9: tiled nominals, product, reshape ------------------------------------------------------------


def _k9(F, k8):
    pieces = k8["pieces"]
    prod = None
    for node in ast.walk(k8["mloop"]):
        if isinstance(node, ast.Assign) and len(node.targets) == 1 and isinstance(node.targets[0], ast.Name) \
                and isinstance(node.value, ast.BinOp) and isinstance(node.value.op, ast.Mult):
            for a, b in ((node.value.left, node.value.right), (node.value.right, node.value.left)):
                if isinstance(a, ast.Call) and _u(a.func) == "ca.vertcat" and len(a.args) == 2 and all(
                        isinstance(x, ast.Subscript) and isinstance(x.slice, ast.Name) and x.slice.id in pieces
                        for x in a.args):
                    if prod is not None:
                        raise TranslationError("K9: two products of the index lists")
                    prod = (node, a, b)
    if prod is None:
        raise TranslationError("K9: `ca.vertcat(X[explicit], X[implicit]) * repeated_nominals` not found")
    node, vc, rn = prod
    if node.lineno < k8["loop"].lineno:
        raise TranslationError("K9: the product precedes the loop that fills the index lists")
    for x in vc.args:
        if not _is_X(F, x.value, node.lineno):
            raise TranslationError("K9: `%s` is not the decision vector" % _u(x.value))
    halves = [vc.args[0].slice.id, vc.args[1].slice.id]
    if halves[0] == halves[1]:
        raise TranslationError("K9: the same index list is used for both halves")
    nat = _Nat(F, {"n": "n", "k": "k", "nc": "nc"})
    rd = F.the_def(rn.id, node.lineno).value if isinstance(rn, ast.Name) else rn
    ok = isinstance(rd, ast.Call) and _u(rd.func) == "np.tile" and len(rd.args) == 2 and not rd.keywords \
        and isinstance(rd.args[0], ast.Call) and _u(rd.args[0].func) == "np.repeat" and len(rd.args[0].args) == 2 \
        and not rd.args[0].keywords
    if not ok:
        raise TranslationError("K9: repeated nominals are " + _u(rd))
    nm = rd.args[0].args[0]
    nd = F.the_def(nm.id, node.lineno).value if isinstance(nm, ast.Name) else nm
    if isinstance(nd, ast.Call) and _u(nd.func) == "np.array" and len(nd.args) == 1:
        nd = nd.args[0]
    okn = isinstance(nd, ast.ListComp) and len(nd.generators) == 1 and not nd.generators[0].ifs \
        and isinstance(nd.generators[0].target, ast.Name) and _is_colloc_names(F, nd.generators[0].iter, node.lineno) \
        and isinstance(nd.elt, ast.Call) and _is_self_attr(nd.elt.func, "variable_nominal") and len(nd.elt.args) == 1 \
        and isinstance(nd.elt.args[0], ast.Name) and nd.elt.args[0].id == nd.generators[0].target.id
    if not okn:
        raise TranslationError("K9: the nominal array is " + _u(nd))
    tile = _int_lit(rd.args[1])
    if tile is None or tile < 0:
        raise TranslationError("K9: tile count " + _u(rd.args[1]))
    rep = "npTile (npRepeat ((List.range k).map nom) %s) %d" % (nat(rd.args[0].args[1], node.lineno), tile)
    # the later definitions of the same local: reshape, reduce_matvec
    flat = node.targets[0].id
    later = sorted([d for d in F.all_defs(flat) if d is not node], key=lambda d: d.lineno)
    if len(later) != 2 or later[0].lineno < node.lineno:
        raise TranslationError("K9: `%s` is assigned %d more times (expected reshape, reduce_matvec)" % (flat, len(later)))
    rs, rm = later[0].value, later[1].value
    okr = isinstance(rs, ast.Call) and isinstance(rs.func, ast.Attribute) and rs.func.attr == "reshape" \
        and isinstance(rs.func.value, ast.Name) and rs.func.value.id == flat and len(rs.args) == 1 \
        and isinstance(rs.args[0], ast.Tuple) and len(rs.args[0].elts) == 2 and not rs.keywords
    if not okr:
        raise TranslationError("K9: unsupported reshape " + _u(rs))
    shape = "(%s, %s)" % (nat(rs.args[0].elts[0], later[0].lineno), nat(rs.args[0].elts[1], later[0].lineno))
    okm = isinstance(rm, ast.Call) and isinstance(rm.func, ast.Name) and rm.func.id == "reduce_matvec" and len(rm.args) == 2 \
        and isinstance(rm.args[0], ast.Name) and rm.args[0].id == flat and _is_self_attr(rm.args[1], "solver_input")
    if not okm:
        raise TranslationError("K9: unsupported re-assignment " + _u(rm))
    # element assignments to the matrix: only the own-time-stamp columns (K7), between reshape and reduce_matvec
    for n2 in ast.walk(F.fn):
        if isinstance(n2, (ast.Assign, ast.AugAssign)):
            tg = n2.targets if isinstance(n2, ast.Assign) else [n2.target]
            for t in tg:
                if isinstance(t, ast.Subscript) and isinstance(t.value, ast.Name) and t.value.id == flat:
                    lp = F.enclosing(n2, ast.For)
                    if not (later[0].lineno < n2.lineno < later[1].lineno) or lp is None or "interpolate(" not in _u(lp, 10 ** 6) \
                            or isinstance(n2, ast.AugAssign):
                        raise TranslationError("K9: the state matrix is modified by " + _u(n2))
    return dict(first=pieces[halves[0]], second=pieces[halves[1]], rep=rep, shape=shape, flat=flat)


# -- K10: the mapped input row ------------------------------------------------------------------------


def _lin(node, F, before, loopvars):
    """slot index -> linear form {'1': a, 'nc': b, 'j': c}"""
    def add(x, y, s=1):
        return {key: x.get(key, 0) + s * y.get(key, 0) for key in set(x) | set(y)}

    if isinstance(node, ast.Constant) and isinstance(node.value, int) and not isinstance(node.value, bool):
        return {"1": node.value}
    if isinstance(node, ast.Name):
        if node.id in loopvars:
            return {"j": 1}
        return _lin(F.the_def(node.id, before).value, F, before, loopvars)
    if isinstance(node, ast.Call) and isinstance(node.func, ast.Name) and node.func.id == "len" and len(node.args) == 1 \
            and _dae_vars_key(node.args[0]) == "constant_inputs":
        return {"nc": 1}
    if isinstance(node, ast.BinOp) and isinstance(node.op, ast.Add):
        return add(_lin(node.left, F, before, loopvars), _lin(node.right, F, before, loopvars))
    if isinstance(node, ast.BinOp) and isinstance(node.op, ast.Mult):
        a, b = _lin(node.left, F, before, loopvars), _lin(node.right, F, before, loopvars)
        for x, y in ((a, b), (b, a)):
            if set(k_ for k_, v in x.items() if v) <= {"1"}:
                return {key: x.get("1", 0) * v for key, v in y.items()}
    raise TranslationError("K10: unsupported slot index " + _u(node))


def _k10(F, k9):
    # anchor: <U> = ca.transpose(ca.horzcat(*<U>))
    U = fin = None
    for node in ast.walk(F.fn):
        if isinstance(node, ast.Assign) and len(node.targets) == 1 and isinstance(node.targets[0], ast.Name):
            v = node.value
            if isinstance(v, ast.Call) and _u(v.func) == "ca.transpose" and len(v.args) == 1 \
                    and isinstance(v.args[0], ast.Call) and _u(v.args[0].func) == "ca.horzcat" and len(v.args[0].args) == 1 \
                    and isinstance(v.args[0].args[0], ast.Starred) and isinstance(v.args[0].args[0].value, ast.Name) \
                    and v.args[0].args[0].value.id == node.targets[0].id:
                if U is not None:
                    raise TranslationError("K10: two transposed horzcat assemblies")
                U, fin = node.targets[0].id, node
    if U is None:
        raise TranslationError("K10: `U = ca.transpose(ca.horzcat(*U))` not found")
    defs = sorted(F.all_defs(U), key=lambda d: d.lineno)
    if len(defs) != 3 or defs[2] is not fin:
        raise TranslationError("K10: `%s` is assigned %d times" % (U, len(defs)))
    d0, d1 = defs[0].value, defs[1].value
    if not (isinstance(d0, ast.BinOp) and isinstance(d0.op, ast.Mult) and isinstance(d0.left, ast.List)
            and len(d0.left.elts) == 1 and isinstance(d0.left.elts[0], ast.Constant) and d0.left.elts[0].value is None):
        raise TranslationError("K10: the slot list starts as " + _u(d0))
    okf = isinstance(d1, ast.ListComp) and len(d1.generators) == 1 and isinstance(d1.generators[0].iter, ast.Name) \
        and d1.generators[0].iter.id == U and isinstance(d1.elt, ast.Name) and isinstance(d1.generators[0].target, ast.Name) \
        and d1.elt.id == d1.generators[0].target.id and len(d1.generators[0].ifs) == 1 \
        and _u(d1.generators[0].ifs[0]) == "%s.numel() > 0" % d1.elt.id
    if not okf:
        raise TranslationError("K10: unsupported filter of the slots " + _u(d1))
    nat = _Nat(F, {"n": "s.n", "k": "s.k", "nc": "s.nc"})
    segs = []
    for node in ast.walk(F.fn):
        if not (isinstance(node, ast.Assign) and len(node.targets) == 1 and isinstance(node.targets[0], ast.Subscript)
                and isinstance(node.targets[0].value, ast.Name) and node.targets[0].value.id == U):
            continue
        if not (defs[0].lineno < node.lineno < defs[1].lineno):
            raise TranslationError("K10: slot assigned outside the assembly: " + _u(node))
        lp = F.enclosing(node, ast.For)
        loopvars = {}
        cin_loop = False
        if lp is not None and not _range_ensemble(lp.iter):
            ok = isinstance(lp.iter, ast.Call) and isinstance(lp.iter.func, ast.Name) and lp.iter.func.id == "enumerate" \
                and isinstance(lp.target, ast.Tuple) and len(lp.target.elts) == 2 and isinstance(lp.target.elts[0], ast.Name)
            if not ok:
                raise TranslationError("K10: unsupported loop around a slot assignment: " + _u(lp.iter))
            loopvars = {lp.target.elts[0].id: "j"}
            cin_loop = _dae_vars_key(lp.iter.args[0]) == "constant_inputs"
        form = _lin(node.targets[0].slice, F, node.lineno, loopvars)
        form = {k_: v for k_, v in form.items() if v}
        v = node.value
        kind = None
        if isinstance(v, ast.Name) and v.id == k9["flat"]:
            kind = ("states",)
        elif isinstance(v, ast.Call) and _u(v.func) == "ca.MX" and len(v.args) == 1 and isinstance(v.args[0], ast.Subscript) \
                and isinstance(v.args[0].value, ast.Name) and isinstance(v.args[0].slice, ast.Slice):
            src = v.args[0].value.id
            sd = F.the_def(src, node.lineno).value
            if isinstance(sd, ast.Call) and _is_self_attr(sd.func, "times") and not sd.args and not sd.keywords:
                kind = ("time", "[%s.getD i 0]" % _slice_term("s.tsL", v.args[0].slice, nat, node.lineno, "K10"))
            elif cin_loop and isinstance(sd, ast.Subscript) and isinstance(sd.value, ast.Name) \
                    and isinstance(sd.slice, ast.Name) and sd.slice.id == lp.target.elts[1].id:
                store = F.the_def(sd.value.id, node.lineno).value
                # <store>[ensemble_member]["constant_inputs"], keyed by the name of the j-th DAE constant input
                oks = isinstance(store, ast.Subscript) and isinstance(store.slice, ast.Constant) \
                    and store.slice.value == "constant_inputs" and isinstance(store.value, ast.Subscript) \
                    and isinstance(store.value.slice, ast.Name) and store.value.slice.id == _member_loop(F, node).target.id
                nm = [b for b in lp.body if isinstance(b, ast.Assign) and isinstance(b.targets[0], ast.Name)
                      and b.targets[0].id == lp.target.elts[1].id]
                okn = len(nm) == 1 and _u(nm[0].value) == "%s.name()" % lp.target.elts[1].id and nm[0].lineno < node.lineno
                if not (oks and okn):
                    raise TranslationError("K10: constant input source " + _u(sd))
                if form.get("j") != 1:
                    raise TranslationError("K10: constant input %s stored at slot %s" % (lp.target.elts[0].id, _u(node.targets[0].slice)))
                kind = ("civ", "(List.range s.nc).map (fun j => %s.getD i 0)"
                        % _slice_term("(c.civ j)", v.args[0].slice, nat, node.lineno, "K10"))
        if kind is None:
            kind = ("extra",)
        if kind[0] != "civ" and kind[0] != "extra" and form.get("j"):
            raise TranslationError("K10: slot index depends on the loop variable: " + _u(node))
        segs.append(((form.get("nc", 0), form.get("1", 0)), kind, node))
    segs.sort(key=lambda x: x[0])
    # contiguity: slots tile 0, 1 .. 1+nc, 1+nc .. 1+2nc, ...
    pos = (0, 0)
    out = []
    seen_extra = False
    for start, kind, node in segs:
        if kind[0] == "extra":
            seen_extra = True
            if start < pos:
                raise TranslationError("K10: slot of %s overlaps the model's part of the row" % _u(node.value, 50))
            continue
        if seen_extra:
            raise TranslationError("K10: a model slot comes after the path / extra slots: " + _u(node, 80))
        if start != pos:
            raise TranslationError("K10: slot %s is not contiguous with the previous one" % _u(node.targets[0].slice))
        pos = (pos[0] + 1, pos[1]) if kind[0] == "civ" else (pos[0], pos[1] + 1)
        out.append(kind)
    if [x[0] for x in out].count("states") != 1 or out[0][0] != "states":
        raise TranslationError("K10: the state matrix is not the first slot")
    parts = ["stateCols s X c.idx i"]
    prev = "states"
    for kind in out[1:]:
        if kind[0] == "time" and prev == "time":
            parts[-1] = parts[-1][:-1] + ", " + kind[1][1:]  # consecutive one-entry slots: one list literal
        else:
            parts.append(kind[1])
        prev = kind[0]
    parts.append("c.extraU i")
    return "\n    ++ ".join(parts)


# -- K11: history block -------------------------------------------------------------------------------


def _k11(F, tr):
    if len(tr.handlers) != 1 or _u(tr.handlers[0].type) != "KeyError" or tr.orelse or tr.finalbody:
        raise TranslationError("K11: try/except shape of the history block")
    first = tr.body[0] if tr.body else None
    ok = isinstance(first, ast.Assign) and len(first.targets) == 1 and isinstance(first.targets[0], ast.Name) \
        and isinstance(first.value, ast.Subscript) and isinstance(first.value.value, ast.Name) \
        and isinstance(first.value.slice, ast.Name)
    if not ok:
        raise TranslationError("K11: the history block does not start with the lookup of the series")
    hname, hist, var = first.targets[0].id, first.value.value.id, first.value.slice.id
    out = [None]

    def col(node):
        """h.times / h.values -> column"""
        if isinstance(node, ast.Attribute) and isinstance(node.value, ast.Name) and node.value.id == hname \
                and node.attr in ("times", "values"):
            return "(ks.map (·.1))" if node.attr == "times" else "(ks.map (·.2))"
        return None

    def ex(node):
        if isinstance(node, ast.Constant) and isinstance(node.value, (int, float)) and not isinstance(node.value, bool):
            return _rat(node.value)
        if isinstance(node, ast.Subscript) and col(node.value) and _int_lit(node.slice) is not None:
            i = _int_lit(node.slice)
            return "pyAt %s %s" % (col(node.value), "(%d)" % i if i < 0 else "%d" % i)
        if isinstance(node, ast.Name):
            d = F.the_def(node.id, tr.lineno).value
            if _is_self_attr(d, "initial_time"):
                return "t0"
            raise TranslationError("K11: unsupported name `%s`" % node.id)
        if _is_self_attr(node, "initial_time"):
            return "t0"
        if isinstance(node, ast.BinOp) and isinstance(node.op, (ast.Add, ast.Sub, ast.Mult, ast.Div)):
            op = {ast.Add: "+", ast.Sub: "-", ast.Mult: "*", ast.Div: "/"}[type(node.op)]

            def par(x, n):
                return "(%s)" % x if isinstance(n, ast.BinOp) else x

            return "%s %s %s" % (par(ex(node.left), node.left), op, par(ex(node.right), node.right))
        raise TranslationError("K11: unsupported expression " + _u(node))

    def test(node):
        """-> (sort key, term)"""
        if isinstance(node, ast.BoolOp):
            parts = sorted((test(v) for v in node.values), key=lambda x: x[0])
            return (9, "(" + (" ∨ " if isinstance(node.op, ast.Or) else " ∧ ").join(p[1] for p in parts) + ")")
        if isinstance(node, ast.Compare) and len(node.ops) == 1 and isinstance(node.ops[0], ast.Eq):
            l, r = node.left, node.comparators[0]
            for a, b in ((l, r), (r, l)):
                if isinstance(a, ast.Call) and isinstance(a.func, ast.Name) and a.func.id == "len" and len(a.args) == 1 \
                        and col(a.args[0]) and _int_lit(b) is not None and _int_lit(b) >= 0:
                    return (1, "ks.length = %d" % _int_lit(b))
            tl, tr_ = ex(l), ex(r)
            if tl == "t0":
                tl, tr_ = tr_, tl
            return (0, "%s = %s" % (tl, tr_))
        raise TranslationError("K11: unsupported condition " + _u(node))

    def block(stmts):
        val = None
        for i, st in enumerate(stmts):
            if isinstance(st, ast.Assert):
                test(st.test)  # must be expressible; a precondition (the series ends at t0), not a branch
                continue
            if isinstance(st, ast.Assign) and len(st.targets) == 1 and isinstance(st.targets[0], ast.Name) and val is None:
                if out[0] not in (None, st.targets[0].id):
                    raise TranslationError("K11: two result names `%s`, `%s`" % (out[0], st.targets[0].id))
                out[0] = st.targets[0].id
                val = ex(st.value)
                continue
            if isinstance(st, ast.If) and val is None and i == len(stmts) - 1 and st.orelse:
                c = test(st.test)[1]
                if c.startswith("(") and c.endswith(")"):
                    c = c[1:-1]
                return "if %s then %s\n    else %s" % (c, block(st.body), block(st.orelse))
            raise TranslationError("K11: unsupported statement " + _u(st))
        if val is None:
            raise TranslationError("K11: a branch of the history block assigns nothing")
        return val

    body = block(tr.body[1:])
    exc = block(tr.handlers[0].body)
    return dict(hist=hist, var=var, out=out[0], term="Option.elim h %s (fun ks =>\n    %s)" % (exc, body))


# -- K12: reduce_matvec -------------------------------------------------------------------------------


def _k12():
    path = os.path.join(REPO, *HELPERS)
    tree = ast.parse(open(path).read())
    fn = [n for n in tree.body if isinstance(n, ast.FunctionDef) and n.name == "reduce_matvec"]
    if len(fn) != 1:
        raise TranslationError("K12: reduce_matvec not found in casadi_helpers.py")
    fn = fn[0]
    args = [a.arg for a in fn.args.args]
    if len(args) != 2 or fn.args.defaults or fn.args.vararg or fn.args.kwarg:
        raise TranslationError("K12: signature %r" % args)
    e, v = args

    def is_name(n, x):
        return isinstance(n, ast.Name) and n.id == x

    def value(node, env):
        """-> term"""
        if isinstance(node, ast.Name) and node.id in env:
            return env[node.id]
        if isinstance(node, ast.BinOp) and isinstance(node.op, (ast.Add, ast.Sub)):
            a, b = value(node.left, env), value(node.right, env)
            if a.startswith("@") or b.startswith("@"):
                raise TranslationError("K12: arithmetic on " + _u(node))
            if isinstance(node.op, ast.Add) and b == "lin":
                a, b = b, a  # addition of reals commutes: the linear part is written first
            return "(%s %s %s)" % (a, "+" if isinstance(node.op, ast.Add) else "-", b)
        if isinstance(node, ast.Call):
            f = _u(node.func)
            a = node.args
            if f == "ca.Function" and len(a) == 3 and isinstance(a[1], ast.List) and len(a[1].elts) == 1 \
                    and _u(a[1].elts[0]) == "ca.MX()" and isinstance(a[2], ast.List) and len(a[2].elts) == 1 \
                    and _u(a[2].elts[0]) == "ca.jacobian(%s, %s)" % (e, v):
                return "@jacfun"
            if isinstance(node.func, ast.Name) and env.get(node.func.id) == "@jacfun" and len(a) == 1 and _u(a[0]) == "ca.DM()":
                return "@jac"
            if f == "ca.reshape" and len(a) == 2 and _u(a[1]) == "%s.shape" % e and isinstance(a[0], ast.Call) \
                    and _u(a[0].func) == "ca.mtimes" and len(a[0].args) == 2 and value(a[0].args[0], env) == "@jac" \
                    and is_name(a[0].args[1], v):
                return "lin"
            if f == "ca.substitute" and len(a) == 3 and is_name(a[0], e) and is_name(a[1], v) \
                    and _u(a[2]) in ("ca.MX.zeros(%s.sparsity())" % v, "ca.MX.zeros(%s.shape)" % v,
                                     "ca.MX.zeros(*%s.shape)" % v):
                return "const"
            if f == "ca.evalf" and len(a) == 1 and value(a[0], env) == "const":
                return "const"  # numeric evaluation keeps the value
        raise TranslationError("K12: unsupported expression " + _u(node))

    def test(node, env):
        if isinstance(node, ast.UnaryOp) and isinstance(node.op, ast.Not):
            t = test(node.operand, env)
            return {"sym = true": "sym = false", "sym = false": "sym = true"}.get(t) or "¬ (%s)" % t
        if isinstance(node, ast.Call) and _u(node.func) == "ca.symvar" and len(node.args) == 1 \
                and value(node.args[0], env) == "const":
            return "sym = true"
        if isinstance(node, ast.Call) and isinstance(node.func, ast.Attribute) and node.func.attr == "is_zero" \
                and not node.args and value(node.func.value, env) == "const":
            return "const = 0"
        raise TranslationError("K12: unsupported condition " + _u(node))

    def block(stmts, env):
        env = dict(env)
        for i, st in enumerate(stmts):
            if isinstance(st, ast.Expr) and isinstance(st.value, ast.Constant) and isinstance(st.value.value, str):
                continue
            if isinstance(st, ast.Assign) and len(st.targets) == 1 and isinstance(st.targets[0], ast.Name):
                env[st.targets[0].id] = value(st.value, env)
                continue
            if isinstance(st, ast.Return) and st.value is not None:
                t = value(st.value, env)
                if t.startswith("@"):
                    raise TranslationError("K12: returns " + _u(st.value))
                return t
            if isinstance(st, ast.If):
                rest = stmts[i + 1:]
                return "(if %s then %s else %s)" % (test(st.test, env), block(st.body + rest, env),
                                                    block(st.orelse + rest, env))
            raise TranslationError("K12: unsupported statement " + _u(st))
        raise TranslationError("K12: a path of reduce_matvec does not return")

    return block(fn.body, {})


def _k12_calls(F):
    """the three aggregates that go through reduce_matvec(<same>, self.solver_input)"""
    found = set()
    for node in ast.walk(F.fn):
        if isinstance(node, ast.Assign) and len(node.targets) == 1 and isinstance(node.value, ast.Call) \
                and isinstance(node.value.func, ast.Name) and node.value.func.id == "reduce_matvec":
            a = node.value.args
            if len(a) != 2 or not _is_self_attr(a[1], "solver_input"):
                raise TranslationError("K12: unsupported call " + _u(node.value))
            t = node.targets[0]
            if isinstance(t, ast.Subscript) and isinstance(t.slice, ast.Constant) and _u(t) == _u(a[0]):
                found.add(t.slice.value)
    for key in ("initial_state", "initial_derivatives"):
        if key not in found:
            raise TranslationError("K12: ensemble_aggregate[%r] does not go through reduce_matvec(<itself>, self.solver_input)" % key)


# -- K13: cached functions vs clear_transcription_cache ------------------------------------------------


def _k13(tree, F):
    """slots transcribe() reads when cached (`self.__x is None` tests of attributes it also assigns) and the slots
    clear_transcription_cache() resets"""
    def priv(node):
        if isinstance(node, ast.Attribute) and isinstance(node.value, ast.Name) and node.value.id == "self" \
                and "__" in node.attr:
            return node.attr.split("__")[-1]
        return None

    tested, assigned = set(), set()
    for node in ast.walk(F.fn):
        if isinstance(node, ast.Compare) and len(node.ops) == 1 and isinstance(node.ops[0], (ast.Is, ast.IsNot)) \
                and isinstance(node.comparators[0], ast.Constant) and node.comparators[0].value is None and priv(node.left):
            tested.add(priv(node.left))
        if isinstance(node, ast.Assign):
            for t in node.targets:
                if priv(t):
                    assigned.add(priv(t))
    slots = sorted(tested & assigned)
    if not slots:
        raise TranslationError("K13: no lazily built cached function found in transcribe()")
    cl = _find_method(tree, "CollocatedIntegratedOptimizationProblem", "clear_transcription_cache")
    cleared = []
    for st in cl.body:
        if isinstance(st, ast.Expr) and isinstance(st.value, ast.Constant) and isinstance(st.value.value, str):
            continue
        if isinstance(st, ast.Assign) and all(priv(t) for t in st.targets) and isinstance(st.value, ast.Constant) \
                and st.value.value is None:
            cleared += [priv(t) for t in st.targets]
            continue
        raise TranslationError("K13: unsupported statement in clear_transcription_cache: " + _u(st))

    def lst(xs):
        return "[" + ", ".join('"%s"' % x for x in xs) + "]"

    return dict(slots=lst(slots), cleared=lst(sorted(set(cleared))))


PLUMB_TEMPLATE = """import RtcVerif.Model.C01Plumb
import RtcVerif.Proofs.C01Plumb
/-!
GENERATED on every run of the C01 check by harness/translate_c01.py (`gen_colloc_plumbing`) from
`CollocatedIntegratedOptimizationProblem.transcribe` in
/repo/src/rtctools/optimization/collocated_integrated_optimization_problem.py and `reduce_matvec` in
/repo/src/rtctools/_internal/casadi_helpers.py.  Do not edit.
-/
namespace RtcVerif.Gen
open RtcVerif RtcVerif.Interp RtcVerif.C01

/-! index lists: first / second argument of `ca.vertcat(X[..], X[..])` as the loop fills them -/
def firstHalfGen (raw : Nat → List Nat) (k n ph : Nat) : List Nat :=
  (List.range k).flatMap (fun v => %(first)s)

def secondHalfGen (raw : Nat → List Nat) (k n ph : Nat) : List Nat :=
  (List.range k).flatMap (fun v => %(second)s)

theorem indexListsGen_eq_model (raw : Nat → List Nat) (k n ph : Nat) :
    firstHalfGen raw k n ph = explicitInds (idxOf raw ph) k n
    ∧ secondHalfGen raw k n ph = implicitInds (idxOf raw ph) k n :=
  ⟨explicitIndsCode_eq raw k n ph, implicitIndsCode_eq raw k n ph⟩

/-! tiled nominals, element-wise product, reshape -/
def repeatedNominalsGen (nom : Nat → Rat) (k n : Nat) : List Rat :=
  %(rep)s

theorem repeatedNominalsGen_eq_model (nom : Nat → Rat) (k n : Nat) :
    repeatedNominalsGen nom k n = repeatedNominals nom k n :=
  repeatedNominalsCode_eq nom k n

def interpolatedFlatGen (X : Vec) (raw : Nat → List Nat) (nom : Nat → Rat) (k n ph : Nat) : List Rat :=
  List.zipWith (· * ·) ((firstHalfGen raw k n ph).map X ++ (secondHalfGen raw k n ph).map X)
    (repeatedNominalsGen nom k n)

theorem interpolatedFlatGen_eq_model (X : Vec) (raw : Nat → List Nat) (nom : Nat → Rat) (k n ph : Nat) :
    interpolatedFlatGen X raw nom k n ph = interpolatedFlat X (idxOf raw ph) nom k n := by
  unfold interpolatedFlatGen interpolatedFlat
  rw [(indexListsGen_eq_model raw k n ph).1, (indexListsGen_eq_model raw k n ph).2,
    repeatedNominalsGen_eq_model, List.map_append]

/-- the shape handed to `reshape` -/
def reshapeShapeGen (k n : Nat) : Nat × Nat := %(shape)s

set_option linter.unnecessarySeqFocus false in
theorem reshapeShapeGen_eq_model (k n : Nat) : reshapeShapeGen k n = (n - 1, 2 * k) := by
  unfold reshapeShapeGen
  first
    | rfl
    | (ext <;> dsimp only <;> try omega)

/-- entry `(i, j)` / `(i, k + j)` of the reshaped matrix: nominal × decision variable of variable `j`
    at collocation time `i` / `i + 1` (what `C01_rows_eq_theta` uses through `stateEntry`) -/
theorem stateMatrixGen_entries (X : Vec) (raw : Nat → List Nat) (nom : Nat → Rat) (k n ph i j : Nat)
    (hj : j < k) (hi : i < n - 1) :
    reshapeAt (interpolatedFlatGen X raw nom k n ph) (reshapeShapeGen k n).1 i j
        = nom j * X (idxOf raw ph j i)
    ∧ reshapeAt (interpolatedFlatGen X raw nom k n ph) (reshapeShapeGen k n).1 i (k + j)
        = nom j * X (idxOf raw ph j (i + 1)) := by
  rw [interpolatedFlatGen_eq_model, reshapeShapeGen_eq_model]
  exact ⟨reshape_explicit X _ nom k n i j hj hi, reshape_implicit X _ nom k n i j hj hi⟩

/-! the mapped input row: slots of `accumulation_U`, in slot order, at step `i` -/
def uRowGen (s : Sys) (c : Mem) (X : Vec) (i : Nat) : List Rat :=
  %(urow)s

theorem uRowGen_eq_model (s : Sys) (c : Mem) (X : Vec) (i : Nat) : uRowGen s c X i = uRow s c X i := rfl

/-! history block: initial derivative of a non-differentiated variable -/
def histDerGen (h : Option Knots) (t0 : Rat) : Rat :=
  %(hist)s

theorem histDerGen_eq_model (h : Option Knots) (t0 : Rat) : histDerGen h t0 = histDer h t0 :=
  (show histDerGen h t0 = histDerCode h t0 from rfl).trans (histDerCode_eq h t0)

/-! `reduce_matvec` on one entry of an affine expression: `lin` = (jacobian · v), `const` = the
    expression at `v = 0`, `sym` = the constant part has free symbols -/
def reduceMatvecGen (lin const : Rat) (sym : Bool) : Rat :=
  %(reduce)s

theorem reduceMatvecGen_eq_model (lin const : Rat) (sym : Bool) :
    reduceMatvecGen lin const sym = affVal lin const := by
  unfold reduceMatvecGen affVal
  (repeat' split) <;> simp_all

/-- the initial derivatives handed to the initial residual (`C01_initial_rows`) after
    `reduce_matvec`: decision variable × nominal, or the history constant (finding F36) -/
theorem initDersReducedGen_eq_model (I : Inst) (m : Nat) (X : Vec) (hnd : I.sys.nd ≤ I.sys.k) :
    List.zipWith (fun a b => reduceMatvecGen a b false) (initDersLin I.sys (I.mem m) X)
        (List.map (fun v => if v < I.sys.nd then 0 else histDerGen (I.hist m v) I.sys.t0) (List.range I.sys.k))
      = initDersCode I.sys (I.mem m) X := by
  have h1 : (fun a b => reduceMatvecGen a b false) = affVal := by
    funext a b
    exact reduceMatvecGen_eq_model a b false
  have h2 : List.map (fun v => if v < I.sys.nd then 0 else histDerGen (I.hist m v) I.sys.t0) (List.range I.sys.k)
      = initDersConst I.sys (I.mem m) := by
    unfold initDersConst
    apply List.map_congr_left
    intro v _
    rw [histDerGen_eq_model]
    rfl
  rw [h1, h2, initDers_affine, initDersCode_eq _ _ _ hnd]

/-! cached functions: the slots `transcribe()` fills only when empty, the slots `clear_transcription_cache()` resets -/
def cacheSlotsGen : List String := %(slots)s
def clearedSlotsGen : List String := %(cleared)s

theorem clearCoversCacheGen : ∀ s ∈ cacheSlotsGen, s ∈ clearedSlotsGen := by decide

/-- after `clear_transcription_cache()` the next transcription is that of a fresh object with the current data -/
theorem clearThenFreshGen {α β : Type} (build : α → String → β) (d : α) (cache : Cache β) :
    transcribeWith cacheSlotsGen build d (clearSlots clearedSlotsGen cache)
      = transcribeWith cacheSlotsGen build d (fun _ => none) :=
  clear_then_fresh _ _ clearCoversCacheGen build d cache

end RtcVerif.Gen
"""

PLUMB_THEOREMS = ["indexListsGen_eq_model", "repeatedNominalsGen_eq_model", "interpolatedFlatGen_eq_model",
                  "reshapeShapeGen_eq_model", "stateMatrixGen_entries", "uRowGen_eq_model", "histDerGen_eq_model",
                  "reduceMatvecGen_eq_model", "initDersReducedGen_eq_model", "clearCoversCacheGen", "clearThenFreshGen"]


def translate_plumbing():
    path = os.path.join(REPO, *SRC)
    tree = ast.parse(open(path).read())
    fn = _find_method(tree, "CollocatedIntegratedOptimizationProblem", "transcribe")
    F = Fn(fn)
    k13 = _k13(tree, F)
    k8 = _k8(F)
    k9 = _k9(F, k8)
    urow = _k10(F, k9)
    # the history block: the inner try of the initial-derivative loop (found as in K6)
    hb = None
    for node in ast.walk(F.fn):
        if isinstance(node, ast.Try) and "__differentiated_states_map" in _u(node, 10 ** 6) and node.handlers \
                and node.handlers[0].body and isinstance(node.handlers[0].body[0], ast.Try):
            hb = node.handlers[0].body[0]
    if hb is None:
        raise TranslationError("K11: the history block was not found")
    k11 = _k11(F, hb)
    red = _k12()
    _k12_calls(F)
    return PLUMB_TEMPLATE % dict(first=k9["first"], second=k9["second"], rep=k9["rep"], shape=k9["shape"],
                                 urow=urow, hist=k11["term"], reduce=red, slots=k13["slots"], cleared=k13["cleared"])


def gen_colloc_plumbing(c):
    """(re)generate lean/RtcVerif/Gen/CollocPlumbing.lean; returns the extra obligation spec for c.prove"""
    gdir = os.path.join(LEAN_DIR, "RtcVerif", "Gen")
    os.makedirs(gdir, exist_ok=True)
    path = os.path.join(gdir, "CollocPlumbing.lean")
    what = "translator: transcribe() index lists / tiling / input row / history block, reduce_matvec"
    try:
        text = translate_plumbing()
    except TranslationError as e:
        c.broken.append((what, str(e)))
        return []
    except (OSError, SyntaxError) as e:
        c.broken.append((what, "cannot read/parse the source: %s" % e))
        return []
    old = open(path).read() if os.path.exists(path) else None
    if old != text:
        tmp = path + ".tmp%d" % os.getpid()
        with open(tmp, "w") as f:
            f.write(text)
        os.replace(tmp, path)
    return [("RtcVerif.Gen.CollocPlumbing", "RtcVerif.Gen", list(PLUMB_THEOREMS))]
