"""
Source-to-Lean translation of the decisive kernels of
`CollocatedIntegratedOptimizationProblem.transcribe` (second tie for C01, besides the
correspondence check).  On every run of the C01 check the method is parsed from
`$RTC_REPO/src/rtctools/optimization/collocated_integrated_optimization_problem.py`; four fragments
are located by NON-LOCAL anchors (attribute names, string literals, statement shapes), local names
are followed through their assignments (so renaming locals / reordering independent statements is
harmless), the fragments are executed symbolically against the closed table below, and
`lean/RtcVerif/Gen/CollocKernels.lean` is (re)generated with

  effParGen        which parameter value a member's residual sees    = C01.effPar
  initRowsGen      argument order / model time of the initial residual = C01.initRowsCode
  initStateGen     X[initial_state_indices] * nominals                = C01.initStateCode
  initDersGen      scattered initial derivatives (member's own index) = C01.initDersCode
  ownInterpGen / ownColsGen  interpolant of a variable with its own stamps, overwritten columns = C01.interpOwnAll / C01.ownCols
  collocBlockGen   dt, finite differences, residual calls, theta branch = C01.collocBlock
  sliceIdxGen / timeIdxGen   slices of the mapped input row            = C01.sliceIdx / C01.timeIdx
  blockOfRowGen_eq_model     the two together                          = C01.blockOfRow

Closed table "Python construct -> model term" (anything else is REJECTED: broken obligation):

 K4  parameter classification  (anchor: `for i, p in enumerate(self.dae_variables["parameters"])`
     whose body has an if/else with a member loop in the else branch)
   values = [<store>[m]["parameters"][i] for m in range(self.ensemble_size)]   val m := (pvals m).getD j 0
   len(values) == 1                                   (E == 1)       (one value per member)
   all(ca.is_equal(ca.MX(v), ca.MX(values[0]), <int>) for v in values[1:])
                                                      (List.range (E-1)).all (val (m+1) == val 0)
                                                      [TRUSTED: ca.is_equal on numeric MX is equality]
   <p>.name() [not] in <name>                         [!] dyn j      [TRUSTED: the set of dynamic names]
   and / or / not                                     && / || / !
   then-branch `<L>.append(values[c])`                inlined value val c
   else-branch `for m in range(E): <L>[m].append(values[m])`   per-member value val m
 K5  initial residual  (anchors: ca.Function("initial_residual_total", ...); the `.call` whose
     arguments read ensemble_aggregate[...]["initial_state"])
   Function inputs [P, ca.vertcat(*(A + B + ...))] with the blocks
     self.dae_variables["states"|"algebraics"|"control_inputs"]  (in this order)  vars
     names assigned from [] / self.dae_variables["derivatives"][:]                ders
     self.dae_variables["constant_inputs"] / ["time"]                             inputs / time
   Function output [ca.veccat(R, I)], R from self.dae_residual, I from self.initial_residual
     (re-assignments through ca.substitute(...) keep the meaning)                 F ... ++ Finit ...
   call([<agg>["parameters"], ca.vertcat(*[<agg>["initial_state"], <agg>["initial_derivatives"],
         <agg>["initial_constant_inputs"], ca.repmat([c], 1, E)])], False, True)
     positional binding of the actual blocks to the formal blocks; c numeric -> rational,
     collocation_times[i] -> s.ts i
     [TRUSTED: ca.Function/map/call evaluate the expression at the bound arguments, column m = member m]
 K6  initial state / derivatives  (anchor: loop with `try: i = self.__differentiated_states_map[v]`)
   for j, v in enumerate(<collocated variable names>)           j ranges over List.range s.k
   try-body succeeds                                            iff j < s.nd, with i = j
                                                                [TRUSTED: differentiated states come first]
   <L>[j] = self.__indices_as_lists[<m>][v][0]                  I.idx <m> j 0
   <L>.append(self.variable_nominal(self.__initial_derivative_names[i]))   s.dnom j
   <L>.append(self.__indices[<m>][self.__initial_derivative_names[i]])     I.didx <m> j
   <L>.append(j)                                                j
   <m> = the variable of the enclosing `for .. in range(self.ensemble_size)` -> m;  literal n -> n
   except KeyError: <history block>; <L>.append(init_der)       histDer (I.hist m j) s.t0
     the history block is matched as a whole against its pinned shape (locals renamed canonically)
   Z = ca.MX.zeros((n, 1))                                      List.replicate s.k 0
   Z[P] = X[I] * np.array(N)                                    scatter Z P (zipWith (*) (I.map X) N)
   if len(V) > 0: Z[P'] = V                                     scatter Z P' V   (empty lists: identity)
   X[L] * np.concatenate((<nominal arrays>))                    zipWith (*) (L.map X) ((range s.k).map s.nom)
 K7  variables with their own time stamps  (anchor: the loop that calls `interpolate(` with 5 arguments)
   interpolate(self.times(v), self.state_vector(v, ensemble_member=m), self.times(), False, self.interpolation_method(v))
                                                      tsL.map (fun t => outRat (interpSym o.mode (o.times.zip <values>) t))
     the 4th (equidistant) argument MUST be the literal False: the model's interpolant is ca.interp1d in
     its non-equidistant form   [TRUSTED: interp1d = the C19 interpolation model]
   if nominal != 1: R *= nominal   /   R *= nominal   (nominal = self.variable_nominal(v))   map (nomv * ·), fused
   <M>[:, c] = R[:-1]  /  <M>[:, c'] = R[1:]           columns (c, 0) / (c', 1) with Nat arithmetic over j and k
   if n == len(times): continue                       variables on the collocation grid are left to the reshape
 K1  collocation block  (anchor: `if th == 0: Y.append(a) elif th == 1: Y.append(b) else: Y.append(c)`
     with th = self.theta)
   U = ca.MX.sym("accumulated_U", ...);  U[a:b] / U[e]          slice u a b / u.getD e 0
   len(<collocated_variables>) / len(self.dae_variables["constant_inputs"])    k / nc  (Nat arithmetic + * )
   vector - vector, vector / scalar, scalar * vector, vector + vector     vsub, map (· / s), vscale, vadd
   scalar + - * /, numeric literals                             Rat arithmetic
   [r] = <f>.call([<params>, ca.vertcat(a, b, c, d)], False, True) with f = self.__dae_residual_function_collocated
                                                                F a b c d par
   `if th < 1:` / `if th > 0:` around such a definition         definedness guard; every use must be
                                                                implied by the branch condition for 0 <= theta <= 1
   t0 = self.initial_time                                       tinit
"""
import ast
import copy
import os
from fractions import Fraction

from .common import LEAN_DIR, REPO
from .translate import TranslationError, _find_method

SRC = ("src", "rtctools", "optimization", "collocated_integrated_optimization_problem.py")


def _u(node, n=110):
    try:
        return ast.unparse(node)[:n]
    except Exception:
        return ast.dump(node)[:n]


def _is_self_attr(node, suffix=None):
    return isinstance(node, ast.Attribute) and isinstance(node.value, ast.Name) and node.value.id == "self" \
        and (suffix is None or node.attr == suffix or node.attr.endswith(suffix))


def _dae_vars_key(node):
    """self.dae_variables["key"] -> key"""
    if isinstance(node, ast.Subscript) and _is_self_attr(node.value, "dae_variables") \
            and isinstance(node.slice, ast.Constant) and isinstance(node.slice.value, str):
        return node.slice.value
    return None


def _range_ensemble(node):
    return isinstance(node, ast.Call) and isinstance(node.func, ast.Name) and node.func.id == "range" \
        and len(node.args) == 1 and _is_self_attr(node.args[0], "ensemble_size")


def _rat(v):
    q = Fraction(v)
    return "%d" % q.numerator if q.denominator == 1 else "(%d / %d : Rat)" % (q.numerator, q.denominator)


class Fn:
    """the function with its assignments indexed by name"""

    def __init__(self, fn):
        self.fn = fn
        self.defs = {}
        self.parent = {}
        for node in ast.walk(fn):
            for ch in ast.iter_child_nodes(node):
                self.parent[ch] = node
        for node in ast.walk(fn):
            if isinstance(node, ast.Assign):
                for t in node.targets:
                    self._targets(t, node)
            elif isinstance(node, ast.AugAssign):
                self._targets(node.target, node)

    def _targets(self, t, node):
        if isinstance(t, ast.Name):
            self.defs.setdefault(t.id, []).append(node)
        elif isinstance(t, (ast.Tuple, ast.List)):
            for e in t.elts:
                self._targets(e, node)

    def the_def(self, name, before=None):
        ds = [d for d in self.defs.get(name, []) if before is None or d.lineno < before]
        if not ds:
            raise TranslationError("no assignment found for local `%s`" % name)
        return max(ds, key=lambda d: d.lineno)

    def all_defs(self, name):
        return self.defs.get(name, [])

    def enclosing(self, node, kind):
        p = self.parent.get(node)
        while p is not None and not isinstance(p, kind):
            p = self.parent.get(p)
        return p

    def guards(self, node):
        """tests of the enclosing `if` statements (with polarity) inside the function"""
        out = []
        ch, p = node, self.parent.get(node)
        while p is not None and p is not self.fn:
            if isinstance(p, ast.If):
                out.append((p.test, ch in p.body))
            ch, p = p, self.parent.get(p)
        return out


# =================================================================================================
# K4: parameter classification


def _k4(F):
    loop = None
    for node in ast.walk(F.fn):
        if isinstance(node, ast.For) and isinstance(node.iter, ast.Call) and isinstance(node.iter.func, ast.Name) \
                and node.iter.func.id == "enumerate" and node.iter.args \
                and _dae_vars_key(node.iter.args[0]) == "parameters":
            for st in node.body:
                if isinstance(st, ast.If) and st.orelse and any(
                        isinstance(x, ast.For) and _range_ensemble(x.iter) for x in st.orelse):
                    loop = node
    if loop is None:
        raise TranslationError("K4: parameter classification loop not found")
    if not (isinstance(loop.target, ast.Tuple) and len(loop.target.elts) == 2
            and all(isinstance(e, ast.Name) for e in loop.target.elts)):
        raise TranslationError("K4: loop target")
    iname, pname = loop.target.elts[0].id, loop.target.elts[1].id
    values = None
    the_if = None
    for st in loop.body:
        if isinstance(st, ast.Assign) and len(st.targets) == 1 and isinstance(st.targets[0], ast.Name) \
                and isinstance(st.value, ast.ListComp):
            lc = st.value
            g = lc.generators[0]
            ok = len(lc.generators) == 1 and not g.ifs and isinstance(g.target, ast.Name) and _range_ensemble(g.iter)
            e = lc.elt
            # <store>[m]["parameters"][i]
            ok = ok and isinstance(e, ast.Subscript) and isinstance(e.slice, ast.Name) and e.slice.id == iname \
                and isinstance(e.value, ast.Subscript) and isinstance(e.value.slice, ast.Constant) \
                and e.value.slice.value == "parameters" and isinstance(e.value.value, ast.Subscript) \
                and isinstance(e.value.value.slice, ast.Name) and e.value.value.slice.id == g.target.id
            if not ok or values is not None:
                raise TranslationError("K4: unsupported value list " + _u(st))
            values = st.targets[0].id
        elif isinstance(st, ast.If) and the_if is None:
            the_if = st
        else:
            raise TranslationError("K4: unsupported statement in the classification loop: " + _u(st))
    if values is None or the_if is None:
        raise TranslationError("K4: value list / branch not found")

    def val(idx):
        return "(pvals %s).getD j 0" % idx

    def test(node):
        if isinstance(node, ast.BoolOp):
            op = " && " if isinstance(node.op, ast.And) else " || "
            return "(" + op.join(test(v) for v in node.values) + ")"
        if isinstance(node, ast.UnaryOp) and isinstance(node.op, ast.Not):
            return "(!" + test(node.operand) + ")"
        if isinstance(node, ast.Compare) and len(node.ops) == 1:
            l, op, r = node.left, node.ops[0], node.comparators[0]
            # len(values) == 1
            if isinstance(op, ast.Eq) and isinstance(l, ast.Call) and isinstance(l.func, ast.Name) and l.func.id == "len" \
                    and len(l.args) == 1 and isinstance(l.args[0], ast.Name) and l.args[0].id == values \
                    and isinstance(r, ast.Constant) and r.value == 1:
                return "(E == 1)"
            # <p>.name() [not] in <name>
            if isinstance(op, (ast.In, ast.NotIn)) and isinstance(l, ast.Call) and isinstance(l.func, ast.Attribute) \
                    and l.func.attr == "name" and isinstance(l.func.value, ast.Name) and l.func.value.id == pname \
                    and not l.args and isinstance(r, ast.Name):
                return "(!dyn j)" if isinstance(op, ast.NotIn) else "(dyn j)"
        if isinstance(node, ast.Call) and isinstance(node.func, ast.Name) and node.func.id == "all" and len(node.args) == 1 \
                and isinstance(node.args[0], ast.GeneratorExp):
            ge = node.args[0]
            g = ge.generators[0]
            it = g.iter
            ok = len(ge.generators) == 1 and not g.ifs and isinstance(g.target, ast.Name) \
                and isinstance(it, ast.Subscript) and isinstance(it.value, ast.Name) and it.value.id == values \
                and isinstance(it.slice, ast.Slice) and isinstance(it.slice.lower, ast.Constant) \
                and it.slice.lower.value == 1 and it.slice.upper is None and it.slice.step is None
            e = ge.elt

            def mx(x, what):
                return isinstance(x, ast.Call) and _u(x.func) == "ca.MX" and len(x.args) == 1 and what(x.args[0])

            ok = ok and isinstance(e, ast.Call) and _u(e.func) == "ca.is_equal" and len(e.args) in (2, 3) \
                and mx(e.args[0], lambda a: isinstance(a, ast.Name) and a.id == g.target.id) \
                and mx(e.args[1], lambda a: isinstance(a, ast.Subscript) and isinstance(a.value, ast.Name)
                       and a.value.id == values and isinstance(a.slice, ast.Constant) and a.slice.value == 0)
            if ok:
                return "((List.range (E - 1)).all fun m => %s == %s)" % (val("(m + 1)"), val("0"))
        raise TranslationError("K4: unsupported condition " + _u(node))

    cond = test(the_if.test)

    def then_value(stmts):
        found = None
        for st in stmts:
            if not (isinstance(st, ast.Expr) and isinstance(st.value, ast.Call) and isinstance(st.value.func, ast.Attribute)
                    and st.value.func.attr == "append" and len(st.value.args) == 1):
                raise TranslationError("K4: unsupported statement " + _u(st))
            a = st.value.args[0]
            if isinstance(a, ast.Name) and a.id == pname:
                continue
            if isinstance(a, ast.Subscript) and isinstance(a.value, ast.Name) and a.value.id == values \
                    and isinstance(a.slice, ast.Constant) and isinstance(a.slice.value, int) and found is None:
                found = val(str(a.slice.value))
                continue
            raise TranslationError("K4: unsupported append " + _u(st))
        if found is None:
            raise TranslationError("K4: inlined value not found")
        return found

    def else_value(stmts):
        found = None
        for st in stmts:
            if isinstance(st, ast.Expr) and isinstance(st.value, ast.Call) and isinstance(st.value.func, ast.Attribute) \
                    and st.value.func.attr == "append" and len(st.value.args) == 1 \
                    and isinstance(st.value.args[0], ast.Name) and st.value.args[0].id == pname:
                continue
            if isinstance(st, ast.For) and _range_ensemble(st.iter) and isinstance(st.target, ast.Name) \
                    and len(st.body) == 1 and found is None:
                b = st.body[0]
                mv = st.target.id
                if isinstance(b, ast.Expr) and isinstance(b.value, ast.Call) and isinstance(b.value.func, ast.Attribute) \
                        and b.value.func.attr == "append" and isinstance(b.value.func.value, ast.Subscript) \
                        and isinstance(b.value.func.value.slice, ast.Name) and b.value.func.value.slice.id == mv \
                        and len(b.value.args) == 1:
                    a = b.value.args[0]
                    if isinstance(a, ast.Subscript) and isinstance(a.value, ast.Name) and a.value.id == values:
                        if isinstance(a.slice, ast.Name) and a.slice.id == mv:
                            found = val("m")
                            continue
                        if isinstance(a.slice, ast.Constant) and isinstance(a.slice.value, int):
                            found = val(str(a.slice.value))
                            continue
            raise TranslationError("K4: unsupported statement " + _u(st))
        if found is None:
            raise TranslationError("K4: per-member value not found")
        return found

    return dict(cond=cond, tv=then_value(the_if.body), ev=else_value(the_if.orelse))


# =================================================================================================
# K5: initial residual function and its call


def _k5(F):
    fun = None
    for node in ast.walk(F.fn):
        if isinstance(node, ast.Call) and _u(node.func) == "ca.Function" and node.args \
                and isinstance(node.args[0], ast.Constant) and node.args[0].value == "initial_residual_total":
            fun = node
    if fun is None or len(fun.args) < 3:
        raise TranslationError("K5: ca.Function('initial_residual_total', ...) not found")
    ins, outs = fun.args[1], fun.args[2]
    if not (isinstance(ins, ast.List) and len(ins.elts) == 2 and isinstance(outs, ast.List) and len(outs.elts) == 1):
        raise TranslationError("K5: function signature")
    vc = ins.elts[1]
    if not (isinstance(vc, ast.Call) and _u(vc.func) == "ca.vertcat" and len(vc.args) == 1
            and isinstance(vc.args[0], ast.Starred)):
        raise TranslationError("K5: second input is not ca.vertcat(*(...))")

    def chain(node):
        if isinstance(node, ast.BinOp) and isinstance(node.op, ast.Add):
            return chain(node.left) + chain(node.right)
        return [node]

    def kind(node):
        k = _dae_vars_key(node)
        if k in ("states", "algebraics", "control_inputs"):
            return ("V", k)
        if k == "constant_inputs":
            return ("C", k)
        if k == "time":
            return ("T", k)
        if isinstance(node, ast.Name):
            ds = F.all_defs(node.id)
            rhs = [d.value for d in ds if isinstance(d, ast.Assign)]
            okd = rhs and all(
                (isinstance(r, ast.List) and not r.elts)
                or (isinstance(r, ast.Subscript) and _dae_vars_key(r.value) == "derivatives") for r in rhs)
            if okd and not [d for d in ds if isinstance(d, ast.AugAssign)]:
                return ("D", node.id)
        raise TranslationError("K5: unsupported block in the function inputs: " + _u(node))

    kinds = [kind(x) for x in chain(vc.args[0].value)]
    vs = [k[1] for k in kinds if k[0] == "V"]
    if vs != ["states", "algebraics", "control_inputs"]:
        raise TranslationError("K5: variable blocks are not states, algebraics, control_inputs: %r" % vs)
    runs = []
    for k in kinds:
        if not runs or runs[-1] != k[0]:
            runs.append(k[0])
    if sorted(runs) != sorted(set(runs)) or set(runs) != {"V", "D", "C", "T"}:
        raise TranslationError("K5: input blocks are not four contiguous groups: %r" % runs)
    # outputs
    o = outs.elts[0]
    if not (isinstance(o, ast.Call) and _u(o.func) in ("ca.veccat", "ca.vertcat") and len(o.args) == 2):
        raise TranslationError("K5: output is not veccat(residual, initial residual)")

    def origin(node):
        if not isinstance(node, ast.Name):
            raise TranslationError("K5: output " + _u(node))
        src = None
        for d in sorted(F.all_defs(node.id), key=lambda d: d.lineno):
            v = d.value
            if _is_self_attr(v, "dae_residual") or _is_self_attr(v, "initial_residual"):
                src = v.attr
            elif isinstance(v, ast.Call) and _u(v.func) == "ca.substitute" and node.id in _u(v.args[0], 10 ** 6):
                continue
            else:
                raise TranslationError("K5: `%s` is re-assigned by %s" % (node.id, _u(v)))
        return src

    res_order = [origin(a) for a in o.args]
    if sorted(res_order) != ["dae_residual", "initial_residual"]:
        raise TranslationError("K5: outputs are %r" % res_order)
    # the call
    call = None
    for node in ast.walk(F.fn):
        if isinstance(node, ast.Call) and isinstance(node.func, ast.Attribute) and node.func.attr == "call" and node.args \
                and isinstance(node.args[0], ast.List) and "'initial_state'" in _u(node.args[0], 10 ** 6):
            if "'initial_derivatives'" in _u(node.args[0], 10 ** 6) and "'parameters'" in _u(node.args[0], 10 ** 6):
                call = node
    if call is None:
        raise TranslationError("K5: call of the initial residual map not found")
    # the callee must come from self.__initial_residual_with_params_fun_map
    cal = call.func.value
    if isinstance(cal, ast.Name):
        d = F.the_def(cal.id, call.lineno)
        if not _is_self_attr(d.value, "__initial_residual_with_params_fun_map"):
            raise TranslationError("K5: callee is " + _u(d.value))
    elif not _is_self_attr(cal, "__initial_residual_with_params_fun_map"):
        raise TranslationError("K5: callee is " + _u(cal))
    a = call.args[0].elts
    if len(a) != 2:
        raise TranslationError("K5: call arguments")

    def agg_key(node):
        if isinstance(node, ast.Subscript) and isinstance(node.value, ast.Name) and isinstance(node.slice, ast.Constant):
            return node.slice.value
        return None

    if agg_key(a[0]) != "parameters":
        raise TranslationError("K5: first actual argument is " + _u(a[0]))
    v2 = a[1]
    if not (isinstance(v2, ast.Call) and _u(v2.func) == "ca.vertcat"):
        raise TranslationError("K5: second actual argument is " + _u(v2))
    if len(v2.args) == 1 and isinstance(v2.args[0], ast.Starred) and isinstance(v2.args[0].value, ast.List):
        actual = v2.args[0].value.elts
    else:
        actual = v2.args
    if len(actual) != 4:
        raise TranslationError("K5: %d actual blocks" % len(actual))

    def act(node):
        k = agg_key(node)
        if k == "initial_state":
            return "z"
        if k == "initial_derivatives":
            return "d"
        if k == "initial_constant_inputs":
            return "u"
        if isinstance(node, ast.Call) and _u(node.func) == "ca.repmat" and len(node.args) == 3 \
                and _is_self_attr(node.args[2], "ensemble_size") and isinstance(node.args[1], ast.Constant) \
                and node.args[1].value == 1:
            x = node.args[0]
            if isinstance(x, ast.List) and len(x.elts) == 1:
                x = x.elts[0]
            return "T:" + _time_value(F, x, call.lineno)
        raise TranslationError("K5: unsupported actual block " + _u(node))

    binding = dict(zip(runs, [act(x) for x in actual]))
    for kd, need in (("V", "zdu"), ("D", "zdu"), ("C", "zdu")):
        if binding[kd] not in ("z", "d", "u"):
            raise TranslationError("K5: a time value is bound to the %s block" % kd)
    if not binding["T"].startswith("T:"):
        raise TranslationError("K5: the time input is bound to " + binding["T"])
    args = "%s %s %s (%s) par" % (binding["V"], binding["D"], binding["C"], binding["T"][2:])
    names = {"dae_residual": "F", "initial_residual": "Finit"}
    return " ++ ".join("%s %s" % (names[r], args) for r in res_order)


def _time_value(F, x, before):
    if isinstance(x, ast.Constant) and isinstance(x.value, (int, float)) and not isinstance(x.value, bool):
        return _rat(x.value)
    if isinstance(x, ast.Subscript) and isinstance(x.slice, ast.Constant) and isinstance(x.slice.value, int) \
            and x.slice.value >= 0:
        b = x.value
        if isinstance(b, ast.Name):
            b = F.the_def(b.id, before).value
        if isinstance(b, ast.Call) and _is_self_attr(b.func, "times") and not b.args:
            return "s.ts %d" % x.slice.value
    if _is_self_attr(x, "initial_time"):
        return "s.t0"
    if isinstance(x, ast.Name):
        return _time_value(F, F.the_def(x.id, before).value, before)
    raise TranslationError("K5: unsupported model time " + _u(x))


# =================================================================================================
# K6: initial state and initial derivatives

HISTORY_PIN = (
    "try:\n    v0 = v1[v2]\n    if v0.times[0] == v3 or len(v0.values) == 1:\n        v4 = 0.0\n    else:\n"
    "        assert v0.times[-1] == v3\n        v4 = (v0.values[-1] - v0.values[-2]) / (v0.times[-1] - v0.times[-2])\n"
    "except KeyError:\n    v4 = 0.0"
)


def _canon(node, keep=()):
    """unparse with local names renamed in order of first occurrence"""
    node = copy.deepcopy(node)
    names = {}

    class R(ast.NodeTransformer):
        def visit_Name(self, n):
            if n.id in keep:
                return n
            names.setdefault(n.id, "v%d" % len(names))
            return ast.copy_location(ast.Name(id=names[n.id], ctx=n.ctx), n)

    # strip comments is implicit; normalise commutative `or` of the two tests
    out = ast.unparse(R().visit(node))
    return out, names


def _k6(F):
    loop = None
    for node in ast.walk(F.fn):
        if isinstance(node, ast.For) and any(
                isinstance(st, ast.Try) and "__differentiated_states_map" in _u(st, 10 ** 6) for st in node.body):
            loop = node
    if loop is None:
        raise TranslationError("K6: initial derivative loop not found")
    mloop = F.enclosing(loop, ast.For)
    if mloop is None or not _range_ensemble(mloop.iter) or not isinstance(mloop.target, ast.Name):
        raise TranslationError("K6: the loop is not inside `for <m> in range(self.ensemble_size)`")
    mvar = mloop.target.id
    if not (isinstance(loop.iter, ast.Call) and isinstance(loop.iter.func, ast.Name) and loop.iter.func.id == "enumerate"
            and isinstance(loop.target, ast.Tuple) and len(loop.target.elts) == 2):
        raise TranslationError("K6: loop header " + _u(loop.iter))
    jv, vv = loop.target.elts[0].id, loop.target.elts[1].id

    def member(node):
        if isinstance(node, ast.Name) and node.id == mvar:
            return "m"
        if isinstance(node, ast.Constant) and isinstance(node.value, int) and node.value >= 0:
            return str(node.value)
        raise TranslationError("K6: unsupported ensemble member index " + _u(node))

    lists = {}  # list name -> (branch, term)
    state_idx = None
    the_try = None
    for st in loop.body:
        if isinstance(st, ast.Assign) and len(st.targets) == 1 and isinstance(st.targets[0], ast.Subscript):
            t, v = st.targets[0], st.value
            # <L>[j] = self.__indices_as_lists[<m>][v][0]
            ok = isinstance(t.value, ast.Name) and isinstance(t.slice, ast.Name) and t.slice.id == jv \
                and isinstance(v, ast.Subscript) and isinstance(v.slice, ast.Constant) and v.slice.value == 0 \
                and isinstance(v.value, ast.Subscript) and isinstance(v.value.slice, ast.Name) and v.value.slice.id == vv \
                and isinstance(v.value.value, ast.Subscript) and _is_self_attr(v.value.value.value, "__indices_as_lists")
            if not ok or state_idx is not None:
                raise TranslationError("K6: unsupported statement " + _u(st))
            state_idx = (t.value.id, "I.idx %s j 0" % member(v.value.value.slice))
        elif isinstance(st, ast.Try) and the_try is None:
            the_try = st
        else:
            raise TranslationError("K6: unsupported statement " + _u(st))
    if the_try is None or state_idx is None:
        raise TranslationError("K6: try block / initial state index not found")
    if len(the_try.handlers) != 1 or _u(the_try.handlers[0].type) != "KeyError" or the_try.orelse or the_try.finalbody:
        raise TranslationError("K6: try/except shape")
    env = {}
    first = the_try.body[0]
    if not (isinstance(first, ast.Assign) and isinstance(first.targets[0], ast.Name) and isinstance(first.value, ast.Subscript)
            and _is_self_attr(first.value.value, "__differentiated_states_map")
            and isinstance(first.value.slice, ast.Name) and first.value.slice.id == vv):
        raise TranslationError("K6: the try body does not start with the differentiated-state lookup")
    ivar = first.targets[0].id

    def dername(node):
        if isinstance(node, ast.Name) and node.id in env:
            node = env[node.id]
        return isinstance(node, ast.Subscript) and _is_self_attr(node.value, "__initial_derivative_names") \
            and isinstance(node.slice, ast.Name) and node.slice.id == ivar

    def append(st, branch):
        if not (isinstance(st, ast.Expr) and isinstance(st.value, ast.Call) and isinstance(st.value.func, ast.Attribute)
                and st.value.func.attr == "append" and isinstance(st.value.func.value, ast.Name) and len(st.value.args) == 1):
            return False
        L, a = st.value.func.value.id, st.value.args[0]
        if L in lists:
            raise TranslationError("K6: list `%s` is appended to twice" % L)
        if isinstance(a, ast.Name) and a.id == jv:
            lists[L] = (branch, "POS")
        elif branch == "var" and isinstance(a, ast.Call) and _is_self_attr(a.func, "variable_nominal") and len(a.args) == 1 \
                and dername(a.args[0]):
            lists[L] = (branch, "s.dnom j")
        elif branch == "var" and isinstance(a, ast.Subscript) and dername(a.slice) and isinstance(a.value, ast.Subscript) \
                and _is_self_attr(a.value.value, "__indices"):
            lists[L] = (branch, "X (I.didx %s j)" % member(a.value.slice))
        elif branch == "const" and isinstance(a, ast.Name) and a.id == env.get("@init_der"):
            lists[L] = (branch, "histDer (I.hist m (s.nd + q)) s.t0")
        else:
            raise TranslationError("K6: unsupported append " + _u(st))
        return True

    for st in the_try.body[1:]:
        if isinstance(st, ast.Assign) and len(st.targets) == 1 and isinstance(st.targets[0], ast.Name):
            env[st.targets[0].id] = st.value
        elif not append(st, "var"):
            raise TranslationError("K6: unsupported statement " + _u(st))
    hb = the_try.handlers[0].body
    if not hb or not isinstance(hb[0], ast.Try):
        raise TranslationError("K6: the history block is missing")
    text, names = _canon(hb[0], keep=("len", "KeyError"))
    if text != HISTORY_PIN:
        raise TranslationError("K6: the history block differs from its pinned shape:\n" + text)
    inv = {v: k for k, v in names.items()}
    # v1 = history dict of THIS member, v2 = the loop variable, v3 = t0, v4 = init_der
    if inv["v2"] != vv:
        raise TranslationError("K6: the history is looked up for `%s`" % inv["v2"])
    hd = F.the_def(inv["v1"], loop.lineno).value
    if not (isinstance(hd, ast.Call) and _is_self_attr(hd.func, "history") and len(hd.args) == 1 and member(hd.args[0]) == "m"):
        raise TranslationError("K6: history source " + _u(hd))
    t0d = F.the_def(inv["v3"], loop.lineno).value
    if not _is_self_attr(t0d, "initial_time"):
        raise TranslationError("K6: t0 is " + _u(t0d))
    env["@init_der"] = inv["v4"]
    for st in hb[1:]:
        if not append(st, "const"):
            raise TranslationError("K6: unsupported statement " + _u(st))

    # after the loop: scatter assignments and the initial state
    def find_assign(pred, what):
        hits = [n for n in ast.walk(mloop) if isinstance(n, ast.Assign) and n.lineno > loop.lineno and pred(n)]
        if len(hits) != 1:
            raise TranslationError("K6: %s: %d candidates" % (what, len(hits)))
        return hits[0]

    def lst(name, branch, want=None):
        if name not in lists or lists[name][0] != branch:
            raise TranslationError("K6: `%s` is not a list of the %s branch" % (name, branch))
        t = lists[name][1]
        if want == "POS" and t != "POS":
            raise TranslationError("K6: `%s` is not the position list" % name)
        if want == "VAL" and t == "POS":
            raise TranslationError("K6: `%s` is the position list" % name)
        return t

    def is_xmul(v):
        """X[<L>] * np.array(<N>)  /  np.array(<N>) * X[<L>] -> (L, N)"""
        if not (isinstance(v, ast.BinOp) and isinstance(v.op, ast.Mult)):
            return None
        for a, b in ((v.left, v.right), (v.right, v.left)):
            if isinstance(a, ast.Subscript) and isinstance(a.value, ast.Name) and isinstance(a.slice, ast.Name) \
                    and isinstance(b, ast.Call) and _u(b.func) in ("np.array", "np.concatenate"):
                xd = F.the_def(a.value.id, v.lineno).value
                if not (isinstance(xd, ast.Call) and _u(xd.func) == "ca.MX.sym" and xd.args
                        and isinstance(xd.args[0], ast.Constant) and xd.args[0].value == "X"):
                    raise TranslationError("K6: `%s` is not the decision vector" % a.value.id)
                return a.slice.id, b
        return None

    var_sc = find_assign(lambda n: isinstance(n.targets[0], ast.Subscript) and isinstance(n.targets[0].slice, ast.Name)
                         and n.targets[0].slice.id in lists and lists[n.targets[0].slice.id][0] == "var", "scatter of the variable branch")
    zname = var_sc.targets[0].value.id
    zd = F.the_def(zname, var_sc.lineno).value
    if not (isinstance(zd, ast.Call) and _u(zd.func) == "ca.MX.zeros"):
        raise TranslationError("K6: `%s` does not start as zeros" % zname)
    xm = is_xmul(var_sc.value)
    if xm is None or _u(xm[1].func) != "np.array" or not isinstance(xm[1].args[0], ast.Name):
        raise TranslationError("K6: unsupported scatter value " + _u(var_sc.value))
    lst(var_sc.targets[0].slice.id, "var", "POS")
    vi, vn = lst(xm[0], "var", "VAL"), lst(xm[1].args[0].id, "var", "VAL")
    if not vi.startswith("X (") or vn.startswith("X ("):
        raise TranslationError("K6: index / nominal lists are mixed up")
    const_sc = find_assign(lambda n: isinstance(n.targets[0], ast.Subscript) and isinstance(n.targets[0].slice, ast.Name)
                           and n.targets[0].slice.id in lists and lists[n.targets[0].slice.id][0] == "const", "scatter of the constant branch")
    if const_sc.targets[0].value.id != zname or not isinstance(const_sc.value, ast.Name):
        raise TranslationError("K6: unsupported constant scatter " + _u(const_sc))
    lst(const_sc.targets[0].slice.id, "const", "POS")
    cv = lst(const_sc.value.id, "const", "VAL")
    g = F.guards(const_sc)
    for tst, pol in g:
        if tst is mloop or not pol:
            continue
    if_ = F.parent.get(const_sc)
    if isinstance(if_, ast.If):
        if not (_u(if_.test) == "len(%s) > 0" % const_sc.value.id and not if_.orelse and len(if_.body) == 1):
            raise TranslationError("K6: unsupported guard of the constant scatter: " + _u(if_.test))
    elif if_ is not mloop:
        raise TranslationError("K6: the constant scatter is nested in " + _u(if_, 60))
    # must be in this order: var scatter then const scatter (they do not overlap, but keep the model's order)
    # stored as the member's initial derivatives
    find_assign(lambda n: isinstance(n.targets[0], ast.Subscript) and isinstance(n.targets[0].slice, ast.Constant)
                and n.targets[0].slice.value == "initial_derivatives" and isinstance(n.value, ast.Name) and n.value.id == zname,
                "store of the initial derivatives")
    st_as = find_assign(lambda n: isinstance(n.targets[0], ast.Subscript) and isinstance(n.targets[0].slice, ast.Constant)
                        and n.targets[0].slice.value == "initial_state", "store of the initial state")
    xs = is_xmul(st_as.value)
    if xs is None or xs[0] != state_idx[0] or _u(xs[1].func) != "np.concatenate":
        raise TranslationError("K6: unsupported initial state " + _u(st_as.value))
    order = "var-first" if var_sc.lineno < const_sc.lineno else "const-first"
    return dict(state=state_idx[1], vi=vi, vn=vn, cv=cv, order=order)


# =================================================================================================
# K1: collocation block


class _K1:
    def __init__(self, F):
        self.F = F
        self.slices = {}  # (lo, hi) or ("at", e) -> placeholder
        self.guard_uses = []

    def nat(self, node, before):
        """index arithmetic over k and nc"""
        F = self.F
        if isinstance(node, ast.Constant) and isinstance(node.value, int) and node.value >= 0:
            return str(node.value)
        if isinstance(node, ast.BinOp) and isinstance(node.op, (ast.Add, ast.Mult)):
            return "(%s %s %s)" % (self.nat(node.left, before), "+" if isinstance(node.op, ast.Add) else "*",
                                   self.nat(node.right, before))
        if isinstance(node, ast.Call) and isinstance(node.func, ast.Name) and node.func.id == "len" and len(node.args) == 1:
            a = node.args[0]
            if _dae_vars_key(a) == "constant_inputs":
                return "nc"
            if isinstance(a, ast.Name):
                txt = " ".join(_u(d.value, 10 ** 5) for d in F.all_defs(a.id))
                if "self.dae_variables['states']" in txt and "self.dae_variables['control_inputs']" in txt \
                        and "self.dae_variables['algebraics']" in txt:
                    return "k"
        if isinstance(node, ast.Name):
            return self.nat(F.the_def(node.id, before).value, before)
        raise TranslationError("K1: unsupported index expression " + _u(node))

    def is_U(self, node, before):
        if not isinstance(node, ast.Name):
            return False
        d = self.F.the_def(node.id, before).value
        return isinstance(d, ast.Call) and _u(d.func) == "ca.MX.sym" and d.args and isinstance(d.args[0], ast.Constant) \
            and d.args[0].value == "accumulated_U"

    def ev(self, node, before, pc):
        """-> (type, term); type 'v' vector, 's' scalar"""
        F = self.F
        if isinstance(node, ast.Constant) and isinstance(node.value, (int, float)) and not isinstance(node.value, bool):
            return "s", _rat(node.value)
        if isinstance(node, ast.Name):
            if node.id == self.theta:
                return "s", "theta"
            d = F.the_def(node.id, before)
            v = d.value
            if _is_self_attr(v, "initial_time"):
                return "s", "tinit"
            if _is_self_attr(v, "theta"):
                return "s", "theta"
            # definedness guards
            for tst, pol in F.guards(d):
                self.guard_uses.append((tst, pol, pc, node.id))
            if isinstance(d, ast.Assign) and isinstance(d.targets[0], (ast.List, ast.Tuple)):
                if len(d.targets[0].elts) != 1:
                    raise TranslationError("K1: unsupported unpacking " + _u(d))
                return self.call(v, d.lineno, pc)
            if isinstance(d, ast.AugAssign):
                raise TranslationError("K1: augmented assignment to " + node.id)
            return self.ev(v, d.lineno, pc)
        if isinstance(node, ast.Subscript) and self.is_U(node.value, before):
            sl = node.slice
            if isinstance(sl, ast.Slice):
                if sl.step is not None or sl.lower is None or sl.upper is None:
                    raise TranslationError("K1: unsupported slice " + _u(node))
                key = (self.nat(sl.lower, before), self.nat(sl.upper, before))
                return "v", self.slices.setdefault(key, "@S%d@" % len(self.slices))
            key = ("at", self.nat(sl, before))
            return "s", self.slices.setdefault(key, "@S%d@" % len(self.slices))
        if isinstance(node, ast.BinOp):
            (ta, a), (tb, b) = self.ev(node.left, before, pc), self.ev(node.right, before, pc)
            op = type(node.op)
            if ta == "s" and tb == "s" and op in (ast.Add, ast.Sub, ast.Mult, ast.Div):
                return "s", "(%s %s %s)" % (a, {ast.Add: "+", ast.Sub: "-", ast.Mult: "*", ast.Div: "/"}[op], b)
            if ta == "v" and tb == "v" and op is ast.Sub:
                return "v", "(vsub %s %s)" % (a, b)
            if ta == "v" and tb == "v" and op is ast.Add:
                return "v", "(vadd %s %s)" % (a, b)
            if ta == "v" and tb == "s" and op is ast.Div:
                return "v", "((%s).map (· / %s))" % (a, b)
            if ta == "s" and tb == "v" and op is ast.Mult:
                return "v", "(vscale %s %s)" % (a, b)
            if ta == "v" and tb == "s" and op is ast.Mult:
                return "v", "(vscale %s %s)" % (b, a)
            raise TranslationError("K1: unsupported operation " + _u(node))
        raise TranslationError("K1: unsupported expression " + _u(node))

    def call(self, v, before, pc):
        F = self.F
        if not (isinstance(v, ast.Call) and isinstance(v.func, ast.Attribute) and v.func.attr == "call"
                and len(v.args) == 3 and isinstance(v.args[0], ast.List) and len(v.args[0].elts) == 2
                and _u(v.args[1]) == "False" and _u(v.args[2]) == "True"):
            raise TranslationError("K1: unsupported residual call " + _u(v))
        cal = v.func.value
        if isinstance(cal, ast.Name):
            cal = F.the_def(cal.id, before).value
        if not _is_self_attr(cal, "__dae_residual_function_collocated"):
            raise TranslationError("K1: callee is " + _u(cal))
        vc = v.args[0].elts[1]
        if not (isinstance(vc, ast.Call) and _u(vc.func) == "ca.vertcat" and len(vc.args) == 4
                and not any(isinstance(x, ast.Starred) for x in vc.args)):
            raise TranslationError("K1: residual arguments " + _u(vc))
        parts = [self.ev(x, before, pc) for x in vc.args]
        if [p[0] for p in parts] != ["v", "v", "v", "s"]:
            raise TranslationError("K1: residual argument kinds %r" % [p[0] for p in parts])
        return "v", ("CALL", parts[0][1], parts[1][1], parts[2][1], parts[3][1])


def _k1(F):
    # anchor: if th == 0: Y.append(a) elif th == 1: Y.append(b) else: Y.append(c), th from self.theta
    def theta_name(test, value):
        if isinstance(test, ast.Compare) and len(test.ops) == 1 and isinstance(test.ops[0], ast.Eq) \
                and isinstance(test.left, ast.Name) and isinstance(test.comparators[0], ast.Constant) \
                and test.comparators[0].value == value:
            ds = F.all_defs(test.left.id)
            if ds and all(_is_self_attr(d.value, "theta") for d in ds):
                return test.left.id
        return None

    def one_append(body):
        if len(body) == 1 and isinstance(body[0], ast.Expr) and isinstance(body[0].value, ast.Call) \
                and isinstance(body[0].value.func, ast.Attribute) and body[0].value.func.attr == "append" \
                and len(body[0].value.args) == 1:
            return body[0].value.args[0]
        return None

    hit = None
    for node in ast.walk(F.fn):
        if isinstance(node, ast.If) and theta_name(node.test, 0) and len(node.orelse) == 1 \
                and isinstance(node.orelse[0], ast.If) and theta_name(node.orelse[0].test, 1) == theta_name(node.test, 0):
            inner = node.orelse[0]
            a, b, c = one_append(node.body), one_append(inner.body), one_append(inner.orelse)
            if a is not None and b is not None and c is not None and "integrated" not in _u(a):
                hit = (node, a, b, c)
    if hit is None:
        raise TranslationError("K1: the three-way theta branch was not found")
    node, a, b, c = hit
    K = _K1(F)
    K.theta = theta_name(node.test, 0)
    ea = K.ev(a, node.lineno, "eq0")
    eb = K.ev(b, node.lineno, "eq1")
    ec = K.ev(c, node.lineno, "mid")
    # definedness: every guarded definition must be implied by the branch condition for 0 <= theta <= 1
    point = {"eq0": Fraction(0), "eq1": Fraction(1), "mid": Fraction(1, 2)}

    def holds(tst, th):
        if isinstance(tst, ast.Compare) and len(tst.ops) == 1 and isinstance(tst.left, ast.Name) and tst.left.id == K.theta \
                and isinstance(tst.comparators[0], ast.Constant) and isinstance(tst.comparators[0].value, (int, float)):
            cst = Fraction(tst.comparators[0].value)
            if cst not in (0, 1):
                raise TranslationError("K1: guard compares theta with %s" % cst)
            op = type(tst.ops[0])
            return {ast.Lt: th < cst, ast.LtE: th <= cst, ast.Gt: th > cst, ast.GtE: th >= cst,
                    ast.Eq: th == cst, ast.NotEq: th != cst}[op]
        raise TranslationError("K1: unsupported guard " + _u(tst))

    for tst, pol, pc, name in K.guard_uses:
        if _u(tst).startswith("self.integrate_states") or _u(tst).startswith("len("):
            continue  # integrate_states = False / there are collocated variables: outside the model's scope
        if holds(tst, point[pc]) != pol:
            raise TranslationError("K1: `%s` is used where theta %s but is only defined when %s%s"
                                   % (name, {"eq0": "== 0", "eq1": "== 1", "mid": "is strictly between 0 and 1"}[pc],
                                      "" if pol else "not ", _u(tst)))

    # roles from the residual calls: explicit = the call used when theta == 0, implicit = theta == 1
    def as_call(e, what):
        if e[0] != "v" or not isinstance(e[1], tuple):
            raise TranslationError("K1: the %s branch does not append a residual call" % what)
        return e[1]

    ca0, ca1 = as_call(ea, "theta == 0"), as_call(eb, "theta == 1")
    roles = {}

    def role(term, name):
        if not (isinstance(term, str) and term.startswith("@S") and term.endswith("@") and term.count("@") == 2):
            raise TranslationError("K1: %s is not a plain slice of the mapped input row (%s)" % (name, term))
        if term in roles and roles[term] != name:
            raise TranslationError("K1: the same slice serves as %s and %s" % (roles[term], name))
        roles[term] = name

    role(ca0[1], "s0")
    role(ca0[3], "c0")
    role(ca1[1], "s1")
    role(ca1[3], "c1")
    # time arguments: (<slice> - tinit)
    import re

    def time_role(t, name):
        m = re.fullmatch(r"\((@S\d+@) - tinit\)", t)
        if not m:
            raise TranslationError("K1: model time argument is %s" % t)
        role(m.group(1), name)

    time_role(ca0[4], "ta")
    time_role(ca1[4], "tb")
    if sorted(roles.values()) != ["c0", "c1", "s0", "s1", "ta", "tb"]:
        raise TranslationError("K1: roles %r" % roles)

    def render(e):
        t = e[1]
        if isinstance(t, tuple):
            t = "(F %s %s %s %s par)" % t[1:]
        return t

    def full(e):
        """render nested CALL tuples inside strings (blend expression)"""
        return render(e)

    # the blend expression may contain call tuples inside a formatted string: re-evaluate with rendering
    K2 = _K1(F)
    K2.theta = K.theta
    K2.slices = K.slices
    orig_call = K2.call

    def call_str(v, before, pc):
        ty, t = orig_call(v, before, pc)
        return ty, "(F %s %s %s %s par)" % t[1:]

    K2.call = call_str
    ta_ = K2.ev(a, node.lineno, "eq0")[1]
    tb_ = K2.ev(b, node.lineno, "eq1")[1]
    tc_ = K2.ev(c, node.lineno, "mid")[1]

    def subst(t):
        for ph, r in roles.items():
            t = t.replace(ph, r)
        if "@S" in t:
            raise TranslationError("K1: a slice of the input row is used outside the residual arguments: " + t)
        return t

    inv = {v: k for k, v in roles.items()}
    keys = {ph: key for key, ph in K.slices.items()}
    idx = [keys[inv[r]] for r in ("s0", "s1", "c0", "c1")]
    tim = [keys[inv[r]] for r in ("ta", "tb")]
    if any(k[0] == "at" for k in idx) or any(k[0] != "at" for k in tim):
        raise TranslationError("K1: slice / entry kinds")
    return dict(b0=subst(ta_), b1=subst(tb_), bm=subst(tc_),
                idx="[" + ", ".join("(%s, %s)" % k for k in idx) + "]",
                tim="(%s, %s)" % (tim[0][1], tim[1][1]))


# =================================================================================================
# K7: variables with their own time stamps


def _k7(F):
    loop = call = None
    for node in ast.walk(F.fn):
        if isinstance(node, ast.For) and isinstance(node.iter, ast.Call) and isinstance(node.iter.func, ast.Name) \
                and node.iter.func.id == "enumerate" and "state_vector" in _u(node, 10 ** 6):
            for sub in ast.walk(node):
                if isinstance(sub, ast.Call) and isinstance(sub.func, ast.Name) and sub.func.id == "interpolate" \
                        and len(sub.args) == 5 and F.enclosing(sub, ast.For) is node:
                    loop, call = node, sub
    if loop is None:
        raise TranslationError("K7: the interpolation of variables with their own time stamps was not found")
    if not (isinstance(loop.iter, ast.Call) and isinstance(loop.iter.func, ast.Name) and loop.iter.func.id == "enumerate"
            and isinstance(loop.target, ast.Tuple) and len(loop.target.elts) == 2):
        raise TranslationError("K7: loop header " + _u(loop.iter))
    jv, vv = loop.target.elts[0].id, loop.target.elts[1].id
    mloop = F.enclosing(loop, ast.For)
    if mloop is None or not _range_ensemble(mloop.iter):
        raise TranslationError("K7: not inside the member loop")
    mvar = mloop.target.id
    env = {}
    result = None
    scaled = False
    cols = {}
    for st in loop.body:
        if isinstance(st, ast.Assign) and len(st.targets) == 1 and isinstance(st.targets[0], ast.Name):
            env[st.targets[0].id] = st.value
            if st.value is call:
                result = st.targets[0].id
        elif isinstance(st, ast.If) and len(st.body) == 1 and isinstance(st.body[0], ast.Continue) and not st.orelse:
            t = st.test
            ok = isinstance(t, ast.Compare) and len(t.ops) == 1 and isinstance(t.ops[0], ast.Eq)
            if not ok:
                raise TranslationError("K7: unsupported skip condition " + _u(t))
        elif isinstance(st, ast.If) or isinstance(st, ast.AugAssign):
            aug = st
            if isinstance(st, ast.If):
                t = st.test
                ok = isinstance(t, ast.Compare) and len(t.ops) == 1 and isinstance(t.ops[0], ast.NotEq) \
                    and isinstance(t.comparators[0], ast.Constant) and t.comparators[0].value == 1 \
                    and len(st.body) == 1 and not st.orelse and isinstance(st.body[0], ast.AugAssign) \
                    and _u(t.left) == _u(st.body[0].value)
                if not ok:
                    raise TranslationError("K7: unsupported statement " + _u(st))
                aug = st.body[0]
            nv = aug.value
            if isinstance(nv, ast.Name):
                nv = env.get(nv.id)
            ok = isinstance(aug.op, ast.Mult) and isinstance(aug.target, ast.Name) and aug.target.id == result \
                and isinstance(nv, ast.Call) and _is_self_attr(nv.func, "variable_nominal") and len(nv.args) == 1 \
                and isinstance(nv.args[0], ast.Name) and nv.args[0].id == vv and not scaled
            if not ok:
                raise TranslationError("K7: unsupported scaling " + _u(aug))
            scaled = True
        elif isinstance(st, ast.Assign) and len(st.targets) == 1 and isinstance(st.targets[0], ast.Subscript):
            t, v = st.targets[0], st.value
            sl = t.slice
            ok = isinstance(sl, ast.Tuple) and len(sl.elts) == 2 and isinstance(sl.elts[0], ast.Slice) \
                and sl.elts[0].lower is None and sl.elts[0].upper is None \
                and isinstance(v, ast.Subscript) and isinstance(v.value, ast.Name) and v.value.id == result \
                and isinstance(v.slice, ast.Slice) and v.slice.step is None
            if not ok:
                raise TranslationError("K7: unsupported column assignment " + _u(st))
            lo, hi = v.slice.lower, v.slice.upper
            if lo is None and isinstance(hi, ast.UnaryOp) and isinstance(hi.op, ast.USub) and _u(hi.operand) == "1":
                part = 0
            elif hi is None and isinstance(lo, ast.Constant) and lo.value == 1:
                part = 1
            else:
                raise TranslationError("K7: unsupported part of the interpolant " + _u(v))
            if part in cols:
                raise TranslationError("K7: the same part of the interpolant is stored twice")

            def col(node):
                if isinstance(node, ast.Name) and node.id == jv:
                    return "j"
                if isinstance(node, ast.Constant) and isinstance(node.value, int) and node.value >= 0:
                    return str(node.value)
                if isinstance(node, ast.BinOp) and isinstance(node.op, (ast.Add, ast.Mult)):
                    return "(%s %s %s)" % (col(node.left), "+" if isinstance(node.op, ast.Add) else "*", col(node.right))
                if isinstance(node, ast.Call) and isinstance(node.func, ast.Name) and node.func.id == "len":
                    return _K1(F).nat(node, st.lineno)
                raise TranslationError("K7: unsupported column index " + _u(node))

            cols[part] = col(sl.elts[1])
        else:
            raise TranslationError("K7: unsupported statement " + _u(st))
    if result is None or sorted(cols) != [0, 1]:
        raise TranslationError("K7: interpolant / column assignments not found")

    def res(node):
        return env.get(node.id) if isinstance(node, ast.Name) and node.id in env else node

    a = [res(x) for x in call.args]
    ok0 = isinstance(a[0], ast.Call) and _is_self_attr(a[0].func, "times") and len(a[0].args) == 1 \
        and isinstance(a[0].args[0], ast.Name) and a[0].args[0].id == vv
    if not ok0:
        raise TranslationError("K7: knots are " + _u(a[0]))
    sv = a[1]
    okv = isinstance(sv, ast.Call) and _is_self_attr(sv.func, "state_vector") and sv.args \
        and isinstance(sv.args[0], ast.Name) and sv.args[0].id == vv
    mem = None
    if okv:
        if len(sv.args) == 2:
            mem = sv.args[1]
        for kw in sv.keywords:
            if kw.arg == "ensemble_member":
                mem = kw.value
    if not okv or not (isinstance(mem, ast.Name) and mem.id == mvar):
        raise TranslationError("K7: values are " + _u(sv))
    q = call.args[2]
    qd = F.the_def(q.id, loop.lineno).value if isinstance(q, ast.Name) else q
    if not (isinstance(qd, ast.Call) and _is_self_attr(qd.func, "times") and not qd.args and not qd.keywords):
        raise TranslationError("K7: query times are " + _u(qd))
    eq = call.args[3]
    if not (isinstance(eq, ast.Constant) and eq.value is False):
        raise TranslationError("K7: the equidistant argument of interpolate() must be the literal False "
                               "(the model's interpolant is the non-equidistant ca.interp1d), found " + _u(eq))
    if not (isinstance(a[4], ast.Call) and _is_self_attr(a[4].func, "interpolation_method") and len(a[4].args) == 1
            and isinstance(a[4].args[0], ast.Name) and a[4].args[0].id == vv):
        raise TranslationError("K7: interpolation mode is " + _u(a[4]))
    return dict(own_scale="nomv * " if scaled else "", own_cols="[(%s, 0), (%s, 1)]" % (cols[0], cols[1]))


# =================================================================================================

GEN_TEMPLATE = """import RtcVerif.Model.C01Colloc
import RtcVerif.Proofs.C01Gen
/-!
GENERATED on every run of the C01 check by harness/translate_c01.py from
`CollocatedIntegratedOptimizationProblem.transcribe` in
/repo/src/rtctools/optimization/collocated_integrated_optimization_problem.py.  Do not edit.
The `…Gen` definitions are the source, read through the table in the header of the translator; the
theorems tie them to the model functions the C01 property theorems are about.
-/
namespace RtcVerif.Gen
open RtcVerif RtcVerif.Interp RtcVerif.C01

/-! parameter classification: which value the residual of member `m` is given for parameter `j` -/
def effParGen (E npar : Nat) (dyn : Nat → Bool) (pvals : Nat → List Rat) (m : Nat) : List Rat :=
  (List.range npar).map (fun j =>
    if %(cond)s then %(tv)s else %(ev)s)

theorem effParGen_eq_model (E npar : Nat) (dyn : Nat → Bool) (pvals : Nat → List Rat) (m : Nat) :
    effParGen E npar dyn pvals m = effPar E npar dyn pvals m := by
  unfold effParGen effPar isConstPar
  apply List.map_congr_left
  intro j _
  generalize (E == 1) = a
  generalize ((List.range (E - 1)).all fun m => (pvals (m + 1)).getD j 0 == (pvals 0).getD j 0) = b
  generalize dyn j = d
  cases a <;> cases b <;> cases d <;> rfl

/-! initial residual: argument order and model time -/
def initRowsGen (F Finit : Residual) (s : Sys) (z d u par : List Rat) : List Rat :=
  %(init)s

theorem initRowsGen_eq_model (F Finit : Residual) (s : Sys) (c : Mem) (X : Vec) :
    initRowsGen F Finit s (initStateCode s c X) (initDersCode s c X) (initInputs s c) c.par
      = initRowsCode F Finit s c X := rfl

/-! initial state and scattered initial derivatives of member `m` -/
def initStateGen (I : Inst) (m : Nat) (X : Vec) : List Rat :=
  let s := I.sys
  List.zipWith (· * ·) ((List.range s.k).map (fun j => X (%(state)s))) ((List.range s.k).map s.nom)

theorem initStateGen_eq_model (I : Inst) (m : Nat) (X : Vec) :
    initStateGen I m X = initStateCode I.sys (I.mem m) X := rfl

def initDersGen (I : Inst) (m : Nat) (X : Vec) : List Rat :=
  let s := I.sys
  let z := List.replicate s.k (0 : Rat)
%(ders)s

theorem initDersGen_eq_model (I : Inst) (m : Nat) (X : Vec) :
    initDersGen I m X = initDersCode I.sys (I.mem m) X := rfl

/-! variables with their own time stamps: interpolant at the collocation times, overwritten columns -/
def ownInterpGen (X : Vec) (idxv : Nat → Nat) (nomv : Rat) (o : Own) (tsL : List Rat) : List Rat :=
  tsL.map (fun t => %(own_scale)soutRat (interpSym o.mode
    (o.times.zip ((List.range o.times.length).map (fun q => X (idxv q)))) t))

theorem ownInterpGen_eq_model (X : Vec) (idxv : Nat → Nat) (nomv : Rat) (o : Own) (tsL : List Rat) :
    ownInterpGen X idxv nomv o tsL = interpOwnAll X idxv nomv o tsL := rfl

def ownColsGen (k j : Nat) : List (Nat × Nat) := %(own_cols)s

theorem ownColsGen_eq_model (k j : Nat) : ownColsGen k j = ownCols k j := by
  unfold ownColsGen ownCols
  first
    | rfl
    | (simp only [List.cons.injEq, Prod.mk.injEq, and_true, true_and]; omega)

/-! collocation block: finite differences, residual calls, theta branch -/
def collocBlockGen (F : Residual) (theta tinit : Rat) (par s0 s1 c0 c1 : List Rat) (ta tb : Rat) : List Rat :=
  if theta = 0 then %(b0)s
  else if theta = 1 then %(b1)s
  else %(bm)s

theorem collocBlockGen_eq_model (F : Residual) (theta tinit : Rat) (par s0 s1 c0 c1 : List Rat) (ta tb : Rat) :
    collocBlockGen F theta tinit par s0 s1 c0 c1 ta tb = collocBlock F theta tinit par s0 s1 c0 c1 ta tb := by
  unfold collocBlockGen collocBlock
  split
  · rfl
  · split
    · rfl
    · first
      | rfl
      | exact vadd_comm _ _

/-! positions of the slices of the mapped input row -/
def sliceIdxGen (k nc : Nat) : List (Nat × Nat) := %(idx)s
def timeIdxGen (k nc : Nat) : Nat × Nat := %(tim)s

theorem sliceIdxGen_eq_model (k nc : Nat) : sliceIdxGen k nc = sliceIdx k nc := by
  unfold sliceIdxGen sliceIdx
  first
    | rfl
    | (simp only [List.cons.injEq, Prod.mk.injEq, and_true, true_and]; omega)

theorem timeIdxGen_eq_model (k nc : Nat) : timeIdxGen k nc = timeIdx k nc := by
  unfold timeIdxGen timeIdx
  first
    | rfl
    | (simp only [Prod.mk.injEq]; omega)
    | (simp only [Prod.mk.injEq]; constructor <;> omega)

/-- the DAE block the mapped function computes from its input row -/
theorem blockOfRowGen_eq_model (F : Residual) (theta tinit : Rat) (par : List Rat) (k nc : Nat) (u : List Rat) :
    collocBlockGen F theta tinit par
        (slice u ((sliceIdxGen k nc).getD 0 (0, 0)).1 ((sliceIdxGen k nc).getD 0 (0, 0)).2)
        (slice u ((sliceIdxGen k nc).getD 1 (0, 0)).1 ((sliceIdxGen k nc).getD 1 (0, 0)).2)
        (slice u ((sliceIdxGen k nc).getD 2 (0, 0)).1 ((sliceIdxGen k nc).getD 2 (0, 0)).2)
        (slice u ((sliceIdxGen k nc).getD 3 (0, 0)).1 ((sliceIdxGen k nc).getD 3 (0, 0)).2)
        (u.getD (timeIdxGen k nc).1 0) (u.getD (timeIdxGen k nc).2 0)
      = blockOfRow F theta tinit par k nc u := by
  rw [collocBlockGen_eq_model, sliceIdxGen_eq_model, timeIdxGen_eq_model, blockOfRow_idx]

end RtcVerif.Gen
"""

THEOREMS = ["effParGen_eq_model", "initRowsGen_eq_model", "initStateGen_eq_model", "initDersGen_eq_model",
            "ownInterpGen_eq_model", "ownColsGen_eq_model",
            "collocBlockGen_eq_model", "sliceIdxGen_eq_model", "timeIdxGen_eq_model", "blockOfRowGen_eq_model"]


def translate():
    path = os.path.join(REPO, *SRC)
    fn = _find_method(ast.parse(open(path).read()), "CollocatedIntegratedOptimizationProblem", "transcribe")
    F = Fn(fn)
    k4 = _k4(F)
    init = _k5(F)
    k6 = _k6(F)
    k1 = _k1(F)
    k7 = _k7(F)
    var_sc = ("scatter %%s (List.range s.nd)\n    (List.zipWith (· * ·) ((List.range s.nd).map (fun j => %s)) "
              "((List.range s.nd).map (fun j => %s)))" % (k6["vi"], k6["vn"])).replace("(fun j => s.dnom j)", "s.dnom")
    const_sc = ("scatter %%s ((List.range (s.k - s.nd)).map (s.nd + ·))\n    ((List.range (s.k - s.nd)).map (fun q => %s))"
                % k6["cv"]).replace("histDer (I.hist m (s.nd + q)) s.t0", "(I.mem m).dconst (s.nd + q)")
    # the model states the history constant through `(I.mem m).dconst`, which unfolds to histDer (I.hist m v) t0
    const_sc = const_sc.replace("(I.mem m).dconst (s.nd + q)", "histDer (I.hist m (s.nd + q)) s.t0")
    if k6["order"] == "var-first":
        ders = "  let a := %s\n  %s" % (var_sc % "z", const_sc % "a")
    else:
        ders = "  let a := %s\n  %s" % (const_sc % "z", var_sc % "a")
    d = dict(k4)
    d.update(init=init, state=k6["state"], ders=ders)
    d.update(k1)
    d.update(k7)
    return GEN_TEMPLATE % d


def gen_colloc_kernels(c):
    """(re)generate lean/RtcVerif/Gen/CollocKernels.lean; returns the extra obligation spec for c.prove"""
    gdir = os.path.join(LEAN_DIR, "RtcVerif", "Gen")
    os.makedirs(gdir, exist_ok=True)
    path = os.path.join(gdir, "CollocKernels.lean")
    what = "translator: CollocatedIntegratedOptimizationProblem.transcribe"
    try:
        text = translate()
    except TranslationError as e:
        c.broken.append((what, str(e)))
        return []
    except (OSError, SyntaxError) as e:
        c.broken.append((what, "cannot read/parse the source: %s" % e))
        return []
    old = open(path).read() if os.path.exists(path) else None
    if old != text:
        tmp = path + ".tmp%d" % os.getpid()
        with open(tmp, "w") as f:
            f.write(text)
        os.replace(tmp, path)
    return [("RtcVerif.Gen.CollocKernels", "RtcVerif.Gen", list(THEOREMS))]
