"""
Source-to-Lean translation of the constraint bookkeeping of the multi-pass priority loop (C02).

On every run of the C02 check the following methods of `GoalProgrammingMixin`
(`$RTC_REPO/src/rtctools/optimization/goal_programming_mixin.py`) are parsed with `ast` and executed
symbolically, statement by statement, over the state `C02.Book` of the statement-level reference
`lean/RtcVerif/Model/C02Book.lean` (proved equal to the loop model of `store_monotone` /
`C02_no_degradation` by `book_*` theorems in Props/C02.lean).  `lean/RtcVerif/Gen/GpBookkeeping.lean` is
(re)generated with

  softToHardBodyGen / softToHardGen   `__soft_to_hard_constraints`            = C02.softToHardBody / softToHardRef
  resetGen                            resets of `optimize()` before the loop  = C02.resetRef
  beforeSolveGen                      loop body before the solve              = C02.beforeSolveRef
  afterSolveGen                       loop body after `priority_completed`    = C02.afterSolveRef
  addObjectiveGen                     `__add_subproblem_objective_constraint` = C02.addObjectiveRef
  constraintsGen / pathConstraintsGen `constraints()` / `path_constraints()`  = C02.constraintsRef / pathConstraintsRef

Closed table "Python construct -> model term" (anything else: TranslationError = broken obligation).

 `__soft_to_hard_constraints(self, GOALS, SYM, ISPATH)`
  if ISPATH: <s> = self.__path_constraint_store  else: <s> = self.__constraint_store
                                                   STORE with kind `isPath` (branches swapped: `!isPath`)
  <t> = self.times() / <o> = self.goal_programming_options()      no effect / OPTIONS
  <f> = "<literal>" ; if ISPATH: <f> = "<literal>" + <f>          FMT: `if isPath then "<path>" else "<point>"` (folded)
  <fv> = [None] * self.ensemble_size  followed by the grouped-evaluation loop (matched as a whole, modulo renaming
      of locals, against the shape `for m: goal_functions[j] = goal.function(self, m) if not has_target_bounds or …;
      map_path_expression(vertcat(..), m) | transpose(vertcat(..)); Function; <fv>[m] = {k: raw[:, j].ravel() …}`)
                                                   FV table: `<fv>[m][j]` = `R.fvalue m isPath goals[j]`
  for M in range(self.ensemble_size): for J, GOAL in enumerate(GOALS): body
                                                   `forRange E (fun B m => forEnum (body m) B 0 goals) B`
  body:
   if J in <fv>[M]: <v> = <fv>[M][J] ; [if GOAL.function_value_timeseries_id is not None: self.set_timeseries(..)]
                                                   <v> := `R.fvalue m isPath goal`   (export: no store effect)
   if GOAL.critical: continue                      `if goal.critical then B else …`
   if GOAL.has_target_bounds: <e> = self.__results[M][<f>.format(SYM, J)] ;
        [if GOAL.violation_timeseries_id is not None: … (reads <e>, writes neither <e> nor a store)] ;
        <e> += <o>["violation_relaxation"]         `fun i => R.results m (fmt2 FMT sym j) i + o.violationRelaxation`
   else: <e> = <v>                                 `R.fvalue m isPath goal`
   <k> = GOAL.get_function_key(self, M)            `goal.fk`
   <x> = <s>[M].get(<k>, None)                     EXISTING (kind, member, key)
   <s>[M][<k>] = self.__goal_hard_constraint(GOAL, <e>, <x>, M, <o>, ISPATH)
                                                   `B.put kind m (hardWrite o nT isPath goal e (R.fvalue M isPath goal)
                                                      kGet kSet (B.sel kind m) (B.sel kind m))`
   member / index expressions: the loop variables, SYM, int literals, `+`, `-`
 `optimize()`
  self.__constraint_store = [OrderedDict() for _ in range(self.ensemble_size)]   (top level, before the loop)
                                                   `point := fun _ => []`   (same: __path_constraint_store -> path)
  self.__problem_constraints = [[] for _ in range(self.ensemble_size)]           `prob := fun _ => []` (…path… -> probPath)
  for I, (P, G, PG) in enumerate(<subproblems>):   the pass; before the solve:
   (_, _, self.__subproblem_soft_constraints, <h>, _) = self._gp_goal_constraints(G, I, <o>, is_path_goal=False)
                                                   `sub := softOf goals false`; <h> := HARD(goals, false)  (path: subPath)
   self._gp_update_constraint_store(self.__constraint_store, <h>)
                                                   `insertHard o E nT <kind of the store> <is_path of h> <goals of h>`
   after `priority_completed`:
   if <o>["keep_soft_constraints"]: self.__add_subproblem_objective_constraint()
   else: self.__soft_to_hard_constraints(G, I, is_path_goal=False) ; …(PG, I, is_path_goal=True)
                                                   `if keepSoft then addObjectiveGen E row B else softToHardGen …`
  statements touching disjoint attributes are emitted in a canonical order (a swap of independent statements is
  not a change); any other mention of the six tracked attributes in `optimize()`: REJECTED
 `__add_subproblem_objective_constraint()`
  for M in range(self.ensemble_size): self.__problem_constraints[M].extend(self.__subproblem_soft_constraints[M]) …
                                                   `prob := upd B.prob m (B.prob m ++ B.sub m)` (path: probPath / subPath)
  self.__problem_constraints[-1].append(<c>)       `prob := upd B.prob (E - 1) (B.prob (E - 1) ++ [row])`
  statements not mentioning a tracked attribute    no effect (objective-row bounds: Gen/C17ObjBnd.lean)
 `constraints(self, M)` / `path_constraints(self, M)`
  <c> = super().constraints(M) ; <a> = itertools.chain(X1, X2, X3) ; for <r> in <a>: <c>.append((<r>.function(self),
      <r>.min, <r>.max)) ; return <c>              `[seg X1, seg X2, seg X3]` with  self.__<store>[M].values() ->
                                                   `.store (B.<store> m)`,  self.__<rows>[M] -> `.rows (B.<rows> m)`
"""
import ast
import copy
import os

from .common import LEAN_DIR, REPO
from .translate import TranslationError, _find_method

SRC = ("src", "rtctools", "optimization", "goal_programming_mixin.py")
STORES = {"__constraint_store": "point", "__path_constraint_store": "path"}
ROWS = {"__problem_constraints": "prob", "__problem_path_constraints": "probPath",
        "__subproblem_soft_constraints": "sub", "__subproblem_path_soft_constraints": "subPath"}
TRACKED = dict(STORES, **ROWS)
OPTS = {"violation_relaxation": "o.violationRelaxation", "constraint_relaxation": "o.constraintRelaxation"}
KEEP = {"Name": ("self", "np", "ca", "OrderedDict", "range", "enumerate", "Timeseries", "itertools", "super")}


def _u(node, n=100):
    try:
        return ast.unparse(node).replace("\n", " ")[:n]
    except Exception:
        return ast.dump(node)[:n]


def _self_attr(node, names=None):
    return isinstance(node, ast.Attribute) and isinstance(node.value, ast.Name) and node.value.id == "self" \
        and (names is None or node.attr in names)


def _is_name(node, name):
    return isinstance(node, ast.Name) and node.id == name


def _range_E(node):
    return isinstance(node, ast.Call) and _is_name(node.func, "range") and len(node.args) == 1 \
        and _self_attr(node.args[0], ("ensemble_size",)) and not node.keywords


def _mentions_tracked(node):
    return sorted({n.attr for n in ast.walk(node) if isinstance(n, ast.Attribute) and n.attr in TRACKED})


def _alpha(node, fixed):
    """dump of `node` with every local name replaced by its order of first occurrence; names in `fixed`
    (dict name -> role) are replaced by the role"""
    node = copy.deepcopy(node)
    seen = {}
    for n in ast.walk(node):
        if isinstance(n, ast.Name):
            if n.id in fixed:
                n.id = fixed[n.id]
            elif n.id not in KEEP["Name"]:
                n.id = seen.setdefault(n.id, "v%d" % len(seen))
    return ast.dump(node)


GROUPED_TEMPLATE = '''
for ensemble_member in range(self.ensemble_size):
    goal_functions = OrderedDict()
    for j, goal in enumerate(GOALS):
        if (not goal.has_target_bounds or goal.violation_timeseries_id is not None
                or goal.function_value_timeseries_id is not None):
            goal_functions[j] = goal.function(self, ensemble_member)
    if ISPATH:
        expr = self.map_path_expression(ca.vertcat(*goal_functions.values()), ensemble_member)
    else:
        expr = ca.transpose(ca.vertcat(*goal_functions.values()))
    f = ca.Function("f", [self.solver_input], [expr])
    raw_function_values = np.array(f(self.solver_output))
    FV[ensemble_member] = {
        k: raw_function_values[:, j].ravel() for j, k in enumerate(goal_functions.keys())
    }
'''


class _S2H:
    """symbolic execution of __soft_to_hard_constraints"""

    def __init__(self, fn):
        args = [a.arg for a in fn.args.args]
        if len(args) != 4 or args[0] != "self" or fn.args.defaults or fn.args.kwonlyargs:
            raise TranslationError("__soft_to_hard_constraints: unexpected signature %r" % args)
        _, self.GOALS, self.SYM, self.ISPATH = args
        self.env = {}
        self.body = None
        for st in fn.body:
            self.top(st)
        if self.body is None:
            raise TranslationError("__soft_to_hard_constraints: no write loop found")

    # ---- top level ----------------------------------------------------------------------
    def top(self, st):
        if self.body is not None:
            raise TranslationError("statement after the write loop: " + _u(st))
        if isinstance(st, ast.Expr) and isinstance(st.value, ast.Constant):
            return
        if isinstance(st, ast.If) and _is_name(st.test, self.ISPATH):
            return self.top_if(st)
        if isinstance(st, ast.Assign) and len(st.targets) == 1 and isinstance(st.targets[0], ast.Name):
            name, v = st.targets[0].id, st.value
            if isinstance(v, ast.Call) and _self_attr(v.func, ("times",)) and not v.args:
                self.env[name] = ("times",)
            elif isinstance(v, ast.Call) and _self_attr(v.func, ("goal_programming_options",)) and not v.args:
                self.env[name] = ("options",)
            elif isinstance(v, ast.Constant) and isinstance(v.value, str):
                self.env[name] = ("str", v.value, v.value)
            elif isinstance(v, ast.BinOp) and isinstance(v.op, ast.Mult) and isinstance(v.left, ast.List) \
                    and len(v.left.elts) == 1 and isinstance(v.left.elts[0], ast.Constant) \
                    and v.left.elts[0].value is None and _self_attr(v.right, ("ensemble_size",)):
                self.env[name] = ("fv_pending",)
            else:
                raise TranslationError("unsupported assignment " + _u(st))
            return
        if isinstance(st, ast.For) and _range_E(st.iter) and isinstance(st.target, ast.Name) and not st.orelse:
            pend = [k for k, v in self.env.items() if v == ("fv_pending",)]
            if pend:
                return self.grouped(st, pend[0])
            return self.write_loop(st)
        raise TranslationError("unsupported statement " + _u(st))

    def top_if(self, st):
        def single(stmts):
            if len(stmts) == 1 and isinstance(stmts[0], ast.Assign) and len(stmts[0].targets) == 1 \
                    and isinstance(stmts[0].targets[0], ast.Name):
                return stmts[0].targets[0].id, stmts[0].value
            raise TranslationError("unsupported branch on is_path_goal: " + _u(st))

        n1, v1 = single(st.body)
        if st.orelse:
            n2, v2 = single(st.orelse)
            if n1 != n2 or not (_self_attr(v1, STORES) and _self_attr(v2, STORES)) or v1.attr == v2.attr:
                raise TranslationError("unsupported store selection: " + _u(st))
            self.env[n1] = ("store", "isPath" if STORES[v1.attr] == "path" else "(!isPath)")
            return
        # <f> = "<lit>" + <f>
        if isinstance(v1, ast.BinOp) and isinstance(v1.op, ast.Add) and isinstance(v1.left, ast.Constant) \
                and isinstance(v1.left.value, str) and _is_name(v1.right, n1) and self.env.get(n1, ("",))[0] == "str":
            _, p, q = self.env[n1]
            self.env[n1] = ("str", v1.left.value + p, q)
            return
        raise TranslationError("unsupported branch on is_path_goal: " + _u(st))

    def grouped(self, st, fvname):
        tmpl = ast.parse(GROUPED_TEMPLATE).body[0]
        want = _alpha(tmpl, {"GOALS": "$G", "ISPATH": "$P", "FV": "$FV"})
        got = _alpha(st, {self.GOALS: "$G", self.ISPATH: "$P", fvname: "$FV"})
        if want != got:
            raise TranslationError("grouped function evaluation of __soft_to_hard_constraints does not have the "
                                   "tabled shape (goal_functions[j] = goal.function(self, m) … raw[:, j])")
        self.env[fvname] = ("fv",)

    # ---- nat expressions ----------------------------------------------------------------
    def nat(self, node, loc):
        if isinstance(node, ast.Name) and node.id in loc:
            return loc[node.id]
        if isinstance(node, ast.Name) and node.id == self.SYM:
            return "sym"
        if isinstance(node, ast.Constant) and isinstance(node.value, int) and not isinstance(node.value, bool) \
                and node.value >= 0:
            return str(node.value)
        if isinstance(node, ast.BinOp) and isinstance(node.op, (ast.Add, ast.Sub)):
            return "(%s %s %s)" % (self.nat(node.left, loc), "+" if isinstance(node.op, ast.Add) else "-",
                                   self.nat(node.right, loc))
        raise TranslationError("unsupported index expression " + _u(node))

    # ---- the write loop -----------------------------------------------------------------
    def write_loop(self, st):
        M = st.target.id
        if len(st.body) != 1 or not isinstance(st.body[0], ast.For):
            raise TranslationError("member loop of the conversion: expected exactly the goal loop, got " + _u(st.body[0]))
        inner = st.body[0]
        it = inner.iter
        if not (isinstance(it, ast.Call) and _is_name(it.func, "enumerate") and len(it.args) == 1 and not it.keywords
                and _is_name(it.args[0], self.GOALS) and isinstance(inner.target, ast.Tuple)
                and len(inner.target.elts) == 2 and all(isinstance(e, ast.Name) for e in inner.target.elts)
                and not inner.orelse):
            raise TranslationError("goal loop of the conversion: expected `for j, goal in enumerate(goals)`: " + _u(inner))
        J, G = inner.target.elts[0].id, inner.target.elts[1].id
        self.M, self.J, self.G = M, J, G
        self.loc = {M: "m", J: "j"}
        self.body = self.run(list(inner.body), {})

    def goal_attr(self, node, attr):
        return isinstance(node, ast.Attribute) and _is_name(node.value, self.G) and node.attr == attr

    def is_not_none(self, test, attr):
        return isinstance(test, ast.Compare) and self.goal_attr(test.left, attr) and len(test.ops) == 1 \
            and isinstance(test.ops[0], ast.IsNot) and isinstance(test.comparators[0], ast.Constant) \
            and test.comparators[0].value is None

    def fv_lookup(self, node):
        """<fv>[M][J] -> member term"""
        if isinstance(node, ast.Subscript) and isinstance(node.value, ast.Subscript) \
                and isinstance(node.value.value, ast.Name) and self.env.get(node.value.value.id) == ("fv",):
            if not _is_name(node.slice, self.J):
                raise TranslationError("function value of another goal index: " + _u(node))
            return self.nat(node.value.slice, self.loc)
        return None

    def readonly_block(self, stmts, protected):
        """statements that may read but not write the names in `protected` nor mention a store"""
        for st in stmts:
            for n in ast.walk(st):
                if isinstance(n, ast.Name) and n.id in protected and not isinstance(n.ctx, ast.Load):
                    raise TranslationError("write to %s inside an export block" % n.id)
                if isinstance(n, (ast.Subscript, ast.Attribute)) and not isinstance(n.ctx, ast.Load):
                    base = n.value
                    while isinstance(base, (ast.Subscript, ast.Attribute)):
                        base = base.value
                    if isinstance(base, ast.Name) and (base.id in protected or base.id == "self"):
                        raise TranslationError("write through %s inside an export block" % base.id)
                if isinstance(n, ast.AugAssign) and isinstance(n.target, ast.Name) and n.target.id in protected:
                    raise TranslationError("write to %s inside an export block" % n.target.id)
                if isinstance(n, ast.Name) and self.env.get(n.id, ("",))[0] == "store":
                    raise TranslationError("store used inside an export block")
                if isinstance(n, ast.Attribute) and (n.attr in TRACKED or n.attr == "__goal_hard_constraint"):
                    raise TranslationError("tracked attribute used inside an export block")
                if isinstance(n, (ast.Continue, ast.Break, ast.Return)):
                    raise TranslationError("control flow inside an export block")

    def run(self, stmts, env):
        if not stmts:
            return "B"
        st, rest = stmts[0], stmts[1:]
        if isinstance(st, ast.Expr) and isinstance(st.value, ast.Constant):
            return self.run(rest, env)
        # if J in <fv>[M]: <v> = <fv>[M][J] ; [export]
        if isinstance(st, ast.If) and isinstance(st.test, ast.Compare) and len(st.test.ops) == 1 \
                and isinstance(st.test.ops[0], ast.In) and _is_name(st.test.left, self.J) and not st.orelse:
            c = st.test.comparators[0]
            if not (isinstance(c, ast.Subscript) and isinstance(c.value, ast.Name) and self.env.get(c.value.id) == ("fv",)):
                raise TranslationError("unsupported membership test " + _u(st.test))
            mt = self.nat(c.slice, self.loc)
            a = st.body[0]
            if not (isinstance(a, ast.Assign) and len(a.targets) == 1 and isinstance(a.targets[0], ast.Name)):
                raise TranslationError("unsupported statement " + _u(a))
            m2 = self.fv_lookup(a.value)
            if m2 is None or m2 != mt:
                raise TranslationError("function value read from another member's table: " + _u(a))
            env = dict(env)
            env[a.targets[0].id] = ("fval", "(R.fvalue %s isPath goal)" % m2)
            for ex in st.body[1:]:
                if not (isinstance(ex, ast.If) and self.is_not_none(ex.test, "function_value_timeseries_id") and not ex.orelse):
                    raise TranslationError("unsupported statement " + _u(ex))
                self.readonly_block(ex.body, set(env))
            return self.run(rest, env)
        # if GOAL.critical: continue
        if isinstance(st, ast.If) and self.goal_attr(st.test, "critical") and len(st.body) == 1 \
                and isinstance(st.body[0], ast.Continue) and not st.orelse:
            return "(if goal.critical then B else %s)" % self.run(rest, env)
        # if GOAL.has_target_bounds: … else: …
        if isinstance(st, ast.If) and self.goal_attr(st.test, "has_target_bounds") and st.orelse:
            self.invalid = set()
            n1, e1 = self.eps_branch(st.body, env)
            n2, e2 = self.eps_branch(st.orelse, env)
            if n1 != n2:
                raise TranslationError("the two branches assign different names")
            env = {k: v for k, v in env.items() if k not in self.invalid}
            env[n1] = ("eps", "(if goal.hasTargetBounds then %s else %s)" % (e1, e2))
            return self.run(rest, env)
        if isinstance(st, ast.Assign) and len(st.targets) == 1:
            t, v = st.targets[0], st.value
            # <k> = GOAL.get_function_key(self, M)
            if isinstance(t, ast.Name) and isinstance(v, ast.Call) and self.goal_attr(v.func, "get_function_key"):
                if not (len(v.args) == 2 and _is_name(v.args[0], "self") and _is_name(v.args[1], self.M)):
                    raise TranslationError("unsupported function-key call " + _u(v))
                env = dict(env)
                env[t.id] = ("fk", "goal.fk")
                return self.run(rest, env)
            # <x> = <s>[M].get(<k>, None)
            if isinstance(t, ast.Name) and isinstance(v, ast.Call) and isinstance(v.func, ast.Attribute) \
                    and v.func.attr == "get" and isinstance(v.func.value, ast.Subscript):
                sub = v.func.value
                if not (isinstance(sub.value, ast.Name) and self.env.get(sub.value.id, ("",))[0] == "store"):
                    raise TranslationError("unsupported lookup " + _u(v))
                if not (1 <= len(v.args) <= 2 and isinstance(v.args[0], ast.Name) and env.get(v.args[0].id, ("",))[0] == "fk"
                        and (len(v.args) == 1 or (isinstance(v.args[1], ast.Constant) and v.args[1].value is None))):
                    raise TranslationError("unsupported lookup " + _u(v))
                env = dict(env)
                env[t.id] = ("existing", self.env[sub.value.id][1], self.nat(sub.slice, self.loc), env[v.args[0].id][1])
                return self.run(rest, env)
            # <s>[M][<k>] = self.__goal_hard_constraint(GOAL, <e>, <x>, M, <o>, ISPATH)
            if isinstance(t, ast.Subscript) and isinstance(t.value, ast.Subscript) and isinstance(t.value.value, ast.Name) \
                    and self.env.get(t.value.value.id, ("",))[0] == "store":
                kind = self.env[t.value.value.id][1]
                mset = self.nat(t.value.slice, self.loc)
                if not (isinstance(t.slice, ast.Name) and env.get(t.slice.id, ("",))[0] == "fk"):
                    raise TranslationError("unsupported store key " + _u(t))
                kset = env[t.slice.id][1]
                if not (isinstance(v, ast.Call) and _self_attr(v.func, ("__goal_hard_constraint",)) and len(v.args) == 6
                        and not v.keywords):
                    raise TranslationError("store entry not assigned from __goal_hard_constraint: " + _u(st))
                a = v.args
                if not _is_name(a[0], self.G):
                    raise TranslationError("hard constraint of another goal: " + _u(v))
                if not (isinstance(a[1], ast.Name) and env.get(a[1].id, ("",))[0] in ("eps", "fval")):
                    raise TranslationError("unsupported epsilon argument " + _u(a[1]))
                eps = env[a[1].id][1]
                if not (isinstance(a[2], ast.Name) and env.get(a[2].id, ("",))[0] == "existing"):
                    raise TranslationError("unsupported existing-constraint argument " + _u(a[2]))
                _, kget_kind, mget, kget = env[a[2].id]
                mcall = self.nat(a[3], self.loc)
                if not (isinstance(a[4], ast.Name) and self.env.get(a[4].id) == ("options",)):
                    raise TranslationError("unsupported options argument " + _u(a[4]))
                if not _is_name(a[5], self.ISPATH):
                    raise TranslationError("unsupported is_path_goal argument " + _u(a[5]))
                if rest:
                    raise TranslationError("statement after the store write: " + _u(rest[0]))
                return ("(B.put %s %s (C02.hardWrite o nT isPath goal %s (R.fvalue %s isPath goal) %s %s "
                        "(B.sel %s %s) (B.sel %s %s)))" % (kind, mset, eps, mcall, kget, kset, kget_kind, mget, kind, mset))
        raise TranslationError("unsupported statement in the conversion loop: " + _u(st))

    def eps_branch(self, stmts, env):
        """-> (name, lean term of type Nat → Rat)"""
        name, term = None, None
        for st in stmts:
            if isinstance(st, ast.Assign) and len(st.targets) == 1 and isinstance(st.targets[0], ast.Name):
                v = st.value
                if isinstance(v, ast.Name) and env.get(v.id, ("",))[0] == "fval":
                    name, term = st.targets[0].id, env[v.id][1]
                    continue
                # self.__results[M][<f>.format(SYM, J)]
                if isinstance(v, ast.Subscript) and isinstance(v.value, ast.Subscript) \
                        and _self_attr(v.value.value, ("__results",)):
                    mt = self.nat(v.value.slice, self.loc)
                    k = v.slice
                    if not (isinstance(k, ast.Call) and isinstance(k.func, ast.Attribute) and k.func.attr == "format"
                            and isinstance(k.func.value, ast.Name) and self.env.get(k.func.value.id, ("",))[0] == "str"
                            and len(k.args) == 2 and not k.keywords):
                        raise TranslationError("unsupported results key " + _u(k))
                    _, p, q = self.env[k.func.value.id]
                    name = st.targets[0].id
                    term = '(fun i => R.results %s (C02.fmt2 (if isPath then "%s" else "%s") %s %s) i)' % (
                        mt, p, q, self.nat(k.args[0], self.loc), self.nat(k.args[1], self.loc))
                    continue
                raise TranslationError("unsupported epsilon source " + _u(st))
            if isinstance(st, ast.AugAssign) and isinstance(st.target, ast.Name) and st.target.id == name \
                    and isinstance(st.op, (ast.Add, ast.Sub)) and isinstance(st.value, ast.Subscript) \
                    and isinstance(st.value.value, ast.Name) and self.env.get(st.value.value.id) == ("options",) \
                    and isinstance(st.value.slice, ast.Constant) and st.value.slice.value in OPTS:
                if not term.startswith("(fun i => ") or not term.endswith(" i)"):
                    raise TranslationError("relaxation of a function value: " + _u(st))
                term = "(fun i => %s %s %s)" % (term[len("(fun i => "):-1], "+" if isinstance(st.op, ast.Add) else "-",
                                                OPTS[st.value.slice.value])
                continue
            if isinstance(st, ast.If) and self.is_not_none(st.test, "violation_timeseries_id") and not st.orelse \
                    and name is not None:
                # a re-read of the function value inside the export block is allowed; the name is dropped afterwards
                self.readonly_block(st.body, {name} | {k for k in env if env[k][0] != "fval"})
                self.invalid |= {n.id for s in st.body for n in ast.walk(s)
                                 if isinstance(n, ast.Name) and not isinstance(n.ctx, ast.Load)
                                 and env.get(n.id, ("",))[0] == "fval"}
                continue
            if isinstance(st, ast.Expr) and isinstance(st.value, ast.Constant):
                continue
            raise TranslationError("unsupported statement in an epsilon branch: " + _u(st))
        if name is None:
            raise TranslationError("epsilon not assigned in a branch")
        return name, term


# ------------------------------------------------------------------------------------------------
def _per_member_fresh(v):
    """[OrderedDict() for _ in range(self.ensemble_size)] / [[] for _ in range(self.ensemble_size)] -> 'dict'/'list'"""
    if isinstance(v, ast.ListComp) and len(v.generators) == 1 and _range_E(v.generators[0].iter) \
            and not v.generators[0].ifs:
        e = v.elt
        if isinstance(e, ast.Call) and _is_name(e.func, "OrderedDict") and not e.args and not e.keywords:
            return "dict"
        if isinstance(e, ast.List) and not e.elts:
            return "list"
    return None


ORDER = ["sub", "subPath", "point", "path", "prob", "probPath"]


def _canon(items):
    """items = [(field, text)]: independent statements (distinct fields) in canonical order"""
    fields = [f for f, _ in items]
    if len(set(fields)) == len(fields):
        return sorted(items, key=lambda x: ORDER.index(x[0]))
    return items


def _chain_lets(items, result_type="Book ρ"):
    """[(field, template with {B})] -> nested lets"""
    lines, cur = [], "B"
    for k, (_, tmpl) in enumerate(items):
        nxt = "B%d" % (k + 1)
        lines.append("  let %s : %s := %s" % (nxt, result_type, tmpl.replace("{B}", cur)))
        cur = nxt
    lines.append("  " + cur)
    return "\n".join(lines)


def translate_optimize(fn):
    loop = None
    resets = []
    for st in fn.body:
        if isinstance(st, ast.For) and isinstance(st.target, ast.Tuple) and len(st.target.elts) == 2 \
                and isinstance(st.target.elts[1], ast.Tuple):
            if loop is not None:
                raise TranslationError("optimize(): two priority loops")
            loop = st
            continue
        m = _mentions_tracked(st)
        if not m:
            continue
        if loop is not None:
            raise TranslationError("optimize(): tracked attribute used after the priority loop: " + _u(st))
        if not (isinstance(st, ast.Assign) and len(st.targets) == 1 and _self_attr(st.targets[0], TRACKED)):
            raise TranslationError("optimize(): unsupported use of a tracked attribute before the loop: " + _u(st))
        attr = st.targets[0].attr
        kind = _per_member_fresh(st.value)
        if (attr in STORES and kind != "dict") or (attr in ROWS and kind != "list"):
            raise TranslationError("optimize(): unsupported reset " + _u(st))
        resets.append((TRACKED[attr], "{ {B} with %s := fun _ => [] }" % TRACKED[attr]))
    if loop is None:
        raise TranslationError("optimize(): no priority loop")
    t = loop.target
    if not (isinstance(loop.iter, ast.Call) and _is_name(loop.iter.func, "enumerate") and isinstance(t, ast.Tuple)
            and len(t.elts) == 2 and isinstance(t.elts[0], ast.Name) and isinstance(t.elts[1], ast.Tuple)
            and len(t.elts[1].elts) == 3 and all(isinstance(e, ast.Name) for e in t.elts[1].elts)):
        raise TranslationError("optimize(): unsupported loop header " + _u(loop.target))
    I = t.elts[0].id
    glist = {t.elts[1].elts[1].id: "goals", t.elts[1].elts[2].id: "pathGoals"}
    before, after, hard, opts_names = [], None, {}, set()
    for st in fn.body:
        if isinstance(st, ast.Assign) and isinstance(st.value, ast.Call) and _self_attr(st.value.func, ("goal_programming_options",)):
            opts_names.add(st.targets[0].id)

    def flag(call):
        kw = {k.arg: k.value for k in call.keywords}
        if set(kw) != {"is_path_goal"} or not isinstance(kw["is_path_goal"], ast.Constant) \
                or not isinstance(kw["is_path_goal"].value, bool):
            raise TranslationError("optimize(): unsupported is_path_goal argument in " + _u(call))
        return "true" if kw["is_path_goal"].value else "false"

    solved = False
    for st in loop.body:
        if isinstance(st, ast.Assign) and isinstance(st.value, ast.Call) and isinstance(st.value.func, ast.Attribute) \
                and st.value.func.attr == "optimize":
            solved = True
            continue
        m = _mentions_tracked(st)
        calls = {n.func.attr for n in ast.walk(st) if isinstance(n, ast.Call) and isinstance(n.func, ast.Attribute)}
        rel = calls & {"_gp_goal_constraints", "_gp_update_constraint_store", "__soft_to_hard_constraints",
                       "__add_subproblem_objective_constraint"}
        if not m and not rel:
            continue
        # (…, self.__subproblem_soft_constraints, <h>, …) = self._gp_goal_constraints(G, I, <o>, is_path_goal=…)
        if isinstance(st, ast.Assign) and isinstance(st.value, ast.Call) and _self_attr(st.value.func, ("_gp_goal_constraints",)):
            if solved:
                raise TranslationError("optimize(): goal constraints built after the solve")
            c = st.value
            if not (len(c.args) == 3 and isinstance(c.args[0], ast.Name) and c.args[0].id in glist and _is_name(c.args[1], I)):
                raise TranslationError("optimize(): unsupported call " + _u(c))
            fl, gl = flag(c), glist[c.args[0].id]
            tg = st.targets[0]
            if not (isinstance(tg, ast.Tuple) and len(tg.elts) == 5):
                raise TranslationError("optimize(): unsupported target of _gp_goal_constraints")
            for pos, e in enumerate(tg.elts):
                if _self_attr(e, TRACKED):
                    if pos != 2 or e.attr not in ("__subproblem_soft_constraints", "__subproblem_path_soft_constraints"):
                        raise TranslationError("optimize(): %s assigned from position %d of _gp_goal_constraints" % (e.attr, pos))
                    before.append((TRACKED[e.attr], "{ {B} with %s := softOf %s %s }" % (TRACKED[e.attr], gl, fl)))
                elif pos == 2:
                    raise TranslationError("optimize(): soft constraints of _gp_goal_constraints not stored")
            if not isinstance(tg.elts[3], ast.Name):
                raise TranslationError("optimize(): unsupported target for the hard constraints")
            hard[tg.elts[3].id] = (gl, fl)
            continue
        if isinstance(st, ast.Expr) and isinstance(st.value, ast.Call) and _self_attr(st.value.func, ("_gp_update_constraint_store",)):
            if solved:
                raise TranslationError("optimize(): critical goals inserted after the solve")
            c = st.value
            if not (len(c.args) == 2 and not c.keywords and _self_attr(c.args[0], STORES) and isinstance(c.args[1], ast.Name)
                    and c.args[1].id in hard):
                raise TranslationError("optimize(): unsupported call " + _u(c))
            gl, fl = hard[c.args[1].id]
            kind = "true" if STORES[c.args[0].attr] == "path" else "false"
            before.append((STORES[c.args[0].attr], "C02.insertHard o E nT %s %s %s {B}" % (kind, fl, gl)))
            continue
        if isinstance(st, ast.If) and isinstance(st.test, ast.Subscript) and isinstance(st.test.value, ast.Name) \
                and st.test.value.id in opts_names and isinstance(st.test.slice, ast.Constant) \
                and st.test.slice.value == "keep_soft_constraints":
            if not solved or after is not None:
                raise TranslationError("optimize(): keep_soft_constraints branch misplaced")

            def branch(stmts):
                items = []
                for s in stmts:
                    if not (isinstance(s, ast.Expr) and isinstance(s.value, ast.Call)):
                        raise TranslationError("optimize(): unsupported statement " + _u(s))
                    c = s.value
                    if _self_attr(c.func, ("__add_subproblem_objective_constraint",)) and not c.args and not c.keywords:
                        items.append(("prob", "addObjectiveGen E row {B}"))
                    elif _self_attr(c.func, ("__soft_to_hard_constraints",)) and len(c.args) == 2 \
                            and isinstance(c.args[0], ast.Name) and c.args[0].id in glist and _is_name(c.args[1], I):
                        fl = flag(c)
                        items.append(("path" if fl == "true" else "point",
                                      "softToHardGen o E nT R i %s %s {B}" % (fl, glist[c.args[0].id])))
                    else:
                        raise TranslationError("optimize(): unsupported statement " + _u(s))
                return _chain_lets(_canon(items)).replace("\n  ", "\n    ")

            after = "  if keepSoft then\n  %s\n  else\n  %s" % (branch(st.body), branch(st.orelse))
            continue
        raise TranslationError("optimize(): unsupported use of the bookkeeping in the loop body: " + _u(st))
    if after is None:
        raise TranslationError("optimize(): keep_soft_constraints branch not found")
    return _chain_lets(_canon(resets)), _chain_lets(_canon(before)), after


def translate_add_objective(fn):
    items = []

    def member(node, loc):
        if isinstance(node, ast.Name) and node.id in loc:
            return loc[node.id]
        if isinstance(node, ast.UnaryOp) and isinstance(node.op, ast.USub) and isinstance(node.operand, ast.Constant) \
                and node.operand.value == 1:
            return "(E - 1)"
        raise TranslationError("__add_subproblem_objective_constraint: unsupported member index " + _u(node))

    def stmt(s, loc):
        c = s.value if isinstance(s, ast.Expr) else None
        if isinstance(c, ast.Call) and isinstance(c.func, ast.Attribute) and c.func.attr in ("extend", "append") \
                and isinstance(c.func.value, ast.Subscript) and _self_attr(c.func.value.value, ROWS) and len(c.args) == 1:
            dst = TRACKED[c.func.value.value.attr]
            md = member(c.func.value.slice, loc)
            if c.func.attr == "extend":
                a = c.args[0]
                if not (isinstance(a, ast.Subscript) and _self_attr(a.value, ROWS)):
                    raise TranslationError("__add_subproblem_objective_constraint: unsupported " + _u(s))
                return (dst, "{ {B} with %s := C02.upd {B}.%s %s ({B}.%s %s ++ {B}.%s %s) }" % (
                    dst, dst, md, dst, md, TRACKED[a.value.attr], member(a.slice, loc)))
            if _mentions_tracked(c.args[0]):
                raise TranslationError("__add_subproblem_objective_constraint: unsupported " + _u(s))
            return (dst, "{ {B} with %s := C02.upd {B}.%s %s ({B}.%s %s ++ [row]) }" % (dst, dst, md, dst, md))
        raise TranslationError("__add_subproblem_objective_constraint: unsupported use of a tracked attribute: " + _u(s))

    loop_txt, tail = None, []
    for st in fn.body:
        if not _mentions_tracked(st):
            continue
        if isinstance(st, ast.For) and _range_E(st.iter) and isinstance(st.target, ast.Name) and not st.orelse:
            if loop_txt is not None or tail:
                raise TranslationError("__add_subproblem_objective_constraint: unsupported loop structure")
            inner = _canon([stmt(s, {st.target.id: "m"}) for s in st.body])
            loop_txt = _chain_lets(inner).replace("\n  ", "\n      ")
            continue
        tail.append(stmt(st, {}))
    if loop_txt is None:
        raise TranslationError("__add_subproblem_objective_constraint: member loop not found")
    lines = ["  let A : Book ρ := C02.forRange E (fun B m =>\n    %s) B" % loop_txt]
    cur = "A"
    for k, (_, tmpl) in enumerate(tail):
        lines.append("  let A%d : Book ρ := %s" % (k + 1, tmpl.replace("{B}", cur)))
        cur = "A%d" % (k + 1)
    lines.append("  " + cur)
    return "\n".join(lines)


def translate_constraints(fn, supername):
    args = [a.arg for a in fn.args.args]
    if len(args) != 2:
        raise TranslationError("%s: unexpected signature" % fn.name)
    M = args[1]
    acc = chain = None
    segs = None
    done = False
    for st in fn.body:
        if isinstance(st, ast.Expr) and isinstance(st.value, ast.Constant):
            continue
        if isinstance(st, ast.Assign) and len(st.targets) == 1 and isinstance(st.targets[0], ast.Name):
            v = st.value
            if isinstance(v, ast.Call) and isinstance(v.func, ast.Attribute) and v.func.attr == supername \
                    and isinstance(v.func.value, ast.Call) and _is_name(v.func.value.func, "super") \
                    and len(v.args) == 1 and _is_name(v.args[0], M):
                acc = st.targets[0].id
                continue
            if isinstance(v, ast.Call) and isinstance(v.func, ast.Attribute) and v.func.attr == "chain" \
                    and _is_name(v.func.value, "itertools"):
                chain = st.targets[0].id
                segs = []
                for a in v.args:
                    if isinstance(a, ast.Call) and isinstance(a.func, ast.Attribute) and a.func.attr == "values" \
                            and isinstance(a.func.value, ast.Subscript) and _self_attr(a.func.value.value, STORES) \
                            and not a.args:
                        idx = a.func.value.slice
                        segs.append(".store (B.%s %s)" % (STORES[a.func.value.value.attr], _member(idx, M)))
                    elif isinstance(a, ast.Subscript) and _self_attr(a.value, ROWS):
                        segs.append(".rows (B.%s %s)" % (ROWS[a.value.attr], _member(a.slice, M)))
                    else:
                        raise TranslationError("%s: unsupported chain element %s" % (fn.name, _u(a)))
                continue
        if isinstance(st, ast.For) and chain and _is_name(st.iter, chain) and isinstance(st.target, ast.Name) \
                and len(st.body) == 1 and not st.orelse:
            r = st.target.id
            want = "%s.append((%s.function(self), %s.min, %s.max))" % (acc, r, r, r)
            if ast.unparse(st.body[0]) != want:
                raise TranslationError("%s: unsupported row hand-over %s" % (fn.name, _u(st.body[0])))
            done = True
            continue
        if isinstance(st, ast.Return) and done and _is_name(st.value, acc):
            return "[" + ", ".join(segs) + "]"
        raise TranslationError("%s: unsupported statement %s" % (fn.name, _u(st)))
    raise TranslationError("%s: no return" % fn.name)


def _member(node, M):
    if _is_name(node, M):
        return "m"
    if isinstance(node, ast.Constant) and isinstance(node.value, int) and node.value >= 0:
        return str(node.value)
    if isinstance(node, ast.BinOp) and isinstance(node.op, (ast.Add, ast.Sub)):
        return "(%s %s %s)" % (_member(node.left, M), "+" if isinstance(node.op, ast.Add) else "-", _member(node.right, M))
    raise TranslationError("unsupported member index " + _u(node))


GEN_TEMPLATE = """import RtcVerif.Model.C02Book
/-!
GENERATED on every run of the C02 check by harness/translate_c02.py from `GoalProgrammingMixin`
(`__soft_to_hard_constraints`, `optimize`, `__add_subproblem_objective_constraint`, `constraints`,
`path_constraints`) in /repo/src/rtctools/optimization/goal_programming_mixin.py (statement table in the
header of the translator).  Do not edit.  The theorems tie the source, read this way, to the statement-level
reference `Model/C02Book.lean`, which the `book_*` theorems of Props/C02.lean tie to the loop model of
`store_monotone` / `C02_no_degradation`.
-/
namespace RtcVerif.Gen
open RtcVerif RtcVerif.C04 RtcVerif.C02

/-- body of the goal loop of `__soft_to_hard_constraints` -/
def softToHardBodyGen {ρ : Type} (o : HOpts) (nT : Nat) (R : Reads) (sym : Nat) (isPath : Bool) (m : Nat)
    (B : Book ρ) (j : Nat) (goal : Goal) : Book ρ :=
  %(body)s

theorem softToHardBodyGen_eq_model {ρ : Type} (o : HOpts) (nT : Nat) (R : Reads) (sym : Nat) (isPath : Bool)
    (m : Nat) (B : Book ρ) (j : Nat) (goal : Goal) :
    softToHardBodyGen o nT R sym isPath m B j goal = C02.softToHardBody o nT R sym isPath m B j goal := by
  cases isPath <;> rfl

def softToHardGen {ρ : Type} (o : HOpts) (E nT : Nat) (R : Reads) (sym : Nat) (isPath : Bool)
    (goals : List Goal) (B : Book ρ) : Book ρ :=
  C02.forRange E (fun B m => C02.forEnum (softToHardBodyGen o nT R sym isPath m) B 0 goals) B

theorem softToHardGen_eq_model {ρ : Type} (o : HOpts) (E nT : Nat) (R : Reads) (sym : Nat) (isPath : Bool)
    (goals : List Goal) (B : Book ρ) :
    softToHardGen o E nT R sym isPath goals B = C02.softToHardRef o E nT R sym isPath goals B := by
  have h : ∀ m, softToHardBodyGen (ρ := ρ) o nT R sym isPath m = C02.softToHardBody o nT R sym isPath m := by
    intro m; funext B j goal; exact softToHardBodyGen_eq_model o nT R sym isPath m B j goal
  unfold softToHardGen C02.softToHardRef
  simp only [h]

/-- resets of `optimize()` before the priority loop -/
def resetGen {ρ : Type} (B : Book ρ) : Book ρ :=
%(reset)s

theorem resetGen_eq_model {ρ : Type} (B : Book ρ) : resetGen B = C02.resetRef B := rfl

/-- bookkeeping of one pass before the solve -/
def beforeSolveGen {ρ : Type} (o : HOpts) (E nT : Nat) (softOf : List Goal → Bool → Nat → List ρ)
    (goals pathGoals : List Goal) (B : Book ρ) : Book ρ :=
%(before)s

theorem beforeSolveGen_eq_model {ρ : Type} (o : HOpts) (E nT : Nat) (softOf : List Goal → Bool → Nat → List ρ)
    (goals pathGoals : List Goal) (B : Book ρ) :
    beforeSolveGen o E nT softOf goals pathGoals B = C02.beforeSolveRef o E nT softOf goals pathGoals B := rfl

/-- `__add_subproblem_objective_constraint` -/
def addObjectiveGen {ρ : Type} (E : Nat) (row : ρ) (B : Book ρ) : Book ρ :=
%(addobj)s

theorem addObjectiveGen_eq_model {ρ : Type} (E : Nat) (row : ρ) (B : Book ρ) :
    addObjectiveGen E row B = C02.addObjectiveRef E row B := rfl

/-- bookkeeping of one pass after `priority_completed` -/
def afterSolveGen {ρ : Type} (o : HOpts) (E nT : Nat) (R : Reads) (i : Nat) (keepSoft : Bool)
    (goals pathGoals : List Goal) (row : ρ) (B : Book ρ) : Book ρ :=
%(after)s

theorem afterSolveGen_eq_model {ρ : Type} (o : HOpts) (E nT : Nat) (R : Reads) (i : Nat) (keepSoft : Bool)
    (goals pathGoals : List Goal) (row : ρ) (B : Book ρ) :
    afterSolveGen o E nT R i keepSoft goals pathGoals row B
      = C02.afterSolveRef o E nT R i keepSoft goals pathGoals row B := by
  unfold afterSolveGen C02.afterSolveRef
  cases keepSoft
  · simp only [Bool.false_eq_true, if_false, softToHardGen_eq_model]
  · simp only [if_true, addObjectiveGen_eq_model]

/-- `constraints(ensemble_member)` after the user's own rows -/
def constraintsGen {ρ : Type} (B : Book ρ) (m : Nat) : List (Seg ρ) :=
  %(cons)s

theorem constraintsGen_eq_model {ρ : Type} (B : Book ρ) (m : Nat) : constraintsGen B m = C02.constraintsRef B m := rfl

/-- `path_constraints(ensemble_member)` after the user's own rows -/
def pathConstraintsGen {ρ : Type} (B : Book ρ) (m : Nat) : List (Seg ρ) :=
  %(pcons)s

theorem pathConstraintsGen_eq_model {ρ : Type} (B : Book ρ) (m : Nat) :
    pathConstraintsGen B m = C02.pathConstraintsRef B m := rfl

end RtcVerif.Gen
"""

THEOREMS = ["softToHardBodyGen_eq_model", "softToHardGen_eq_model", "resetGen_eq_model", "beforeSolveGen_eq_model",
            "addObjectiveGen_eq_model", "afterSolveGen_eq_model", "constraintsGen_eq_model",
            "pathConstraintsGen_eq_model"]


def translate_all():
    path = os.path.join(REPO, *SRC)
    tree = ast.parse(open(path).read())
    cls = "GoalProgrammingMixin"
    s2h = _S2H(_find_method(tree, cls, "__soft_to_hard_constraints"))
    reset, before, after = translate_optimize(_find_method(tree, cls, "optimize"))
    addobj = translate_add_objective(_find_method(tree, cls, "__add_subproblem_objective_constraint"))
    cons = translate_constraints(_find_method(tree, cls, "constraints"), "constraints")
    pcons = translate_constraints(_find_method(tree, cls, "path_constraints"), "path_constraints")
    return dict(body=s2h.body, reset=reset, before=before, after=after, addobj=addobj, cons=cons, pcons=pcons)


def gen_bookkeeping(c):
    """(re)generate lean/RtcVerif/Gen/GpBookkeeping.lean; returns the extra obligation spec for c.prove"""
    gdir = os.path.join(LEAN_DIR, "RtcVerif", "Gen")
    os.makedirs(gdir, exist_ok=True)
    path = os.path.join(gdir, "GpBookkeeping.lean")
    try:
        parts = translate_all()
    except TranslationError as e:
        c.broken.append(("translator: GoalProgrammingMixin constraint bookkeeping", str(e)))
        return []
    text = GEN_TEMPLATE % parts
    old = open(path).read() if os.path.exists(path) else None
    if old != text:
        tmp = path + ".tmp%d" % os.getpid()
        with open(tmp, "w") as f:
            f.write(text)
        os.replace(tmp, path)
    return [("RtcVerif.Gen.GpBookkeeping", "RtcVerif.Gen", THEOREMS)]
