"""
Source-to-Lean translation of the goal-programming objective helpers (second tie for C03, next to
the correspondence check):

  `_GoalProgrammingMixinBase._gp_n_objectives / _gp_objective / _gp_path_objective`
      (goal_programming_mixin_base.py)  and their two callers
  `GoalProgrammingMixin.objective / path_objective`   (goal_programming_mixin.py).

On every run of the C03 check the methods are parsed with `ast`, executed symbolically (locals are
inlined, `if`/`return` become nested `if then else`), written to `lean/RtcVerif/Gen/GpObjective.lean`
as definitions over the C03 model's types, and tied by generated theorems to the model functions the
theorems of `Props/C03.lean` are about (`C03.nObjectives`, `C03.gpObjective`, `C03.memberObjective`).

Python construct                                              ->  model term
  subproblem_objectives / subproblem_path_objectives (params) ->  `objs` / `pobjs` : lists of objective functions
                                                                   (instantiated with `C03.objectiveFns goals`)
  [o(self, ensemble_member) for o in L]  under ca.vertcat(*.) ->  `L.flatMap ev_L`   (ev = `C03.objVec ...`)
  X.size1()  on such a vertcat                                ->  `X.length`
  ca.sum1(X)                                                  ->  `X.sum`
  len(L)                                                      ->  `L.length`
  a > 0                                                       ->  `0 < a`
  a + b  (counts)                                             ->  `a + b`  (Nat)
  a / b                                                       ->  `a / (b : Rat)`
  self.goal_programming_options()["scale_by_problem_size"]    ->  `sbs`
  ca.MX(0)                                                    ->  `0`
  local assignment, if/else, return                           ->  inlined / `if c then a else b`
  self.__subproblem_objectives, self.__subproblem_path_objectives, []   (callers)
                                                              ->  `goals`, `pathGoals`, `[]`
  self._gp_n_objectives(A, B, m)                              ->  `C03.nObjectives sbs T val m A B`
  self._gp_objective(A, n, m) / self._gp_path_objective(A, n, m)
                                                              ->  `C03.gpObjective sbs false/true T val m 0/i A n`
Anything else: `c.broken.append(("translator: <method>", reason))`, no extra obligations (the usual
failing-input search of the check runs on).

Third tie (`gen_objective_func`, table and translators in harness/c03_closures.py): the `_objective_func` closures of
`_gp_goal_constraints` (target / minimisation / `hasattr` override branch, their `n_active`, the epsilon symbol, the
default-argument binding of the loop variables versus late-bound free variables), the closure the linearising mixin
stores on the goal, and the tuple position through which `GoalProgrammingMixin.optimize` /
`SinglePassGoalProgrammingMixin` fill the objective list and the path objective list.  Output:
`lean/RtcVerif/Gen/GpObjectiveFunc.lean` (imports `Gen/GpObjective.lean`); its `..._chain` theorems compose the
translated closures, the translated callers and the translated `_gp_objective` / `_gp_path_objective` /
`_gp_n_objectives` into the model's `gpObjective` / `nObjectives`.
"""
import ast
import os

from .common import LEAN_DIR, REPO
from .translate import TranslationError, _find_method

BASE = os.path.join("src", "rtctools", "optimization", "goal_programming_mixin_base.py")
GPM = os.path.join("src", "rtctools", "optimization", "goal_programming_mixin.py")


def _is_self_call(node, name):
    return (isinstance(node, ast.Call) and isinstance(node.func, ast.Attribute) and node.func.attr == name
            and isinstance(node.func.value, ast.Name) and node.func.value.id == "self")


def _is_ca(node, name):
    return (isinstance(node, ast.Call) and isinstance(node.func, ast.Attribute) and node.func.attr == name
            and isinstance(node.func.value, ast.Name) and node.func.value.id == "ca")


class _Helper:
    """symbolic execution of one helper; values are (lean text, type), type in nat | rat | list | bool"""

    def __init__(self, params):
        # params: python parameter name -> (lean list name, lean evaluation name) or (lean name, "nat")
        self.params = params

    def expr(self, node, env):
        if isinstance(node, ast.Name):
            if node.id in env:
                return env[node.id]
            p = self.params.get(node.id)
            if p and p[1] == "nat":
                return (p[0], "nat")
            raise TranslationError("unknown name " + node.id)
        if isinstance(node, ast.Constant) and isinstance(node.value, int) and not isinstance(node.value, bool):
            return (str(node.value), "nat")
        if _is_ca(node, "vertcat"):
            # ca.vertcat(*[o(self, ensemble_member) for o in L])
            if len(node.args) == 1 and isinstance(node.args[0], ast.Starred) and not node.keywords:
                lc = node.args[0].value
                if isinstance(lc, ast.ListComp) and len(lc.generators) == 1 and not lc.generators[0].ifs:
                    g = lc.generators[0]
                    if isinstance(g.target, ast.Name) and isinstance(g.iter, ast.Name) and g.iter.id in self.params \
                            and self.params[g.iter.id][1] != "nat":
                        e = lc.elt
                        if isinstance(e, ast.Call) and isinstance(e.func, ast.Name) and e.func.id == g.target.id \
                                and [ast.dump(a) for a in e.args] == [ast.dump(ast.Name("self", ast.Load())),
                                                                      ast.dump(ast.Name("ensemble_member", ast.Load()))] \
                                and not e.keywords:
                            lst, ev = self.params[g.iter.id]
                            return ("(%s.flatMap %s)" % (lst, ev), "list")
            raise TranslationError("unsupported vertcat " + ast.dump(node)[:160])
        if _is_ca(node, "sum1") and len(node.args) == 1:
            v, t = self.expr(node.args[0], env)
            if t != "list":
                raise TranslationError("sum1 of a non-vector")
            return ("%s.sum" % v, "rat")
        if _is_ca(node, "MX") and len(node.args) == 1 and isinstance(node.args[0], ast.Constant) \
                and node.args[0].value == 0:
            return ("0", "rat")
        if isinstance(node, ast.Call) and isinstance(node.func, ast.Attribute) and node.func.attr == "size1" \
                and not node.args:
            v, t = self.expr(node.func.value, env)
            if t != "list":
                raise TranslationError("size1 of a non-vector")
            return ("%s.length" % v, "nat")
        if isinstance(node, ast.Call) and isinstance(node.func, ast.Name) and node.func.id == "len" \
                and len(node.args) == 1 and isinstance(node.args[0], ast.Name) \
                and node.args[0].id in self.params and self.params[node.args[0].id][1] != "nat":
            return ("%s.length" % self.params[node.args[0].id][0], "nat")
        if isinstance(node, ast.Subscript) and _is_self_call(node.value, "goal_programming_options") \
                and isinstance(node.slice, ast.Constant) and node.slice.value == "scale_by_problem_size":
            return ("sbs", "bool")
        if isinstance(node, ast.BinOp) and isinstance(node.op, ast.Add):
            (a, ta), (b, tb) = self.expr(node.left, env), self.expr(node.right, env)
            if ta == tb == "nat":
                return ("(%s + %s)" % (a, b), "nat")
            raise TranslationError("unsupported addition of %s and %s" % (ta, tb))
        if isinstance(node, ast.BinOp) and isinstance(node.op, ast.Div):
            (a, ta), (b, tb) = self.expr(node.left, env), self.expr(node.right, env)
            if ta == "rat" and tb == "nat":
                return ("%s / (%s : Rat)" % (a, b), "rat")
            if ta == "rat" and tb == "rat":
                return ("%s / %s" % (a, b), "rat")
            raise TranslationError("unsupported division of %s by %s" % (ta, tb))
        if isinstance(node, ast.Compare) and len(node.ops) == 1 and isinstance(node.ops[0], ast.Gt) \
                and isinstance(node.comparators[0], ast.Constant) and node.comparators[0].value == 0:
            a, ta = self.expr(node.left, env)
            if ta == "nat":
                return ("0 < %s" % a, "bool")
        raise TranslationError("unsupported expression " + ast.dump(node)[:160])

    def block(self, stmts, env):
        """value returned by a statement list"""
        env = dict(env)
        for k, st in enumerate(stmts):
            if isinstance(st, ast.Expr) and isinstance(st.value, ast.Constant):
                continue
            if isinstance(st, ast.Assign) and len(st.targets) == 1 and isinstance(st.targets[0], ast.Name):
                env[st.targets[0].id] = self.expr(st.value, env)
                continue
            if isinstance(st, ast.Return) and st.value is not None:
                return self.expr(st.value, env)
            if isinstance(st, ast.If):
                c, tc = self.expr(st.test, env)
                if tc != "bool":
                    raise TranslationError("condition is not a comparison / option")
                rest = stmts[k + 1:]
                a, ta = self.block(list(st.body) + rest, env)
                b, tb = self.block(list(st.orelse) + rest, env)
                if ta != tb:
                    raise TranslationError("branches return different kinds (%s / %s)" % (ta, tb))
                if a == b:
                    return (a, ta)
                return ("(if %s then %s else %s)" % (c, a, b), ta)
            raise TranslationError("unsupported statement " + ast.dump(st)[:160])
        raise TranslationError("no return value")


def _args(fn):
    return [a.arg for a in fn.args.args]


def translate_helpers(tree):
    out = {}
    fn = _find_method(tree, "_GoalProgrammingMixinBase", "_gp_n_objectives")
    if _args(fn) != ["self", "subproblem_objectives", "subproblem_path_objectives", "ensemble_member"]:
        raise TranslationError("_gp_n_objectives: unexpected signature %r" % _args(fn))
    h = _Helper({"subproblem_objectives": ("objs", "ev"), "subproblem_path_objectives": ("pobjs", "pev")})
    v, t = h.block(fn.body, {})
    if t != "nat":
        raise TranslationError("_gp_n_objectives does not return a count")
    out["n"] = v
    for key, name, par in (("obj", "_gp_objective", "subproblem_objectives"),
                           ("pobj", "_gp_path_objective", "subproblem_path_objectives")):
        fn = _find_method(tree, "_GoalProgrammingMixinBase", name)
        if _args(fn) != ["self", par, "n_objectives", "ensemble_member"]:
            raise TranslationError("%s: unexpected signature %r" % (name, _args(fn)))
        h = _Helper({par: ("objs", "ev"), "n_objectives": ("nObj", "nat")})
        try:
            v, t = h.block(fn.body, {})
        except TranslationError as e:
            raise TranslationError("%s: %s" % (name, e))
        if t != "rat":
            raise TranslationError("%s does not return an objective value" % name)
        out[key] = v
    return out


class _Caller:
    """`objective` / `path_objective` of GoalProgrammingMixin over the model functions"""

    def __init__(self, step):
        self.step = step  # "0" or "i"

    def lst(self, node):
        if isinstance(node, ast.Attribute) and isinstance(node.value, ast.Name) and node.value.id == "self":
            if node.attr == "__subproblem_objectives":
                return "goals"
            if node.attr == "__subproblem_path_objectives":
                return "pathGoals"
        if isinstance(node, ast.List) and not node.elts:
            return "[]"
        raise TranslationError("unsupported objective list " + ast.dump(node)[:120])

    def member(self, node):
        if not (isinstance(node, ast.Name) and node.id == "ensemble_member"):
            raise TranslationError("ensemble member argument is not `ensemble_member`")

    def expr(self, node, env):
        if isinstance(node, ast.Name) and node.id in env:
            return env[node.id]
        if _is_self_call(node, "_gp_n_objectives") and len(node.args) == 3 and not node.keywords:
            self.member(node.args[2])
            return ("(C03.nObjectives sbs T val m %s %s)" % (self.lst(node.args[0]), self.lst(node.args[1])), "nat")
        for name, flag, step in (("_gp_objective", "false", "0"), ("_gp_path_objective", "true", self.step)):
            if _is_self_call(node, name) and len(node.args) == 3 and not node.keywords:
                self.member(node.args[2])
                n, tn = self.expr(node.args[1], env)
                if tn != "nat":
                    raise TranslationError("n_objectives argument is not a count")
                return ("C03.gpObjective sbs %s T val m %s %s %s" % (flag, step, self.lst(node.args[0]), n), "rat")
        raise TranslationError("unsupported expression " + ast.dump(node)[:160])

    def body(self, fn):
        env = {}
        for st in fn.body:
            if isinstance(st, ast.Expr) and isinstance(st.value, ast.Constant):
                continue
            if isinstance(st, ast.Assign) and len(st.targets) == 1 and isinstance(st.targets[0], ast.Name):
                env[st.targets[0].id] = self.expr(st.value, env)
                continue
            if isinstance(st, ast.Return) and st.value is not None:
                v, t = self.expr(st.value, env)
                if t != "rat":
                    raise TranslationError("does not return an objective value")
                return v
            raise TranslationError("unsupported statement " + ast.dump(st)[:160])
        raise TranslationError("no return value")


def translate_callers(tree):
    out = {}
    for key, name, step in (("objective", "objective", "0"), ("path_objective", "path_objective", "i")):
        fn = _find_method(tree, "GoalProgrammingMixin", name)
        if _args(fn) != ["self", "ensemble_member"]:
            raise TranslationError("%s: unexpected signature %r" % (name, _args(fn)))
        try:
            out[key] = _Caller(step).body(fn)
        except TranslationError as e:
            raise TranslationError("GoalProgrammingMixin.%s: %s" % (name, e))
    return out


GEN_TEMPLATE = """import RtcVerif.Model.C03Subproblem
import RtcVerif.Proofs.C03Objective
/-!
GENERATED on every run of the C03 check by harness/translate_c03.py from
`_GoalProgrammingMixinBase._gp_n_objectives / _gp_objective / _gp_path_objective`
(goal_programming_mixin_base.py) and `GoalProgrammingMixin.objective / path_objective`
(goal_programming_mixin.py) in /repo/src/rtctools/optimization.  Do not edit.
The `...Gen` definitions are the source read over lists (`objs`: the objective functions of the priority,
`ev o` = `o(self, ensemble_member)`); the theorems tie them to the model functions the property theorems
of C03 are about.
-/
namespace RtcVerif.Gen
open RtcVerif

def gpNObjectivesGen {α β : Type} (ev : α → List Rat) (pev : β → List Rat) (objs : List α) (pobjs : List β) : Nat :=
  %(n)s

def gpObjectiveGen {α : Type} (sbs : Bool) (ev : α → List Rat) (objs : List α) (nObj : Nat) : Rat :=
  %(obj)s

def gpPathObjectiveGen {α : Type} (sbs : Bool) (ev : α → List Rat) (objs : List α) (nObj : Nat) : Rat :=
  %(pobj)s

theorem gpNObjectivesGen_eq_model (sbs : Bool) (T : Nat) (val : C03.Val) (m : Nat) (goals pathGoals : List C03.Goal) :
    gpNObjectivesGen (C03.objVec sbs false T val m 0) (C03.objVec sbs true T val m 0)
        (C03.objectiveFns goals) (C03.objectiveFns pathGoals)
      = C03.nObjectives sbs T val m goals pathGoals := by
  have h1 := congrArg List.length (C03.vertcat_eq_fns sbs false T val m 0 goals)
  have h2 := congrArg List.length (C03.vertcat_eq_fns sbs true T val m 0 pathGoals)
  unfold gpNObjectivesGen C03.nObjectives
  omega

theorem gpObjectiveGen_eq_model (sbs : Bool) (T : Nat) (val : C03.Val) (m : Nat) (goals : List C03.Goal) (n : Nat) :
    gpObjectiveGen sbs (C03.objVec sbs false T val m 0) (C03.objectiveFns goals) n
      = C03.gpObjective sbs false T val m 0 goals n := by
  rw [C03.gpObjective_code]
  cases sbs <;> rfl

theorem gpPathObjectiveGen_eq_model (sbs : Bool) (T : Nat) (val : C03.Val) (m i : Nat) (pathGoals : List C03.Goal)
    (n : Nat) :
    gpPathObjectiveGen sbs (C03.objVec sbs true T val m i) (C03.objectiveFns pathGoals) n
      = C03.gpObjective sbs true T val m i pathGoals n := by
  rw [C03.gpObjective_code]
  cases sbs <;> rfl

/-- `GoalProgrammingMixin.objective(ensemble_member)` -/
def objectiveGen (sbs : Bool) (T : Nat) (val : C03.Val) (goals pathGoals : List C03.Goal) (m : Nat) : Rat :=
  %(objective)s

/-- `GoalProgrammingMixin.path_objective(ensemble_member)` at time step `i` -/
def pathObjectiveGen (sbs : Bool) (T : Nat) (val : C03.Val) (goals pathGoals : List C03.Goal) (m i : Nat) : Rat :=
  %(path_objective)s

theorem memberObjectiveGen_eq_model (sbs : Bool) (T : Nat) (val : C03.Val) (goals pathGoals : List C03.Goal) (m : Nat) :
    objectiveGen sbs T val goals pathGoals m
        + ((List.range T).map fun i => pathObjectiveGen sbs T val goals pathGoals m i).sum
      = C03.memberObjective sbs T val goals pathGoals m := by
  rfl

end RtcVerif.Gen
"""

THEOREMS = ["gpNObjectivesGen_eq_model", "gpObjectiveGen_eq_model", "gpPathObjectiveGen_eq_model",
            "memberObjectiveGen_eq_model"]


def gen_gp_objective(c):
    """(re)generate lean/RtcVerif/Gen/GpObjective.lean; returns the extra obligation spec for c.prove"""
    gdir = os.path.join(LEAN_DIR, "RtcVerif", "Gen")
    os.makedirs(gdir, exist_ok=True)
    path = os.path.join(gdir, "GpObjective.lean")
    parts = {}
    try:
        parts.update(translate_helpers(ast.parse(open(os.path.join(REPO, BASE)).read())))
    except (TranslationError, OSError, SyntaxError) as e:
        c.broken.append(("translator: _gp_objective", str(e)))
        return []
    try:
        parts.update(translate_callers(ast.parse(open(os.path.join(REPO, GPM)).read())))
    except (TranslationError, OSError, SyntaxError) as e:
        c.broken.append(("translator: GoalProgrammingMixin.objective", str(e)))
        return []
    text = GEN_TEMPLATE % parts
    old = open(path).read() if os.path.exists(path) else None
    if old != text:
        tmp = path + ".tmp%d" % os.getpid()
        with open(tmp, "w") as f:
            f.write(text)
        os.replace(tmp, path)
    return [("RtcVerif.Gen.GpObjective", "RtcVerif.Gen", THEOREMS)]


def gen_objective_func(c):
    """(re)generate lean/RtcVerif/Gen/GpObjectiveFunc.lean (the `_objective_func` closures of
    `_gp_goal_constraints`, see harness/c03_closures.py); returns the extra obligation spec for c.prove.
    Must come AFTER gen_gp_objective(c) in the `extra` list (the module imports Gen/GpObjective.lean)."""
    from . import c03_closures

    return c03_closures.generate(c)
