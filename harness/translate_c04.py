"""
Source-to-Lean translation of the element-wise arithmetic of the soft-to-hard conversion (C02/C04).

Translated on every run of the C02 / C04 checks from /repo:

  * `_GoalProgrammingMixinBase._gp_goal_hard_constraint` (goal_programming_mixin_base.py; used for
    critical goals) and `GoalProgrammingMixin.__goal_hard_constraint` (goal_programming_mixin.py;
    used by `__soft_to_hard_constraints`)  ->  `hardCriticalGen`, `hardFromEpsGen`, both proved equal
    (`rfl` after a case split on the Boolean flags) to the mask-level model `C04.hardElemX`, which
    `Proofs/C04Elem.lean` proves equal to the `EVal`-level model of the property theorems
    (`C04.hardTargetStep`, `C02.fixedStep`, `C04.hardMinStep`, i.e. `C02.hardStep`) under the
    hypotheses that model already carries: nominal > 0 and a finite function range for
    non-critical target goals (what the validation guarantees).
  * the merge at the end of these methods (`constraint.update_bounds(existing, enforce=...)`)
    ->  `hardMergeGen`  = `C04.mergeNew`     (what `C02.storeOther` stores)
  * `_gp_update_constraint_store` (update vs insert)  ->  `updateStoreGen` = `C04.mergeStored`
    (what `C02.storeSelf` stores).

The arrays `m`, `M`, `epsilon`, `goal_m`, `goal_M`, `value` are read ELEMENT-WISE: one element of
each, in extended arithmetic with NaN (`XVal`).

Table  Python construct  ->  model term  (everything else is rejected: TranslationError)

  epsilon                                   XVal.fin e
  goal_m, goal_M (= self._gp_min_max_arrays(goal, ...))     gm, gM
  goal.function_range[0] / [1]              r0 / r1
  goal.relaxation / goal.function_nominal   XVal.fin relax / XVal.fin nom
  options["equality_threshold"|"constraint_relaxation"]     XVal.fin thr | XVal.fin cr
  options["violation_tolerance"]            vt
  options["fix_minimized_values"]           fix                       (Bool)
  goal.critical / has_target_min / has_target_max / has_target_bounds     critical / hasMin / hasMax / hasT
  number literal c                          XVal.fin c
  np.inf ; -x                               XVal.pinf ; xneg x
  a + b, a - b, a * b, a / b                xadd, xsub, xmul, xdiv
  x if c else y                             if c then x else y
  np.full_like(_, val, ...) ; np.ones(_)    val ; XVal.fin 1
  np.abs(x) ; np.array(x) ; x.reshape(_)    xabs x ; x ; x
  x[i] for i a mask / 0 / a slice (read)    x                          (same element)
  Timeseries(times, x)                      x
  np.isnan(x) ; np.isfinite(x)              xIsNan x ; XVal.isFinite x
  a < b ; a > b ; a == b                    xlt a b ; xlt b a ; xeqX a b
  not c ; ~c ; c and d ; c & d ; c | d      !c ; !c ; c && d ; c && d ; c || d
  x[mask] = rhs  (also chained)             x := xsel mask rhs x
  mask[mask] &= c                           mask := mask && c
  x -= y ; x += y                           x := xsub x y ; x := xadd x y
  if np.any(mask): body                     body  (every store to an existing array in body must be
                                                   masked by `mask`: element-wise the guard is void)
  if is_path_goal / not is_path_goal        both branches must give the same element-wise state
  if <flag expression>: A else: B           per variable: if flag then A else B
  expr = ... ; function = ca.Function(...)  opaque (the evaluated goal function)
  function(self.solver_output)              XVal.fin v
  self.<attr> = <constant>                  ignored (solver-option side effects)
  _GoalConstraint(goal, lambda: goal.function(...)/goal.function_nominal, m, M, True)   result (m, M)
  if existing_constraint: constraint.update_bounds(existing_constraint, enforce=E)      hardMergeGen
  return constraint

Second generator in this file: `gen_goal_code(c)` -> `lean/RtcVerif/Gen/GoalCode.lean` (C04 only): the goal
validation (`_gp_validate_goals`), the target broadcasting (`_gp_min_max_arrays`), the soft-constraint and
critical-goal construction inside `_gp_goal_constraints`, the `Goal` properties `has_target_*` / `is_empty`, and
`bounds()` / `constant_inputs()` / `parameters()` of both goal-programming mixins.  The translators and their closed
table *Python construct -> model term* are in `harness/c04_goalcode.py`; the generated definitions are proved equal
to the code-level references of `Model/C04Code.lean` / `Model/C04Inputs.lean`, which `Proofs/C04Code.lean` /
`Proofs/C04Inputs.lean` and the theorems `C04_*_code*` of `Props/C04.lean` connect to the model of the property
theorems.
"""
import ast
import os

from .common import LEAN_DIR, REPO
from .translate import TranslationError, _find_method

BASE = os.path.join("src", "rtctools", "optimization", "goal_programming_mixin_base.py")
MIXIN = os.path.join("src", "rtctools", "optimization", "goal_programming_mixin.py")

OPAQUE = "@opaque"

BOOL_ATTRS = {"critical": "critical", "has_target_min": "hasMin", "has_target_max": "hasMax",
              "has_target_bounds": "hasT"}
OPT_X = {"equality_threshold": "(XVal.fin thr)", "constraint_relaxation": "(XVal.fin cr)", "violation_tolerance": "vt"}


def _is_name(node, name):
    return isinstance(node, ast.Name) and node.id == name


def _is_np(node, attr):
    return isinstance(node, ast.Attribute) and _is_name(node.value, "np") and node.attr == attr


def _num(c):
    """a Python number literal as a Lean rational literal"""
    from fractions import Fraction
    f = Fraction(c)
    return "(%d)" % f.numerator if f.denominator == 1 else "(%d / %d)" % (f.numerator, f.denominator)


class _HC:
    """symbolic execution of the hard-constraint method over Lean terms (strings)"""

    def __init__(self, env=None, benv=None):
        self.env = dict(env or {})    # XVal-valued variables
        self.benv = dict(benv or {})  # Bool-valued variables (masks)
        self.result = None            # (m, M) handed to _GoalConstraint
        self.merge = None             # enforce mode of the final update_bounds
        self.returned = False

    def fork(self):
        return _HC(self.env, self.benv)

    # -- XVal expressions ------------------------------------------------------------------
    def x(self, node):
        if isinstance(node, ast.Name):
            if node.id in self.env:
                v = self.env[node.id]
                if v == OPAQUE:
                    raise TranslationError("opaque value %s used in arithmetic" % node.id)
                return v
            raise TranslationError("unknown name " + node.id)
        if isinstance(node, ast.Constant) and isinstance(node.value, (int, float)) and not isinstance(node.value, bool):
            return "(XVal.fin %s)" % _num(node.value)
        if _is_np(node, "inf"):
            return "XVal.pinf"
        if isinstance(node, ast.Attribute) and _is_name(node.value, "goal"):
            if node.attr == "relaxation":
                return "(XVal.fin relax)"
            if node.attr == "function_nominal":
                return "(XVal.fin nom)"
            raise TranslationError("unsupported goal attribute " + node.attr)
        if isinstance(node, ast.UnaryOp) and isinstance(node.op, ast.USub):
            return "(xneg %s)" % self.x(node.operand)
        if isinstance(node, ast.BinOp):
            op = {ast.Add: "xadd", ast.Sub: "xsub", ast.Mult: "xmul", ast.Div: "xdiv"}.get(type(node.op))
            if op is None:
                raise TranslationError("unsupported operator " + type(node.op).__name__)
            return "(%s %s %s)" % (op, self.x(node.left), self.x(node.right))
        if isinstance(node, ast.IfExp):
            return "(if %s then %s else %s)" % (self.b(node.test), self.x(node.body), self.x(node.orelse))
        if isinstance(node, ast.Subscript):
            # options[...] / goal.function_range[i] / element reads
            if _is_name(node.value, "options") and isinstance(node.slice, ast.Constant) and node.slice.value in OPT_X:
                return OPT_X[node.slice.value]
            if isinstance(node.value, ast.Attribute) and _is_name(node.value.value, "goal") \
                    and node.value.attr == "function_range" and isinstance(node.slice, ast.Constant) \
                    and node.slice.value in (0, 1):
                return "r%d" % node.slice.value
            if isinstance(node.value, ast.Name) and node.value.id in self.env:
                self.index_ok(node.slice)
                return self.x(node.value)
            if isinstance(node.value, (ast.BinOp, ast.Call)):
                self.index_ok(node.slice)
                return self.x(node.value)
            raise TranslationError("unsupported subscript " + ast.dump(node)[:100])
        if isinstance(node, ast.Call):
            f = node.func
            if _is_np(f, "full_like") and len(node.args) >= 2:
                return self.x(node.args[1])
            if _is_np(f, "ones") and len(node.args) == 1:
                return "(XVal.fin (1))"
            if _is_np(f, "abs") and len(node.args) == 1:
                return "(xabs %s)" % self.x(node.args[0])
            if _is_np(f, "array") and len(node.args) == 1:
                return self.x(node.args[0])
            if isinstance(f, ast.Attribute) and f.attr == "reshape":
                return self.x(f.value)
            if _is_name(f, "function") and self.env.get("function") == OPAQUE and len(node.args) == 1 \
                    and isinstance(node.args[0], ast.Attribute) and _is_name(node.args[0].value, "self") \
                    and node.args[0].attr == "solver_output":
                return "(XVal.fin v)"
            if _is_name(f, "Timeseries") and len(node.args) == 2:
                return self.x(node.args[1])
            raise TranslationError("unsupported call " + ast.dump(node)[:100])
        raise TranslationError("unsupported expression " + ast.dump(node)[:100])

    def index_ok(self, sl):
        """element-wise reads: a mask, the index 0, or a slice"""
        if isinstance(sl, ast.Slice):
            return
        if isinstance(sl, ast.Constant) and sl.value == 0:
            return
        if isinstance(sl, ast.Name) and sl.id in self.benv:
            return
        raise TranslationError("unsupported index " + ast.dump(sl)[:80])

    # -- Bool expressions ------------------------------------------------------------------
    def b(self, node):
        if isinstance(node, ast.Name):
            if node.id in self.benv:
                return self.benv[node.id]
            raise TranslationError("unknown flag " + node.id)
        if isinstance(node, ast.Attribute) and _is_name(node.value, "goal") and node.attr in BOOL_ATTRS:
            return BOOL_ATTRS[node.attr]
        if isinstance(node, ast.Subscript) and _is_name(node.value, "options") \
                and isinstance(node.slice, ast.Constant) and node.slice.value == "fix_minimized_values":
            return "fix"
        if isinstance(node, ast.UnaryOp) and isinstance(node.op, (ast.Not, ast.Invert)):
            return "(!%s)" % self.b(node.operand)
        if isinstance(node, ast.BoolOp):
            op = " && " if isinstance(node.op, ast.And) else " || "
            return "(" + op.join(self.b(v) for v in node.values) + ")"
        if isinstance(node, ast.BinOp) and isinstance(node.op, (ast.BitAnd, ast.BitOr)):
            op = " && " if isinstance(node.op, ast.BitAnd) else " || "
            return "(%s%s%s)" % (self.b(node.left), op, self.b(node.right))
        if isinstance(node, ast.Call) and _is_np(node.func, "isnan") and len(node.args) == 1:
            return "(xIsNan %s)" % self.x(node.args[0])
        if isinstance(node, ast.Call) and _is_np(node.func, "isfinite") and len(node.args) == 1:
            return "(XVal.isFinite %s)" % self.x(node.args[0])
        if isinstance(node, ast.Compare) and len(node.ops) == 1:
            a, c = self.x(node.left), self.x(node.comparators[0])
            if isinstance(node.ops[0], ast.Lt):
                return "(xlt %s %s)" % (a, c)
            if isinstance(node.ops[0], ast.Gt):
                return "(xlt %s %s)" % (c, a)
            if isinstance(node.ops[0], ast.Eq):
                return "(xeqX %s %s)" % (a, c)
            raise TranslationError("unsupported comparison " + type(node.ops[0]).__name__)
        raise TranslationError("unsupported condition " + ast.dump(node)[:100])

    # -- statements ------------------------------------------------------------------------
    def block(self, stmts):
        for st in stmts:
            if self.returned:
                raise TranslationError("statement after return")
            self.stmt(st)

    def is_bool_rhs(self, node):
        try:
            self.b(node)
            return True
        except TranslationError:
            return False

    def store(self, target, node):
        """one assignment target <- value node"""
        if isinstance(target, ast.Name):
            if target.id in ("expr", "function"):
                self.env[target.id] = OPAQUE
                return
            if isinstance(node, (ast.Compare, ast.UnaryOp, ast.BoolOp)) and self.is_bool_rhs(node) \
                    and not (isinstance(node, ast.UnaryOp) and isinstance(node.op, ast.USub)):
                self.benv[target.id] = self.b(node)
                self.env.pop(target.id, None)
            else:
                self.env[target.id] = self.x(node)
                self.benv.pop(target.id, None)
            return
        if isinstance(target, ast.Subscript) and isinstance(target.value, ast.Name) and target.value.id in self.env:
            # masked assignment  x[mask] = rhs
            mask = self.b(target.slice)
            name = target.value.id
            self.note_masked(name, mask)
            self.env[name] = "(xsel %s %s %s)" % (mask, self.x(node), self.env[name])
            return
        if isinstance(target, ast.Attribute) and _is_name(target.value, "self") \
                and target.attr in ("check_collocation_linearity", "linear_collocation"):
            if not isinstance(node, ast.Constant):
                raise TranslationError("side-effect assignment with a non-constant value")
            return
        raise TranslationError("unsupported assignment target " + ast.dump(target)[:100])

    def stmt(self, st):
        if isinstance(st, ast.Expr) and isinstance(st.value, ast.Constant):
            return
        if isinstance(st, ast.Assert):
            return
        if isinstance(st, ast.Return):
            if not _is_name(st.value, "constraint") or self.result is None:
                raise TranslationError("unexpected return value")
            self.returned = True
            return
        if isinstance(st, ast.Assign):
            return self.assign(st)
        if isinstance(st, ast.AugAssign):
            return self.augassign(st)
        if isinstance(st, ast.If):
            return self.branch(st)
        raise TranslationError("unsupported statement " + ast.dump(st)[:100])

    def assign(self, st):
        val = st.value
        # goal_m, goal_M = self._gp_min_max_arrays(goal, ...)
        if isinstance(val, ast.Call) and isinstance(val.func, ast.Attribute) and val.func.attr == "_gp_min_max_arrays":
            t = st.targets[0]
            if len(st.targets) != 1 or not isinstance(t, ast.Tuple) or len(t.elts) != 2 \
                    or not (val.args and _is_name(val.args[0], "goal")):
                raise TranslationError("unexpected use of _gp_min_max_arrays")
            self.env[t.elts[0].id] = "gm"
            self.env[t.elts[1].id] = "gM"
            return
        # constraint = _GoalConstraint(goal, lambda ..., m, M, True)
        if isinstance(val, ast.Call) and _is_name(val.func, "_GoalConstraint"):
            if len(st.targets) != 1 or not _is_name(st.targets[0], "constraint") or len(val.args) != 5:
                raise TranslationError("unexpected _GoalConstraint construction")
            g, lam, m, M, opt = val.args
            if not _is_name(g, "goal") or not (isinstance(opt, ast.Constant) and opt.value is True):
                raise TranslationError("unexpected _GoalConstraint arguments")
            body = lam.body if isinstance(lam, ast.Lambda) else None
            ok = isinstance(body, ast.BinOp) and isinstance(body.op, ast.Div) \
                and isinstance(body.left, ast.Call) and isinstance(body.left.func, ast.Attribute) \
                and _is_name(body.left.func.value, "goal") and body.left.func.attr == "function" \
                and isinstance(body.right, ast.Attribute) and _is_name(body.right.value, "goal") \
                and body.right.attr == "function_nominal"
            if not ok:
                raise TranslationError("retained function is not goal.function(...) / goal.function_nominal")
            self.result = (self.x(m), self.x(M))
            return
        if len(st.targets) == 1 and isinstance(st.targets[0], ast.Tuple):
            t = st.targets[0]
            if not isinstance(val, ast.Tuple) or len(val.elts) != len(t.elts):
                raise TranslationError("tuple assignment shape")
            for a, v in zip(t.elts, val.elts):
                self.store(a, v)
            return
        # (chained) targets: the right-hand side is evaluated once, in the state before the statement
        masked = [t for t in st.targets if isinstance(t, ast.Subscript)]
        if not masked:
            for t in st.targets:
                self.store(t, val)
            return
        if len(masked) != len(st.targets):
            raise TranslationError("mixed masked / plain chained assignment")
        rhs = self.x(val)
        for t in st.targets:
            if not (isinstance(t.value, ast.Name) and t.value.id in self.env):
                raise TranslationError("unsupported assignment target " + ast.dump(t)[:100])
            mask = self.b(t.slice)
            self.note_masked(t.value.id, mask)
            self.env[t.value.id] = "(xsel %s %s %s)" % (mask, rhs, self.env[t.value.id])

    def note_masked(self, name, mask):
        pass

    def augassign(self, st):
        t = st.target
        if isinstance(t, ast.Name) and t.id in self.env and isinstance(st.op, (ast.Sub, ast.Add)):
            op = "xsub" if isinstance(st.op, ast.Sub) else "xadd"
            self.note_unmasked(t.id)
            self.env[t.id] = "(%s %s %s)" % (op, self.env[t.id], self.x(st.value))
            return
        if isinstance(t, ast.Subscript) and isinstance(t.value, ast.Name) and t.value.id in self.benv \
                and _is_name(t.slice, t.value.id) and isinstance(st.op, ast.BitAnd):
            # mask[mask] &= c   (c is only evaluated where mask holds)
            self.benv[t.value.id] = "(%s && %s)" % (self.benv[t.value.id], self.b(st.value))
            return
        raise TranslationError("unsupported augmented assignment " + ast.dump(st)[:100])

    def note_unmasked(self, name):
        pass

    def branch(self, st):
        test = st.test
        # --- is_path_goal / not is_path_goal: element-wise both branches coincide
        t = test.operand if isinstance(test, ast.UnaryOp) and isinstance(test.op, ast.Not) else test
        if _is_name(t, "is_path_goal"):
            a, c = self.fork(), self.fork()
            a.block(st.body)
            c.block(st.orelse)
            if a.env != c.env or a.benv != c.benv:
                raise TranslationError("path-goal and point-goal branches differ element-wise")
            self.env, self.benv = a.env, a.benv
            return
        # --- if np.any(mask): the guard is void element-wise if every store in the body is masked by it
        if isinstance(test, ast.Call) and _is_np(test.func, "any") and len(test.args) == 1 \
                and isinstance(test.args[0], ast.Name) and test.args[0].id in self.benv:
            mask = self.benv[test.args[0].id]
            before = set(self.env)
            g = _Guarded(self.env, self.benv, mask, before)
            g.block(st.body)
            if st.orelse:
                raise TranslationError("else branch of an np.any guard")
            self.env, self.benv = g.env, g.benv
            return
        # --- if existing_constraint: constraint.update_bounds(existing_constraint, enforce=...)
        if _is_name(test, "existing_constraint"):
            if self.result is None or st.orelse or len(st.body) != 1:
                raise TranslationError("unexpected use of existing_constraint")
            self.merge = _parse_update_call(st.body[0], "constraint", "existing_constraint")
            return
        # --- a flag expression
        cond = self.b(test)
        a, c = self.fork(), self.fork()
        a.block(st.body)
        c.block(st.orelse)
        for env_name in ("env", "benv"):
            ea, ec, e0 = getattr(a, env_name), getattr(c, env_name), getattr(self, env_name)
            out = {}
            for k in set(ea) | set(ec):
                va, vc = ea.get(k), ec.get(k)
                if va is None or vc is None:
                    continue  # defined in one branch only: not available afterwards
                out[k] = va if va == vc else ("(if %s then %s else %s)" % (cond, va, vc)
                                              if OPAQUE not in (va, vc) else OPAQUE)
            setattr(self, env_name, out)
            del e0


class _Guarded(_HC):
    """body of `if np.any(mask):` -- stores to arrays that existed before must be masked by `mask`"""

    def __init__(self, env, benv, mask, before):
        super().__init__(env, benv)
        self.mask, self.before = mask, before

    def fork(self):
        g = _Guarded(self.env, self.benv, self.mask, self.before)
        return g

    def note_masked(self, name, mask):
        if name in self.before and mask != self.mask:
            raise TranslationError("store to %s inside an np.any guard with a different mask" % name)

    def note_unmasked(self, name):
        if name in self.before:
            raise TranslationError("unmasked update of %s inside an np.any guard" % name)

    def store(self, target, node):
        if isinstance(target, ast.Name) and target.id in self.before:
            raise TranslationError("unmasked store to %s inside an np.any guard" % target.id)
        return super().store(target, node)


def _enforce_default():
    fn = _find_method(ast.parse(open(os.path.join(REPO, BASE)).read()), "_GoalConstraint", "update_bounds")
    d = fn.args.defaults
    if not (d and isinstance(d[-1], ast.Constant) and d[-1].value in ("self", "other")):
        raise TranslationError("default of update_bounds(enforce=...) not understood")
    return d[-1].value


def _parse_update_call(st, receiver, arg):
    """`<receiver>.update_bounds(<arg>[, enforce="..."])` -> "self" | "other" """
    if not (isinstance(st, ast.Expr) and isinstance(st.value, ast.Call)):
        raise TranslationError("expected a call of update_bounds")
    call = st.value
    f = call.func
    if not (isinstance(f, ast.Attribute) and f.attr == "update_bounds" and len(call.args) == 1
            and _is_name(call.args[0], arg)):
        raise TranslationError("expected %s.update_bounds(%s)" % (receiver, arg))
    if isinstance(receiver, str):
        if not _is_name(f.value, receiver):
            raise TranslationError("update_bounds called on an unexpected object")
    elif not receiver(f.value):
        raise TranslationError("update_bounds called on an unexpected object")
    mode = _enforce_default()
    for kw in call.keywords:
        if kw.arg != "enforce" or not (isinstance(kw.value, ast.Constant) and kw.value.value in ("self", "other")):
            raise TranslationError("unsupported keyword of update_bounds")
        mode = kw.value.value
    return mode


def translate_hard_constraint(path, cls, name):
    fn = _find_method(ast.parse(open(os.path.join(REPO, path)).read()), cls, name)
    args = [a.arg for a in fn.args.args]
    if args != ["self", "goal", "epsilon", "existing_constraint", "ensemble_member", "options", "is_path_goal"]:
        raise TranslationError("unexpected signature %r" % args)
    hc = _HC({"epsilon": "(XVal.fin e)"})
    hc.block(fn.body)
    if not hc.returned or hc.result is None:
        raise TranslationError("no constraint returned")
    if hc.merge is None:
        raise TranslationError("merge with the existing constraint not found")
    return hc.result[0], hc.result[1], hc.merge


def translate_update_store():
    """`_gp_update_constraint_store`: update vs insert -> enforce mode of the update"""
    fn = _find_method(ast.parse(open(os.path.join(REPO, BASE)).read()), "_GoalProgrammingMixinBase",
                      "_gp_update_constraint_store")
    if [a.arg for a in fn.args.args] != ["self", "constraint_store", "constraints"]:
        raise TranslationError("unexpected signature of _gp_update_constraint_store")
    body = [s for s in fn.body if not (isinstance(s, ast.Expr) and isinstance(s.value, ast.Constant))]
    try:
        (outer,) = body
        (inner,) = outer.body
        stmts = inner.body
        assert isinstance(outer, ast.For) and isinstance(inner, ast.For) and _is_name(outer.target, "ensemble_member")
        assert _is_name(inner.target, "other")
        # for other in constraints[ensemble_member]
        it = inner.iter
        assert isinstance(it, ast.Subscript) and _is_name(it.value, "constraints") and _is_name(it.slice, "ensemble_member")
        fk_st, try_st = stmts
        assert isinstance(fk_st, ast.Assign) and _is_name(fk_st.targets[0], "fk")
        call = fk_st.value
        assert isinstance(call, ast.Call) and isinstance(call.func, ast.Attribute) and call.func.attr == "get_function_key"
        assert isinstance(call.func.value, ast.Attribute) and _is_name(call.func.value.value, "other") \
            and call.func.value.attr == "goal"
        assert isinstance(try_st, ast.Try) and len(try_st.body) == 1 and len(try_st.handlers) == 1 \
            and not try_st.orelse and not try_st.finalbody
        h = try_st.handlers[0]
        assert _is_name(h.type, "KeyError") and len(h.body) == 1
    except (AssertionError, ValueError):
        raise TranslationError("_gp_update_constraint_store: unexpected shape")

    def is_slot(node):
        return isinstance(node, ast.Subscript) and _is_name(node.slice, "fk") and isinstance(node.value, ast.Subscript) \
            and _is_name(node.value.value, "constraint_store") and _is_name(node.value.slice, "ensemble_member")

    mode = _parse_update_call(try_st.body[0], is_slot, "other")
    ins = h.body[0]
    if not (isinstance(ins, ast.Assign) and len(ins.targets) == 1 and is_slot(ins.targets[0]) and _is_name(ins.value, "other")):
        raise TranslationError("_gp_update_constraint_store: the KeyError branch does not insert `other`")
    return mode


GEN_HEADER = """import RtcVerif.Model.C04Elem
/-!
GENERATED on every run of the C02 / C04 checks by harness/translate_c04.py from /repo/src/rtctools/
optimization/goal_programming_mixin_base.py (`_gp_goal_hard_constraint`, `_gp_update_constraint_store`)
and goal_programming_mixin.py (`GoalProgrammingMixin.__goal_hard_constraint`).  Do not edit.
The `*Gen` definitions are the source read element-wise (table in harness/translate_c04.py); the
theorems tie them to the mask-level model `C04.hardElemX` / `C04.mergeNew` / `C04.mergeStored`, which
`Proofs/C04Elem.lean` ties to the models the property theorems of C02 / C04 are about.
-/
namespace RtcVerif.Gen
open RtcVerif RtcVerif.C04
"""

GEN_HARD = """
def %(name)s (e : Rat) (gm gM r0 r1 : XVal) (relax nom : Rat) (critical hasMin hasMax hasT : Bool)
    (thr cr : Rat) (vt : XVal) (fix : Bool) (v : Rat) : XVal × XVal :=
  (%(m)s,
   %(M)s)

theorem %(name)s_eq_model (e : Rat) (gm gM r0 r1 : XVal) (relax nom : Rat)
    (critical hasMin hasMax hasT : Bool) (thr cr : Rat) (vt : XVal) (fix : Bool) (v : Rat) :
    %(name)s e gm gM r0 r1 relax nom critical hasMin hasMax hasT thr cr vt fix v
      = C04.hardElemX e gm gM r0 r1 relax nom critical hasMin hasMax hasT thr cr vt fix v := by
  cases critical <;> cases hasMin <;> cases hasMax <;> cases hasT <;> cases fix <;> rfl

/-- the merge with the constraint already stored for the key, at the end of the method -/
def %(merge)s {α : Type} (mx mn : α → α → α) (new : C04.Ivl α) (existing : Option (C04.Ivl α)) : C04.Ivl α :=
  match existing with
  | none => new
  | some ex => C04.updateBoundsWith mx mn new ex %(flag)s

theorem %(merge)s_eq_model {α : Type} (mx mn : α → α → α) (new : C04.Ivl α) (existing : Option (C04.Ivl α)) :
    %(merge)s mx mn new existing = C04.mergeNew mx mn new existing := by
  cases existing <;> rfl
"""

GEN_STORE = """
/-- `_gp_update_constraint_store`: update the stored constraint of the key, or insert -/
def updateStoreGen {α : Type} (mx mn : α → α → α) (stored : Option (C04.Ivl α)) (other : C04.Ivl α) : C04.Ivl α :=
  match stored with
  | some s => C04.updateBoundsWith mx mn s other %(flag)s
  | none => other

theorem updateStoreGen_eq_model {α : Type} (mx mn : α → α → α) (stored : Option (C04.Ivl α)) (other : C04.Ivl α) :
    updateStoreGen mx mn stored other = C04.mergeStored mx mn stored other := by
  cases stored <;> rfl
"""


def generate_text():
    """the generated Lean source and the list of theorem names; raises TranslationError"""
    parts, thms = [GEN_HEADER], []
    for (label, path, cls, meth, name, merge) in (
            ("_gp_goal_hard_constraint", BASE, "_GoalProgrammingMixinBase", "_gp_goal_hard_constraint",
             "hardCriticalGen", "hardCriticalMergeGen"),
            ("__goal_hard_constraint", MIXIN, "GoalProgrammingMixin", "__goal_hard_constraint",
             "hardFromEpsGen", "hardMergeGen")):
        try:
            m, M, mode = translate_hard_constraint(path, cls, meth)
        except TranslationError as e:
            raise TranslationError("%s: %s" % (label, e))
        parts.append(GEN_HARD % dict(name=name, merge=merge, m=m, M=M, flag="true" if mode == "self" else "false"))
        thms += [name + "_eq_model", merge + "_eq_model"]
    mode = translate_update_store()
    parts.append(GEN_STORE % dict(flag="true" if mode == "self" else "false"))
    thms.append("updateStoreGen_eq_model")
    parts.append("\nend RtcVerif.Gen\n")
    return "".join(parts), thms


def gen_hard_constraint(c):
    """(re)generate lean/RtcVerif/Gen/HardConstraint.lean; returns the extra obligation spec for c.prove"""
    gdir = os.path.join(LEAN_DIR, "RtcVerif", "Gen")
    os.makedirs(gdir, exist_ok=True)
    path = os.path.join(gdir, "HardConstraint.lean")
    try:
        text, thms = generate_text()
    except TranslationError as e:
        c.broken.append(("translator: _gp_goal_hard_constraint", str(e)))
        return []
    old = open(path).read() if os.path.exists(path) else None
    if old != text:
        tmp = path + ".tmp%d" % os.getpid()
        with open(tmp, "w") as f:
            f.write(text)
        os.replace(tmp, path)
    return [("RtcVerif.Gen.HardConstraint", "RtcVerif.Gen", thms)]


# =================================================================================================
# goal validation, target broadcasting, soft-constraint construction (C04)  ->  Gen/GoalCode.lean
# (the translators and the closed table are in harness/c04_goalcode.py)

GOALCODE_HEADER = """import RtcVerif.Model.C04Code
import RtcVerif.Model.C04Inputs
import Mathlib.Algebra.Order.Field.Rat
import Mathlib.Tactic.Ring
/-!
GENERATED on every run of the C04 check by harness/translate_c04.py (`gen_goal_code`, translators in
harness/c04_goalcode.py) from /repo/src/rtctools/optimization/goal_programming_mixin_base.py
(`_gp_validate_goals`, `_gp_min_max_arrays`, the soft-constraint and critical-goal parts of `_gp_goal_constraints`,
the `Goal` properties) and the `bounds()` / `constant_inputs()` / `parameters()` methods of goal_programming_mixin.py /
single_pass_goal_programming_mixin.py.  Do not edit.
The `*Gen` definitions are the source read through the table in harness/c04_goalcode.py; the theorems tie
them to the code-level reference `Model/C04Code.lean`, which `Proofs/C04Code.lean` ties to the model the
property theorems of C04 are about (`validate`, `Target.at`, `softRows`, `epsBounds`).
-/
set_option linter.unusedVariables false
set_option linter.unreachableTactic false
set_option linter.unusedTactic false
namespace RtcVerif.Gen
open RtcVerif RtcVerif.C04
"""


def _bool_tactic(defs, atoms):
    """`rfl`, or: unfold, abstract every atomic condition to a Boolean and split on the Booleans one after
    the other (closing a branch by `rfl` as soon as both sides agree)"""
    lines = ["  first", "  | rfl", "  | (simp only [%s]; done)" % ", ".join(defs), "  | (simp only [%s]" % ", ".join(defs)]
    names = []
    for k, a in enumerate(atoms):
        lines.append("     try generalize %s = a%d" % (a, k))
        names.append("a%d" % k)
    tac = "rfl"
    for nm in reversed(names):
        tac = "first | rfl | (cases %s <;> (%s))" % (nm, tac)
    lines.append("     " + tac + ")")
    return "\n".join(lines)


def goal_code_text():
    """the generated Lean source and the list of theorem names; raises TranslationError"""
    from . import c04_goalcode as G

    parts, thms = [GOALCODE_HEADER], []
    # ---------------------------------------------------------------- (1) validation
    try:
        v = G.translate_validate()
    except TranslationError as e:
        raise TranslationError("_gp_validate_goals: %s" % e)
    parts.append("\n/-! ## `_gp_validate_goals` -/\n")
    for name, sig, args, key, ref in (
            ("valLoop1Gen", "(o : Opts) (isPath : Bool) (g : Goal)", "o isPath g", "loop1", "checkDefRef"),
            ("valMonoGen", "(nSteps : Nat) (g prev : Goal)", "nSteps g prev", "mono", "checkMonoRef"),
            ("valLoop3Gen", "(nSteps : Nat) (g : Goal)", "nSteps g", "loop3", "checkTargetsRef")):
        parts.append("\ndef %s %s : Option Err :=\n  %s\n" % (name, sig, v[key]))
        parts.append("\ntheorem %s_eq_ref %s : %s %s = C04.%s %s := by\n%s\n"
                     % (name, sig, name, args, ref, args, _bool_tactic([name, "C04." + ref], v[key + "_atoms"])))
        thms.append(name + "_eq_ref")
    entries = {"loop1": "firstOf (valLoop1Gen o isPath) gs",
               "mono": "(if o.checkMonotonicity then monoWalkWith (valMonoGen nSteps) [] gs else none)",
               "loop3": "firstOf (valLoop3Gen nSteps) gs"}
    parts.append("""
/-- the whole method: stable priority sort, then the checks in source order -/
def validateGen (o : Opts) (isPath : Bool) (nTimes : Nat) (goals : List Goal) : Option Err :=
  let gs := sortByPriority goals
  let nSteps := if isPath then nTimes else 1
  firstErr [%s]

theorem validateGen_eq_ref (o : Opts) (isPath : Bool) (nTimes : Nat) (goals : List Goal) :
    validateGen o isPath nTimes goals = C04.validateRef o isPath nTimes goals := by
  have h1 : valLoop1Gen = C04.checkDefRef := by funext o isPath g; exact valLoop1Gen_eq_ref o isPath g
  have h2 : valMonoGen = C04.checkMonoRef := by funext n g p; exact valMonoGen_eq_ref n g p
  have h3 : valLoop3Gen = C04.checkTargetsRef := by funext n g; exact valLoop3Gen_eq_ref n g
  simp only [validateGen, C04.validateRef, h1, h2, h3]
""" % ",\n    ".join(entries[k] for k in v["order"]))
    thms.append("validateGen_eq_ref")
    # ---------------------------------------------------------------- (2) target broadcasting
    try:
        table, fills, hyps = G.translate_min_max()
    except TranslationError as e:
        raise TranslationError("_gp_min_max_arrays: %s" % e)
    parts.append("\n/-! ## `_gp_min_max_arrays`  (`none` = the shape assertion of the method fails for this combination;\n"
                 "hypotheses on the goal recorded by the translator: %s) -/\n" % "; ".join(sorted(hyps)))
    for side, name, ref in (("tmin", "minArrGen", "minArrRef"), ("tmax", "maxArrGen", "maxArrRef")):
        other = "tmax" if side == "tmin" else "tmin"

        def sel(kind):
            def o(path, gt1, k_other=None):
                t = table[(side, kind, path, gt1)]
                if isinstance(t, dict):
                    t = t[k_other]
                return "none" if t is None else "some %s" % t

            def four(k_other=None):
                a, b, c_, d = o(True, True, k_other), o(True, False, k_other), o(False, True, k_other), o(False, False, k_other)
                return "if path then (if gt1 then %s else %s) else (if gt1 then %s else %s)" % (a, b, c_, d)
            if not any(isinstance(table[(side, kind, p_, g_)], dict) for p_ in (True, False) for g_ in (True, False)):
                return four()
            # the array of this side depends on the kind of the OTHER target: keep the full table
            return ("(match %s with | .scalar _ => %s | .vector _ => %s | .series [_] => %s | .series _ => %s)"
                    % (other, four("scalar"), four("vector"), four("series1"), four("series2")))
        parts.append("""
def %(name)s (path gt1 : Bool) (tmin tmax : Target) (c i : Nat) : Option XVal :=
  match %(side)s with
  | .scalar _ => %(s)s
  | .vector _ => %(v)s
  | .series [_] => %(s1)s
  | .series _ => %(s2)s

theorem %(name)s_eq_ref (path gt1 : Bool) (tmin tmax : Target) (c i : Nat) :
    %(name)s path gt1 tmin tmax c i = C04.%(ref)s path gt1 tmin tmax c i := by
  first
  | rfl
  | (unfold %(name)s C04.%(ref)s; cases path <;> cases gt1 <;> rfl)
  | (unfold %(name)s C04.%(ref)s; split <;> cases path <;> cases gt1 <;> rfl)
""" % dict(name=name, side=side, ref=ref, s=sel("scalar"), v=sel("vector"), s1=sel("series1"), s2=sel("series2")))
        thms.append(name + "_eq_ref")
        fl = fills.get(side)
        if not fl or len(fl) != 1:
            raise TranslationError("_gp_min_max_arrays: fill values of the %s interpolation not understood" % side)
        (fl,) = fl
        fname = "minFillGen" if side == "tmin" else "maxFillGen"
        parts.append("\n/-- left / right fill of the interpolation of a Timeseries target onto the grid -/\n"
                     "def %s : XVal × XVal := (%s, %s)\n\ntheorem %s_eq_ref : %s = C04.%s := by rfl\n"
                     % (fname, fl[0], fl[1], fname, fname, fname.replace("Gen", "Ref")))
        thms.append(fname + "_eq_ref")
    # ---------------------------------------------------------------- (3) soft constraints
    try:
        s = G.translate_soft()
        eb = [G.translate_eps_bounds(G.MIXIN, "GoalProgrammingMixin"),
              G.translate_eps_bounds(G.SPMIXIN, "SinglePassGoalProgrammingMixin")]
    except TranslationError as e:
        raise TranslationError("_gp_goal_constraints (soft constraints): %s" % e)
    parts.append("\n/-! ## soft constraints of `_gp_goal_constraints` -/\n")
    for side, cname, kname, cref, kref in (("tmin", "minConstGen", "keepMinGen", "minConstRef", "keepMinRef"),
                                           ("tmax", "maxConstGen", "keepMaxGen", "maxConstRef", "keepMaxRef")):
        r = s[side]
        parts.append("""
/-- the constant registered for the target (parameter / constant input) at (component, step) -/
def %(cname)s (g : Goal) (c i : Nat) : XVal :=
  match g.%(side)s with
  | .series _ => %(cs)s
  | .vector _ => %(cv)s
  | .scalar _ => %(cc)s

theorem %(cname)s_eq_ref (g : Goal) (c i : Nat) : %(cname)s g c i = C04.%(cref)s g c i := by
  first
  | rfl
  | (unfold %(cname)s C04.%(cref)s; split <;> rfl)

/-- slice indices: is component `c` kept in the soft constraint of this side? -/
def %(kname)s (g : Goal) (n c : Nat) : Bool :=
  match g.%(side)s with
  | .series _ => %(ks)s
  | .vector _ => %(kv)s
  | .scalar _ => %(kc)s

theorem %(kname)s_eq_ref (g : Goal) (n c : Nat) : %(kname)s g n c = C04.%(kref)s g n c := by
  first
  | rfl
  | (unfold %(kname)s C04.%(kref)s; split <;> rfl)
""" % dict(cname=cname, kname=kname, cref=cref, kref=kref, side=side,
           cs=r["series"][0], cv=r["vector"][0], cc=r["scalar"][0],
           ks=r["series"][1], kv=r["vector"][1], kc=r["scalar"][1]))
        thms += [cname + "_eq_ref", kname + "_eq_ref"]
    parts.append("""
/-- `_soft_constraint_func`: the expression of one component at one step -/
def softExprGen (target : XVal) (f eps bound nom : Rat) : Rat :=
  %s

theorem softExprGen_eq_ref (target : XVal) (f eps bound nom : Rat) :
    softExprGen target f eps bound nom = C04.softExprRef target f eps bound nom := by
  first
  | rfl
  | (unfold softExprGen C04.softExprRef ifAbsLt; split <;> (try split) <;> first | rfl | ring)
""" % s["softExpr"])
    thms.append("softExprGen_eq_ref")
    # the rows: one block per `if goal.has_target_X and np.any(inds): ... append`
    consts = {"min_variable": "minConstGen", "max_variable": "maxConstGen"}
    keeps = {"target_min_slice_inds": "keepMinGen", "target_max_slice_inds": "keepMaxGen"}
    flags = {"has_target_min": "g.hasMin", "has_target_max": "g.hasMax"}
    blocks = []
    for sd in s["sides"]:
        if sd["target"] not in consts or sd["inds"] not in keeps or sd["guard_inds"] not in keeps:
            raise TranslationError("soft rows: unknown target constant / slice indices")
        blocks.append(
            "(if %s && (List.range g.size).any (%s g n) then\n"
            "      ((List.range g.size).filter (%s g n)).flatMap fun c => (List.range n).map fun i =>\n"
            "        rowWith (g.%sAt c) (fun bound => softExprGen (%s g c i) (getF fs c i) (getF eps c i) bound (g.nomAt c)) %s %s\n"
            "    else [])"
            % (flags[sd["flag"]], keeps[sd["guard_inds"]], keeps[sd["inds"]], "lo" if sd["bound"] == 0 else "hi",
               consts[sd["target"]], sd["lb"], sd["ub"]))
    parts.append("""
/-- the soft-constraint rows of one non-critical target goal for one member, in source order -/
def softRowsGen (g : Goal) (n : Nat) (fs eps : List (List Rat)) : List Row :=
  %s

theorem softRowsGen_eq_ref (g : Goal) (n : Nat) (fs eps : List (List Rat)) :
    softRowsGen g n fs eps = C04.softRowsRef g n fs eps := by
  have h1 : minConstGen = C04.minConstRef := by funext g c i; exact minConstGen_eq_ref g c i
  have h2 : maxConstGen = C04.maxConstRef := by funext g c i; exact maxConstGen_eq_ref g c i
  have h3 : keepMinGen = C04.keepMinRef := by funext g n c; exact keepMinGen_eq_ref g n c
  have h4 : keepMaxGen = C04.keepMaxRef := by funext g n c; exact keepMaxGen_eq_ref g n c
  have h5 : softExprGen = C04.softExprRef := by funext t f e b m; exact softExprGen_eq_ref t f e b m
  simp only [softRowsGen, C04.softRowsRef, h1, h2, h3, h4, h5]
""" % " ++\n  ".join(blocks or ["[]"]))
    thms.append("softRowsGen_eq_ref")
    parts.append("""
/-- `n_active` of a target goal (divisor of its objective term), component `c` -/
def nActiveGen (g : Goal) (isPath scale : Bool) (n c : Nat) : Nat :=
  %s

theorem nActiveGen_eq_ref (g : Goal) (isPath scale : Bool) (n c : Nat) :
    nActiveGen g isPath scale n c = C04.nActiveRef g isPath scale n c := by
  first
  | rfl
  | (unfold nActiveGen C04.nActiveRef; cases isPath <;> cases scale <;> rfl)

/-- number of entries of the violation variable `ca.MX.sym(eps_..., goal.size)` -/
def epsSizeGen (g : Goal) : Nat := %s

theorem epsSizeGen_eq_ref (g : Goal) : epsSizeGen g = C04.epsSizeRef g := by rfl

/-- `bounds()` of GoalProgrammingMixin / SinglePassGoalProgrammingMixin: the entry written for every
    violation variable the class exposes through `extra_variables` / `path_variables` -/
def epsBoundsGen : Rat × Rat := %s
def epsBoundsSinglePassGen : Rat × Rat := %s

theorem epsBoundsGen_eq_model : epsBoundsGen = C04.epsBounds ∧ epsBoundsSinglePassGen = C04.epsBounds := by
  constructor <;> rfl
""" % (s["nActive"], s["epsSize"], eb[0], eb[1]))
    thms += ["nActiveGen_eq_ref", "epsSizeGen_eq_ref", "epsBoundsGen_eq_model"]
    # ---------------------------------------------------------------- critical goals; Goal properties
    try:
        cc = G.translate_crit_calls()
        gp = G.translate_goal_props()
    except TranslationError as e:
        raise TranslationError("critical-goal loop / Goal properties: %s" % e)
    parts.append("""
/-! ## critical goals in `_gp_goal_constraints`; the `Goal` properties the mixin branches on -/

/-- per member: (slot in `hard_constraints`, member handed to `_gp_goal_hard_constraint`, entry of `epsilon`,
    length of `epsilon`, the existing constraint handed over is `None`) -/
def critCallsGen (E : Nat) (isPath : Bool) (nTimes : Nat) : List (Nat × Nat × Rat × Nat × Bool) :=
  %s

theorem critCallsGen_eq_ref (E : Nat) (isPath : Bool) (nTimes : Nat) :
    critCallsGen E isPath nTimes = C04.critCallsRef E isPath nTimes := by
  first
  | rfl
  | (unfold critCallsGen C04.critCallsRef; cases isPath <;> rfl)
""" % cc)
    thms.append("critCallsGen_eq_ref")
    atoms = ["g.tmin.isSeries", "g.tmin.anyFinite", "g.tmax.isSeries", "g.tmax.anyFinite", "g.hasMin", "g.hasMax"]
    for key, name, ref in (("has_target_min", "hasMinGen", "hasMinRef"), ("has_target_max", "hasMaxGen", "hasMaxRef"),
                           ("has_target_bounds", "hasTargetBoundsGen", "hasTargetBoundsRef"), ("is_empty", "isEmptyGen", "isEmptyRef")):
        parts.append("\n/-- `Goal.%s` -/\ndef %s (g : Goal) : Bool :=\n  %s\n" % (key, name, gp[key]))
        parts.append("\ntheorem %s_eq_ref (g : Goal) : %s g = C04.%s g := by\n%s\n"
                     % (name, name, ref, _bool_tactic([name, "C04." + ref], atoms)))
        thms.append(name + "_eq_ref")
    # ---------------------------------------------------------------- constant_inputs() / parameters()
    parts.append("""
/-! ## `constant_inputs()` / `parameters()` of the goal-programming mixins: how the registered target constants
reach the problem (`d` = the dictionary `super()` returns, `origKeys` = this member's remembered keys) -/
""")
    for cls, path, pre in (("GoalProgrammingMixin", G.MIXIN, "gp"), ("SinglePassGoalProgrammingMixin", G.SPMIXIN, "sp")):
        for meth, mname in (("constant_inputs", "ConstInputs"), ("parameters", "Parameters")):
            try:
                term, remember, conv_text = G.translate_inputs_method(path, cls, meth)
            except TranslationError as e:
                raise TranslationError("%s.%s: %s" % (cls, meth, e))
            name = pre + mname + "Gen"
            hconv = ""
            if conv_text is not None:
                cname = pre + "ConstConvGen"
                parts.append("\ndef %s (n : Nat) (t : Target) : Target :=\n  %s\n\ntheorem %s_eq_ref (n : Nat) (t : Target) : "
                             "%s n t = C04.constConv n t := by\n  cases t <;> rfl\n" % (cname, conv_text, cname, cname))
                thms.append(cname + "_eq_ref")
                term = term.replace("CONV", cname)
                hconv = "  have h : %s n = C04.constConv n := funext (%s_eq_ref n)\n" % (cname, cname)
                refconv = "(C04.constConv n)"
            else:
                refconv = "id"
            if remember:
                sig = "(origKeys : Option (List String)) (d : Dict Target) (sub prob : List (String × Target)) (n : Nat)"
                ty = "List String × Dict Target"
                call = "%s origKeys d sub prob n" % name
                ref = "C04.inputsCallRef %s true origKeys d (sub ++ prob)" % refconv
            else:
                sig = "(d : Dict Target) (prob : List (String × Target)) (n : Nat)"
                ty = "Dict Target"
                call = "%s d prob n" % name
                ref = "(C04.inputsCallRef %s false none d prob).2" % refconv
            parts.append("\n/-- `%s.%s` -/\ndef %s %s : %s :=\n  %s\n" % (cls, meth, name, sig, ty, term))
            parts.append("\ntheorem %s_eq_ref %s :\n    %s = %s := by\n%s  first\n  | rfl\n  | (simp only [%s, C04.inputsCallRef%s]; done)\n"
                         "  | (simp only [%s, C04.inputsCallRef%s]; rfl)\n"
                         % (name, sig, call, ref, hconv, name, ", h" if hconv else "", name, ", h" if hconv else ""))
            thms.append(name + "_eq_ref")
    parts.append("\nend RtcVerif.Gen\n")
    return "".join(parts), thms


def gen_goal_code(c):
    """(re)generate lean/RtcVerif/Gen/GoalCode.lean; returns the extra obligation spec for c.prove"""
    gdir = os.path.join(LEAN_DIR, "RtcVerif", "Gen")
    os.makedirs(gdir, exist_ok=True)
    path = os.path.join(gdir, "GoalCode.lean")
    try:
        text, thms = goal_code_text()
    except TranslationError as e:
        c.broken.append(("translator: goal validation / soft constraints", str(e)))
        return []
    old = open(path).read() if os.path.exists(path) else None
    if old != text:
        tmp = path + ".tmp%d" % os.getpid()
        with open(tmp, "w") as f:
            f.write(text)
        os.replace(tmp, path)
    return [("RtcVerif.Gen.GoalCode", "RtcVerif.Gen", thms)]
