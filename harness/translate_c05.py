"""
Source-to-Lean translation of the per-variable kernels of `_collint_get_lbx_ubx` (bounds, C05) and
`_collint_get_x0` (seed scaling, C08) in collocated_integrated_optimization_problem.py — a second tie
besides the correspondence checks.  On every run the two methods are parsed from
`$RTC_REPO/src/...`, the body that handles one (member, variable) is executed PATH BY PATH (one run
per kind of bound side: None / scalar / ndarray / 1-D Timeseries / 2-D Timeseries, and per kind of
nominal: scalar / ndarray), and `lean/RtcVerif/Gen/BoundsKernel.lean` is (re)generated with

  nominalGen / seedNominalGen   the per-entry nominal array            = K.nominalK
  lowerGen / upperGen           what is written into lbx / ubx          = K.blockWriteK b b.lo -inf / b.hi +inf
  seedGen                       what is written into x0                 = K.seedWriteK
  initLowerGen / initUpperGen   the fill of `np.full(count, ∓np.inf)`   = C05.fillOf

`K.*` (lean/RtcVerif/Model/C05Kernel.lean) are the reference definitions in the shape of the source;
`Proofs/C05Kernel.lean` proves `K.blockWriteK = C05.blockWrite`, the function the C05 / C08 property
theorems are about.  A change of the source breaks a generated theorem or is rejected here; the
check then goes on to its failing-input search as usual.

CLOSED TABLE  Python construct  →  model term   (anything else is REJECTED).  `b : Blk` is the
variable, `s` the bound side / seed, `q` / `qs` a scalar / array nominal.  The mapping of the library
idioms is part of the trusted base.

  frame (checked, not translated)
    lbx = np.full(count, -np.inf, ...) / ubx = np.full(count, np.inf, ...)     initLowerGen / initUpperGen
    for ensemble_member ...: for variable, inds in indices[ensemble_member].items():   one Blk at a time
    if variable in scalar_variables_set: times = self.initial_time; n_times = 1
    else: times = self.times(variable); n_times = len(times)                   `times` = b.times (scalar query
                                                                                for scalarT), `n_times` = b.n
    variable_size = variable_sizes[variable]                                   b.size
    try: bound = bounds[variable] / seed_k = seed[variable]  except KeyError: pass    missing key = side None
    logger.*(...), `if np.any(np.isnan(...)): logger...`                       nothing
  values
    self.variable_nominal(variable)                  the nominal: `q` (scalar) or `qs` (ndarray)
    self.interpolation_method(variable)              b.mode (only as last argument of self.interpolate)
    bound[0] / bound[1] / seed_k                     the side b.lo / b.hi / s
    X is not None                                    side ≠ .none
    isinstance(X, Timeseries) / isinstance(X, np.ndarray)    case of the side (.ts1/.ts2 ; .vec) or of the
                                                     nominal (.vec); a flattened interpolation result is an ndarray
    self.interpolate(times, S.times, S.values, fl, fr, interpolation_method)   K.interpolate b S fl fr
         fills: -np.inf → -inf, np.inf / +np.inf → +inf, 0 / 0.0 → 0, np.nan → NaN
    np.asarray(V)                                    V
    np.broadcast_to(A, (n_times, variable_size))     K.broadcastNom b qs (A the nominal) / K.broadcastVec b xs (A a side)
    M.transpose().ravel()                            K.cm / Val.cm     (component-major)
    M.ravel()   (no transpose)                       K.tm b.n / Val.tm b.n   (time-major)
    np.tile(nominal, n_times)                        K.tileNom b qs
    a scalar side used as array operand              K.scalar x (one-element array: NumPy broadcasting)
    a scalar nominal used as divisor                 K.scalarNom b q (array with equal entries)
    an ndarray seed assigned as it is                xs.map XVal.e
  writes
    T[inds] = V / nominal                            K.bindAssign b V nominal          (T = lbx / ubx / x0)
    T[inds] = V ; T[inds] /= nominal                 the same
    if isinstance(inds, (int, np.integer)) and isinstance(X, np.ndarray): X = X.item()   nothing
                                                     (a one-element array is the scalar)

SECOND MODULE (C05 only): `gen_layout_pins(c)` further down regenerates `lean/RtcVerif/Gen/LayoutPins.lean` from
`discretize_states`, `discretize_control(s)`, the merge of the index tables, the history-pin / initial-derivative
loops and the initial-derivative nominals of `transcribe()`; its construct table precedes its code.
"""
import ast
import os

from .common import LEAN_DIR, REPO
from .translate import TranslationError, _find_method

SRC = os.path.join("src", "rtctools", "optimization", "collocated_integrated_optimization_problem.py")
CLS = "CollocatedIntegratedOptimizationProblem"
SIDE_CASES = ("none", "sc", "vec", "ts1", "ts2")
SIDE_PAT = {"none": ".none", "sc": ".sc x", "vec": ".vec xs", "ts1": ".ts1 t vals", "ts2": ".ts2 t rows"}
SIDE_TERM = {"ts1": "(.ts1 t vals)", "ts2": "(.ts2 t rows)"}
FILL = {"ninf": "XVal.ninf", "pinf": "XVal.pinf", "zero": "(XVal.fin 0)", "nan": "XVal.nan"}


def _u(node, n=90):
    try:
        return ast.unparse(node)[:n]
    except Exception:
        return ast.dump(node)[:n]


def _is_np(node, name):
    return isinstance(node, ast.Attribute) and isinstance(node.value, ast.Name) and node.value.id == "np" \
        and node.attr == name


def _is_self_call(node, name):
    return isinstance(node, ast.Call) and isinstance(node.func, ast.Attribute) \
        and isinstance(node.func.value, ast.Name) and node.func.value.id == "self" and node.func.attr == name


def _is_logging(st):
    if isinstance(st, ast.Expr) and isinstance(st.value, ast.Call) and isinstance(st.value.func, ast.Attribute) \
            and isinstance(st.value.func.value, ast.Name) and st.value.func.value.id == "logger":
        return True
    if isinstance(st, ast.If) and all(_is_logging(x) for x in st.body) and not st.orelse:
        return "isnan" in _u(st.test, 200)
    return False


class _Path:
    """one path through the per-variable body: the kind of every side and of the nominal is fixed"""

    def __init__(self, sides, nomcase, targets, seed_name=None):
        self.sides = sides            # {key: case}   key 0 / 1 / "seed"
        self.nomcase = nomcase        # "sc" | "vec"
        self.targets = targets        # names of the arrays written (lbx, ubx / x0)
        self.env = {"times": ("times",), "n_times": ("ntimes",), "variable_size": ("size",),
                    "variable": ("variable",), "inds": ("inds",)}
        self.writes = {}              # target -> dict(side=key, flat=term, nom=term | None)
        if seed_name:
            self.env[seed_name] = ("side", "seed")

    # -- values ------------------------------------------------------------------------------
    def nominal_list(self, v):
        if v[0] == "nomlist":
            return v[1]
        if v[0] == "nomraw":
            return "K.scalarNom b q" if self.nomcase == "sc" else "qs"
        raise TranslationError("divisor is not the nominal")

    def flat(self, v):
        """Lean term : Option (List XVal) for an array operand"""
        if v[0] == "flat":
            return v[1]
        if v[0] == "side":
            case = self.sides[v[1]]
            if case == "sc":
                return "some (K.scalar x)"
            if case == "vec":
                return "some (xs.map XVal.e)"
            raise TranslationError("a %s side used as an array" % case)
        if v[0] == "val":
            raise TranslationError("2-D value used without ravel()")
        raise TranslationError("unsupported array operand %r" % (v,))

    def fill(self, node):
        if isinstance(node, ast.UnaryOp) and isinstance(node.op, ast.USub) and _is_np(node.operand, "inf"):
            return "ninf"
        if isinstance(node, ast.UnaryOp) and isinstance(node.op, ast.UAdd) and _is_np(node.operand, "inf"):
            return "pinf"
        if _is_np(node, "inf"):
            return "pinf"
        if _is_np(node, "nan"):
            return "nan"
        if isinstance(node, ast.Constant) and node.value in (0, 0.0) and not isinstance(node.value, bool):
            return "zero"
        raise TranslationError("unsupported fill value `%s`" % _u(node))

    def expr(self, node):
        if isinstance(node, ast.Name):
            if node.id not in self.env:
                raise TranslationError("unknown name `%s`" % node.id)
            return self.env[node.id]
        if isinstance(node, ast.Subscript) and isinstance(node.value, ast.Name) \
                and self.env.get(node.value.id) == ("boundpair",) and isinstance(node.slice, ast.Constant) \
                and node.slice.value in (0, 1):
            return ("side", node.slice.value)
        if isinstance(node, ast.Attribute) and node.attr in ("times", "values"):
            v = self.expr(node.value)
            if v[0] == "side" and self.sides[v[1]] in ("ts1", "ts2"):
                return ("side" + node.attr, v[1])
            raise TranslationError("`.%s` of something that is not a Timeseries side" % node.attr)
        if _is_self_call(node, "variable_nominal") and len(node.args) == 1 and self.expr(node.args[0]) == ("variable",):
            return ("nomraw",)
        if _is_self_call(node, "interpolation_method") and len(node.args) == 1 \
                and self.expr(node.args[0]) == ("variable",):
            return ("method",)
        if _is_self_call(node, "interpolate"):
            if len(node.args) != 6 or node.keywords:
                raise TranslationError("self.interpolate: expected 6 positional arguments")
            a = [self.expr(x) if i not in (3, 4) else None for i, x in enumerate(node.args)]
            if a[0] != ("times",) or a[1][0] != "sidetimes" or a[2] != ("sidevalues", a[1][1]) or a[5] != ("method",):
                raise TranslationError("self.interpolate: arguments are not (times, S.times, S.values, fl, fr, method)")
            fl, frr = self.fill(node.args[3]), self.fill(node.args[4])
            return ("val", "K.interpolate b %s %s %s" % (SIDE_TERM[self.sides[a[1][1]]], FILL[fl], FILL[frr]))
        if isinstance(node, ast.Call) and _is_np(node.func, "asarray") and len(node.args) == 1 and not node.keywords:
            return self.expr(node.args[0])
        if isinstance(node, ast.Call) and _is_np(node.func, "broadcast_to") and len(node.args) == 2:
            shp = node.args[1]
            if not (isinstance(shp, ast.Tuple) and len(shp.elts) == 2 and self.expr(shp.elts[0]) == ("ntimes",)
                    and self.expr(shp.elts[1]) == ("size",)):
                raise TranslationError("np.broadcast_to: shape is not (n_times, variable_size)")
            v = self.expr(node.args[0])
            if v == ("nomraw",) and self.nomcase == "vec":
                return ("nommat", "K.broadcastNom b qs")
            if v[0] == "side" and self.sides[v[1]] == "vec":
                return ("val", "K.broadcastVec b xs")
            raise TranslationError("np.broadcast_to of `%s` on this path" % _u(node.args[0]))
        if isinstance(node, ast.Call) and _is_np(node.func, "tile") and len(node.args) == 2 \
                and self.expr(node.args[0]) == ("nomraw",) and self.expr(node.args[1]) == ("ntimes",) \
                and self.nomcase == "vec":
            return ("nomlist", "K.tileNom b qs")
        if isinstance(node, ast.Call) and isinstance(node.func, ast.Attribute) and not node.args and not node.keywords:
            if node.func.attr == "transpose":
                return ("T", self.expr(node.func.value))
            if node.func.attr == "ravel":
                v = self.expr(node.func.value)
                cm = v[0] == "T"
                if cm:
                    v = v[1]
                if v[0] == "nommat":
                    return ("nomlist", ("K.cm (%s)" if cm else "K.tm b.n (%s)") % v[1])
                if v[0] == "val":
                    return ("flat", ("(%s).map K.Val.cm" if cm else "(%s).map (K.Val.tm b.n)") % v[1])
                if v[0] == "flat" and not cm:
                    return v
                raise TranslationError("ravel() of `%s`" % _u(node.func.value))
        if isinstance(node, ast.BinOp) and isinstance(node.op, ast.Div):
            return ("quot", self.flat(self.expr(node.left)), self.nominal_list(self.expr(node.right)))
        raise TranslationError("unsupported expression `%s`" % _u(node))

    # -- conditions (decided on this path) ------------------------------------------------------
    def cond(self, node):
        if isinstance(node, ast.Compare) and len(node.ops) == 1 and isinstance(node.ops[0], ast.IsNot) \
                and isinstance(node.comparators[0], ast.Constant) and node.comparators[0].value is None:
            v = self.expr(node.left)
            if v[0] == "side":
                return self.sides[v[1]] != "none"
        if isinstance(node, ast.Call) and isinstance(node.func, ast.Name) and node.func.id == "isinstance" \
                and len(node.args) == 2:
            v = self.expr(node.args[0])
            cls = _u(node.args[1])
            if cls not in ("Timeseries", "np.ndarray"):
                raise TranslationError("isinstance against `%s`" % cls)
            if v[0] == "side":
                case = self.sides[v[1]]
                return case in ("ts1", "ts2") if cls == "Timeseries" else case == "vec"
            if v == ("nomraw",) and cls == "np.ndarray":
                return self.nomcase == "vec"
            if v[0] in ("flat",) and cls == "np.ndarray":
                return True
        raise TranslationError("unsupported condition `%s`" % _u(node))

    # -- statements -----------------------------------------------------------------------------
    def block(self, stmts):
        for st in stmts:
            self.stmt(st)

    def stmt(self, st):
        if isinstance(st, ast.Pass) or _is_logging(st):
            return
        if isinstance(st, ast.Expr) and isinstance(st.value, ast.Constant):
            return
        if isinstance(st, ast.If):
            t = st.test
            # `.item()` of a one-element array for single-entry variables: the scalar itself
            if isinstance(t, ast.BoolOp) and isinstance(t.op, ast.And) and len(t.values) == 2 \
                    and _u(t.values[0], 200).replace(" ", "") == "isinstance(inds,(int,np.integer))" \
                    and len(st.body) == 1 and not st.orelse and isinstance(st.body[0], ast.Assign) \
                    and _u(st.body[0].value) == _u(st.body[0].targets[0]) + ".item()":
                self.cond(t.values[1])
                return
            return self.block(st.body if self.cond(t) else st.orelse)
        if isinstance(st, ast.Assign) and len(st.targets) == 1:
            tg = st.targets[0]
            if isinstance(tg, ast.Name):
                if tg.id in self.targets or tg.id in ("times", "n_times", "variable_size", "variable", "inds"):
                    raise TranslationError("assignment to `%s`" % tg.id)
                self.env[tg.id] = self.expr(st.value)
                return
            if isinstance(tg, ast.Subscript) and isinstance(tg.value, ast.Name) and tg.value.id in self.targets \
                    and self.expr(tg.slice) == ("inds",):
                v = self.expr(st.value)
                if tg.value.id in self.writes:
                    raise TranslationError("`%s[inds]` written twice" % tg.value.id)
                if v[0] == "quot":
                    self.writes[tg.value.id] = dict(flat=v[1], nom=v[2])
                else:
                    self.writes[tg.value.id] = dict(flat=self.flat(v), nom=None)
                return
        if isinstance(st, ast.AugAssign) and isinstance(st.op, ast.Div) and isinstance(st.target, ast.Subscript) \
                and isinstance(st.target.value, ast.Name) and st.target.value.id in self.writes \
                and self.expr(st.target.slice) == ("inds",):
            w = self.writes[st.target.value.id]
            if w["nom"] is not None:
                raise TranslationError("`%s[inds]` divided twice" % st.target.value.id)
            w["nom"] = self.nominal_list(self.expr(st.value))
            return
        raise TranslationError("unsupported statement `%s`" % _u(st))


def _frame(fn, target_fills, key_name):
    """check the frame of the method and return (per-variable body, name bound to the dict entry)"""
    fills = {}
    loop = None
    for st in fn.body:
        if isinstance(st, ast.Assign) and len(st.targets) == 1 and isinstance(st.targets[0], ast.Name) \
                and st.targets[0].id in target_fills:
            v = st.value
            nm = st.targets[0].id
            if isinstance(v, ast.Call) and _is_np(v.func, "full") and len(v.args) >= 2:
                fills[nm] = _Path({}, "sc", ()).fill(v.args[1])
            elif isinstance(v, ast.Call) and _is_np(v.func, "zeros"):
                fills[nm] = "zero"
            else:
                raise TranslationError("initial value of `%s`: `%s`" % (nm, _u(v)))
        if isinstance(st, ast.For):
            loop = st
    for nm, want in target_fills.items():
        if fills.get(nm) != want:
            raise TranslationError("`%s` is not initialised with %s" % (nm, want))
    if loop is None or _u(loop.iter).replace(" ", "") != "range(self.ensemble_size)":
        raise TranslationError("outer loop over the ensemble members not found")
    inner = [s for s in loop.body if isinstance(s, ast.For)]
    if len(inner) != 1 or _u(inner[0].iter).replace(" ", "") != "indices[ensemble_member].items()" \
            or _u(inner[0].target).replace(" ", "") not in ("variable,inds", "(variable,inds)"):
        raise TranslationError("loop `for variable, inds in indices[ensemble_member].items()` not found")
    body = inner[0].body
    tr = None
    seen_times = False
    for st in body:
        txt = _u(st, 400).replace(" ", "").replace("\n", "")
        if isinstance(st, ast.If) and txt.startswith("ifvariableinscalar_variables_set:"):
            want = "ifvariableinscalar_variables_set:times=self.initial_timen_times=1else:times=self.times(variable)" \
                   "n_times=len(times)"
            if txt != want:
                raise TranslationError("the definition of `times` / `n_times` changed")
            seen_times = True
        elif isinstance(st, ast.Assign) and txt == "variable_size=variable_sizes[variable]":
            pass
        elif isinstance(st, ast.Try):
            tr = st
        elif _is_logging(st):
            pass
        else:
            raise TranslationError("unexpected statement in the per-variable loop: `%s`" % _u(st))
    if not seen_times or tr is None:
        raise TranslationError("per-variable frame (times / try) not found")
    if len(tr.handlers) != 1 or _u(tr.handlers[0].type) != "KeyError" \
            or not all(isinstance(x, ast.Pass) for x in tr.handlers[0].body) or tr.finalbody:
        raise TranslationError("`except KeyError: pass` expected")
    stmts = list(tr.body) + list(tr.orelse)
    first = stmts[0]
    if not (isinstance(first, ast.Assign) and isinstance(first.targets[0], ast.Name)
            and _u(first.value).replace(" ", "") == key_name + "[variable]"):
        raise TranslationError("`<x> = %s[variable]` expected at the start of the try block" % key_name)
    return stmts[1:], first.targets[0].id


def _run_paths(stmts, entry_name, kind, targets):
    """all paths; returns {nomcase: {(sidekey, case): writes}}"""
    out = {}
    keys = (0, 1) if kind == "bounds" else ("seed",)
    for nomcase in ("sc", "vec"):
        out[nomcase] = {}
        for key in keys:
            for case in SIDE_CASES:
                sides = {k: "none" for k in keys}
                sides[key] = case
                p = _Path(sides, nomcase, targets, seed_name=(entry_name if kind == "seed" else None))
                if kind == "bounds":
                    p.env[entry_name] = ("boundpair",)
                if not (kind == "seed" and case == "none"):  # no seed: KeyError, nothing is executed
                    p.block(stmts)
                for w in p.writes.values():
                    if w["nom"] is None:
                        raise TranslationError("a write is not divided by the nominal")
                out[nomcase][(key, case)] = p.writes
    return out


def _assemble(paths, target, keys):
    """Lean match arms for one target array + the nominal terms used"""
    writer = None
    for key in keys:
        if any(target in paths["sc"][(key, c)] for c in SIDE_CASES):
            if writer is not None:
                raise TranslationError("`%s` is written from two different sides" % target)
            writer = key
    if writer is None:
        raise TranslationError("`%s` is never written" % target)
    noms = {}
    arms = []
    for case in SIDE_CASES:
        flat = None
        for nomcase in ("sc", "vec"):
            w = paths[nomcase][(writer, case)].get(target)
            f = None if w is None else w["flat"]
            if nomcase == "sc":
                flat = f
            elif f != flat:
                raise TranslationError("the value written depends on the kind of the nominal")
            if w is not None:
                if noms.setdefault(nomcase, w["nom"]) != w["nom"]:
                    raise TranslationError("the nominal array depends on the kind of the bound")
        arms.append("  | %s => %s" % (SIDE_PAT[case], "some none" if flat is None
                                      else "K.bindAssign b (%s) (%%s b)" % flat))
    if set(noms) != {"sc", "vec"}:
        raise TranslationError("nominal not used on every path")
    return writer, arms, noms


GEN = """import RtcVerif.Model.C05Kernel
import RtcVerif.Proofs.C05Kernel
/-!
GENERATED on every run of the C05 / C08 checks by harness/translate_c05.py from
`_collint_get_lbx_ubx` and `_collint_get_x0` in
/repo/src/rtctools/optimization/collocated_integrated_optimization_problem.py (path-by-path execution
of the per-variable body; the construct table is in the header of the translator).  Do not edit.
The theorems tie the source, read this way, to the reference kernel `RtcVerif.C05.K`, which
`Proofs/C05Kernel.lean` proves equal to the model function `C05.blockWrite` of the C05 / C08 theorems.
-/
namespace RtcVerif.Gen
open RtcVerif RtcVerif.C05

/-- fill of `lbx` / `ubx` before any bound is written -/
def initLowerGen : XVal := %(init_lo)s
def initUpperGen : XVal := %(init_hi)s

/-- per-entry nominal array in `_collint_get_lbx_ubx` -/
def nominalGen (b : Blk) : List Rat :=
  match b.nom with
  | .sc q => %(nom_sc)s
  | .vec qs => %(nom_vec)s

/-- per-entry nominal array in `_collint_get_x0` -/
def seedNominalGen (b : Blk) : List Rat :=
  match b.nom with
  | .sc q => %(snom_sc)s
  | .vec qs => %(snom_vec)s

/-- what is written into `lbx[inds]` for one (member, variable) -/
def lowerGenS (b : Blk) (s : Side) : Option (Option (List XVal)) :=
  match s with
%(lower_arms)s
def lowerGen (b : Blk) : Option (Option (List XVal)) := lowerGenS b %(lower_side)s

/-- what is written into `ubx[inds]` -/
def upperGenS (b : Blk) (s : Side) : Option (Option (List XVal)) :=
  match s with
%(upper_arms)s
def upperGen (b : Blk) : Option (Option (List XVal)) := upperGenS b %(upper_side)s

/-- what is written into `x0[inds]` for the seed `s` of one (member, variable) -/
def seedGen (b : Blk) (s : Side) : Option (Option (List XVal)) :=
  match s with
%(seed_arms)s

theorem initFillGen_eq_model : initLowerGen = C05.fillOf true ∧ initUpperGen = C05.fillOf false := ⟨rfl, rfl⟩

theorem nominalGen_eq_model (b : Blk) : nominalGen b = K.nominalK b := rfl

theorem seedNominalGen_eq_model (b : Blk) : seedNominalGen b = K.nominalK b := rfl

theorem lowerGen_eq_model (b : Blk) : lowerGen b = K.blockWriteK b b.lo XVal.ninf := by
  show lowerGenS b b.lo = _
  generalize b.lo = s
  cases s <;> rfl

theorem upperGen_eq_model (b : Blk) : upperGen b = K.blockWriteK b b.hi XVal.pinf := by
  show upperGenS b b.hi = _
  generalize b.hi = s
  cases s <;> rfl

theorem seedGen_eq_model (b : Blk) (s : Side) : seedGen b s = K.seedWriteK b s := by
  cases s <;> rfl

/-- ... and hence the model function of the C05 / C08 property theorems -/
theorem boundsGen_eq_blockWrite (b : Blk) :
    lowerGen b = C05.blockWrite b b.lo (C05.fillOf true) ∧ upperGen b = C05.blockWrite b b.hi (C05.fillOf false) :=
  ⟨by rw [lowerGen_eq_model, K.blockWriteK_eq]; rfl, by rw [upperGen_eq_model, K.blockWriteK_eq]; rfl⟩

theorem seedGen_eq_blockWrite (b : Blk) (s : Side) (h : ∀ xs, s = .vec xs → b.n = 1 ∧ xs.length = b.size) :
    seedGen b s = C05.blockWrite b s (XVal.fin 0) := by
  rw [seedGen_eq_model, K.seedWriteK_eq b s h]

end RtcVerif.Gen
"""

THEOREMS = ["initFillGen_eq_model", "nominalGen_eq_model", "seedNominalGen_eq_model", "lowerGen_eq_model",
            "upperGen_eq_model", "seedGen_eq_model", "boundsGen_eq_blockWrite", "seedGen_eq_blockWrite"]


def translate():
    path = os.path.join(REPO, SRC)
    tree = ast.parse(open(path).read())
    fb = _find_method(tree, CLS, "_collint_get_lbx_ubx")
    stmts, entry = _frame(fb, {"lbx": "ninf", "ubx": "pinf"}, "bounds")
    paths = _run_paths(stmts, entry, "bounds", ("lbx", "ubx"))
    wl, lower_arms, nl = _assemble(paths, "lbx", (0, 1))
    wu, upper_arms, nu = _assemble(paths, "ubx", (0, 1))
    if nl != nu:
        raise TranslationError("lbx and ubx are divided by different nominal arrays")
    fx = _find_method(tree, CLS, "_collint_get_x0")
    sstmts, sentry = _frame(fx, {"x0": "zero"}, "seed")
    spaths = _run_paths(sstmts, sentry, "seed", ("x0",))
    _, seed_arms, ns = _assemble(spaths, "x0", ("seed",))
    side = {0: "b.lo", 1: "b.hi"}
    return dict(init_lo=FILL["ninf"], init_hi=FILL["pinf"], nom_sc=nl["sc"], nom_vec=nl["vec"],
                snom_sc=ns["sc"], snom_vec=ns["vec"],
                lower_arms="\n".join(a % "nominalGen" if "%s" in a else a for a in lower_arms),
                upper_arms="\n".join(a % "nominalGen" if "%s" in a else a for a in upper_arms),
                seed_arms="\n".join(a % "seedNominalGen" if "%s" in a else a for a in seed_arms),
                lower_side=side[wl], upper_side=side[wu])


def gen_bounds_kernel(c):
    """(re)generate lean/RtcVerif/Gen/BoundsKernel.lean; returns the extra obligation spec for c.prove"""
    gdir = os.path.join(LEAN_DIR, "RtcVerif", "Gen")
    os.makedirs(gdir, exist_ok=True)
    path = os.path.join(gdir, "BoundsKernel.lean")
    try:
        parts = translate()
    except TranslationError as e:
        c.broken.append(("translator: _collint_get_lbx_ubx / _collint_get_x0", str(e)))
        return []
    except (OSError, SyntaxError) as e:
        c.broken.append(("translator: _collint_get_lbx_ubx / _collint_get_x0", "cannot read/parse the source: %s" % e))
        return []
    text = GEN % parts
    old = open(path).read() if os.path.exists(path) else None
    if old != text:
        tmp = path + ".tmp%d" % os.getpid()
        with open(tmp, "w") as f:
            f.write(text)
        os.replace(tmp, path)
    return [("RtcVerif.Gen.BoundsKernel", "RtcVerif.Gen", THEOREMS)]


# =====================================================================================================
# Second generated module: Gen/LayoutPins.lean — index allocation and history pins
# =====================================================================================================
"""
Translated on every run (C05 only) into `lean/RtcVerif/Gen/LayoutPins.lean`:

  discretize_states      the size count (`memberSizeGen`, `stateCountGen`) and the per-member allocation loops
                         (`stateSlotsGen`)                                          = L.memberSizeK / L.stateSlotsK
  discretize_control     cache lookup / new slice (`discretizeControlGen`)          = L.discretizeControlK
  discretize_controls    body of the member loop (`ctrlStepGen`), loop nest (`ctrlSlotsGen`) = L.ctrlSlotsK
  transcribe()           merge of the two index tables (`shiftGen`)                 = L.shiftK
                         history-pin loop body (`pinStepGen`), iteration order (`pinVarsGen`)
                                                                                    = C05.applyPins (one step) / C05.pinVars
                         initial-derivative loop body (`derStepGen`)                = C05.derPin
                         loop body filling self.__initial_derivative_nominals (`derNominalGen`) = C05.derNominal
`L.*` (lean/RtcVerif/Model/C05Layout.lean) are reference definitions in the shape of the source;
`Proofs/C05Layout.lean` proves them equal to the model of the property theorems (`memberSize`, `ctrlSize`,
`stateIndex`, `ctrlIndex`, `pinIndex`, `derIndex`, `applyPins`, `derPin`); the generated module states both.

CLOSED TABLE (second module)  Python construct  →  model term   (anything else is REJECTED)

  lists of variables (loop iterables; names are keys, a variable is its `Blk`, a control's key its position)
    self.differentiated_states / self.__differentiated_states      I.states
    self.algebraic_states                                           I.algs
    self.controls                                                   I.controls
    self.__path_variable_names                                      I.paths
    self.__extra_variable_names                                     I.extras
    self.__initial_derivative_names                                 L.derBlocks I   (one single-entry slot per state)
    itertools.chain(A, B, ...)                                      A ++ B ++ ...
    len(self.dae_variables["derivatives"])                          I.states.length
    range(self.ensemble_size) / self.ensemble_size                  members 0 … I.E-1 / I.E ; loop variable = m
  numbers (natural-number polynomials, emitted in a canonical order: commuted sums / products are the same text)
    variable_sizes[v] (alias of self.__variable_sizes)              b.size
    len(self.times(v)) / times = self.times(v); len(times)          b.n
    integer literals, +, *, +=                                      themselves
    self.integrate_states                                           False (the model covers collocated states only;
                                                                    the integrated branch is skipped, `assert`s in it too)
  index values
    slice(a, b)                                                     L.Slot.slice a b
    a plain integer offset                                          L.Slot.int a
    X.start / X.stop / isinstance(X, slice)                         fields / case of the slot
    control_indices.stop if isinstance(control_indices, slice) else …   .stop (the default discretize_control returns slices)
    max(a, b)                                                       max a b  (arguments in canonical order)
    indices[ensemble_member][v] = S                                 the slot of (m, v), in insertion order
    try: return cache[variable] except KeyError: …; cache[variable] = S    List.lookup / cons on the cache
    self.__indices_as_lists[ensemble_member][variable][0]           first entry of self.__indices[m][variable]: parameter `idx`
                                                                    of pinStepGen, = (pinSlotGen I m k).first = pinIndex I m k
    self.__indices[ensemble_member][initial_der_name]               the int slot of the derivative (derSlotGen, = derIndex I m i)
  history block (floats are XVal; a history value `none` = NaN)
    history[variable] inside try / except KeyError: pass / else:    h : Option Hist, `none` = no entry
    self.interpolate(t0, H.times, H.values, np.nan, np.nan, self.interpolation_method(variable))
                                                                    L.interpolate b h NaN NaN t0  (Option: `none` = raises)
    val /= self.variable_nominal(variable)                          xdivPos val (L.nominal b)
    val /= self.variable_nominal(initial_der_name)                  L.divNom val nomDer
    np.isnan(x) / not c / c1 or c2 / a == b / a <= b                L.isnan x = true / ¬ c / c1 ∨ c2 / a = b / a ≤ b
    len(H.times)                                                    h.times.length
    H.values[-1] / H.values[-2] / H.times[-1] / H.times[-2]         L.valAt1 h / L.valAt2 h / L.timeAt1 h / L.timeAt2 h
    (a - H.values[-2]) / (t0 - H.times[-2])                         L.backDiff a (L.valAt2 h) (L.timeAt2 h) t0
    lbx[idx] = ubx[idx] = val   (history pin)                       (lbx.set idx val, ubx.set idx val)
    lbx[idx] = ubx[idx] = val   (initial derivative)                L.pinOf val
    continue / assert c                                             DerPin.free / `if ¬ c then DerPin.raise`
    the branch that appends ONE row to initial_derivative_constraints and writes no bound    DerPin.symbolic
                                                                    (the row expression itself is not translated)
    logger.*(...), `if …: logger.warning(...)`                      nothing
  nominals of the initial derivatives (every path through the loop body is written out; names are substituted)
    for variable, initial_der_name in zip(self.__differentiated_states, self.__initial_derivative_names)   one state `b`
    history_0 = self.history(0); try: h = history_0[variable] … except KeyError: …    h0 : Option Hist, `none` = handler
    times = self.times(variable); times[k] / h.times[k] (k = 0, 1)  b.times[k]? / h.times[k]?   (`.getD 0` inside arithmetic)
    h.times[-1] / h.times[-2]                                       L.last1 h.times / L.last2 h.times
    len(times) > k / len(h.values) == k / a == b / c1 or c2 / x > 0 the same comparisons (indices compared as Options)
    a - b / self.variable_nominal(variable) / dt                    rational arithmetic, L.nominal b
    assert c                                                        `if ¬ c then none`
    self.__initial_derivative_nominals[initial_der_name] = e        some e  (must be the last statement of its path)
"""

_VARS = ("offset", "s", "e", "i", "st.count")


class _Poly(dict):
    """natural-number polynomial: {sorted tuple of atoms: coefficient}"""

    @staticmethod
    def const(k):
        p = _Poly()
        if k:
            p[()] = k
        return p

    @staticmethod
    def atom(a):
        p = _Poly()
        p[(a,)] = 1
        return p

    def add(self, o):
        r = _Poly(self)
        for k, v in o.items():
            r[k] = r.get(k, 0) + v
        return r

    def mul(self, o):
        r = _Poly()
        for k1, v1 in self.items():
            for k2, v2 in o.items():
                k = tuple(sorted(k1 + k2))
                r[k] = r.get(k, 0) + v1 * v2
        return r

    def atoms(self):
        return {a for k in self for a in k}

    def without(self, atom):
        """(p - atom) if p = atom + rest with rest free of atom, else None"""
        if self.get((atom,), 0) != 1:
            return None
        r = _Poly({k: v for k, v in self.items() if k != (atom,)})
        return None if atom in r.atoms() else r

    def lean(self):
        def key(k):
            return (len(k), tuple((a not in _VARS, a) for a in k))
        out = []
        for k in sorted(self, key=key):
            c = self[k]
            if not k:
                out.append(str(c))
            else:
                out.append(((str(c) + " * ") if c != 1 else "") + " * ".join(k))
        return " + ".join(out) if out else "0"


def _attr_self(node, names):
    return isinstance(node, ast.Attribute) and isinstance(node.value, ast.Name) and node.value.id == "self" \
        and node.attr in names


_LISTS = {"differentiated_states": "I.states", "__differentiated_states": "I.states", "algebraic_states": "I.algs",
          "controls": "I.controls", "__path_variable_names": "I.paths", "__extra_variable_names": "I.extras",
          "__initial_derivative_names": "(L.derBlocks I)"}


def _var_list(node):
    """Lean term of a loop iterable over variables"""
    if isinstance(node, ast.Attribute) and _attr_self(node, _LISTS):
        return _LISTS[node.attr]
    if isinstance(node, ast.Call) and _u(node.func) == "itertools.chain" and node.args and not node.keywords:
        parts = [_var_list(a) for a in node.args]
        return parts[0] if len(parts) == 1 else "(" + " ++ ".join(parts) + ")"
    raise TranslationError("unsupported list of variables `%s`" % _u(node))


def _is_member_range(node):
    return _u(node).replace(" ", "") == "range(self.ensemble_size)"


class _Nat:
    """natural-number expressions of the allocation code"""

    def __init__(self, env):
        self.env = env      # python name -> ("poly", _Poly) | ("var", listterm) | ("times", var) | ("sizes",) | ("slot", term)

    def poly(self, node):
        v = self.val(node)
        if v[0] != "poly":
            raise TranslationError("`%s` is not a number" % _u(node))
        return v[1]

    def val(self, node):
        if isinstance(node, ast.Constant) and isinstance(node.value, int) and not isinstance(node.value, bool) \
                and node.value >= 0:
            return ("poly", _Poly.const(node.value))
        if isinstance(node, ast.Name):
            if node.id not in self.env:
                raise TranslationError("unknown name `%s`" % node.id)
            return self.env[node.id]
        if _attr_self(node, ("ensemble_size",)):
            return ("poly", _Poly.atom("I.E"))
        if _attr_self(node, ("__variable_sizes",)):
            return ("sizes",)
        if isinstance(node, ast.BinOp) and isinstance(node.op, (ast.Add, ast.Mult)):
            a, b = self.poly(node.left), self.poly(node.right)
            return ("poly", a.add(b) if isinstance(node.op, ast.Add) else a.mul(b))
        if isinstance(node, ast.Subscript) and self.val(node.value) == ("sizes",):
            v = self.val(node.slice)
            if v[0] == "var":
                return ("poly", _Poly.atom("b.size"))
            raise TranslationError("size of something that is not the loop variable: `%s`" % _u(node))
        if _is_self_call(node, "times") and len(node.args) == 1 and not node.keywords:
            v = self.val(node.args[0])
            if v[0] == "var":
                return ("times", v[1])
            raise TranslationError("times of something that is not the loop variable: `%s`" % _u(node))
        if isinstance(node, ast.Call) and isinstance(node.func, ast.Name) and node.func.id == "len" and len(node.args) == 1:
            a = node.args[0]
            if _u(a).replace('"', "'").replace(" ", "") == "self.dae_variables['derivatives']":
                return ("poly", _Poly.atom("I.states.length"))
            v = self.val(a)
            if v[0] == "times":
                return ("poly", _Poly.atom("b.n"))
            if v == ("ntimes_arg",):
                return ("poly", _Poly.atom("ntimes"))
            raise TranslationError("len of `%s`" % _u(a))
        if isinstance(node, ast.Call) and isinstance(node.func, ast.Name) and node.func.id == "slice" \
                and len(node.args) == 2 and not node.keywords:
            return ("slot", "L.Slot.slice (%s) (%s)" % (self.poly(node.args[0]).lean(), self.poly(node.args[1]).lean()))
        raise TranslationError("unsupported expression `%s`" % _u(node))

    def slot(self, node):
        v = self.val(node)
        if v[0] == "slot":
            return v[1]
        if v[0] == "poly":
            return "L.Slot.int (%s)" % v[1].lean()
        raise TranslationError("`%s` is not an index value" % _u(node))


def _is_integrate_states(node):
    return _attr_self(node, ("integrate_states",))


def _tr_discretize_states(fn):
    env = {}
    ev = _Nat(env)
    size_lines = []
    acc = None
    body = list(fn.body)
    k = 0

    def acc_assign(name, p):
        nonlocal acc
        if acc is None:
            acc = name
        if name != acc:
            raise TranslationError("a second size accumulator `%s`" % name)
        size_lines.append("  let s := %s" % p.lean())
        env[name] = ("poly", _Poly.atom("s"))

    def size_stmt(st, loopvar=None, terms=None):
        """statements of the size count; inside a loop `terms` collects the added term"""
        if isinstance(st, ast.Expr) and isinstance(st.value, ast.Constant):
            return
        if isinstance(st, ast.If) and _is_integrate_states(st.test):
            for x in st.orelse:
                size_stmt(x, loopvar, terms)
            return
        if isinstance(st, ast.Assign) and len(st.targets) == 1 and isinstance(st.targets[0], ast.Name):
            nm = st.targets[0].id
            v = ev.val(st.value)
            if v[0] == "poly" and loopvar is None:
                return acc_assign(nm, v[1])
            if v[0] in ("sizes", "times"):
                env[nm] = v
                return
            if v[0] == "poly":
                env[nm] = v
                return
        if isinstance(st, ast.AugAssign) and isinstance(st.op, ast.Add) and isinstance(st.target, ast.Name):
            nm = st.target.id
            if nm not in env or env[nm][0] != "poly":
                raise TranslationError("`%s +=` before an assignment" % nm)
            if loopvar is None:
                return acc_assign(nm, env[nm][1].add(ev.poly(st.value)))
            if acc is not None and nm != acc:
                raise TranslationError("a second size accumulator `%s`" % nm)
            terms.append((nm, ev.poly(st.value)))
            return
        if isinstance(st, ast.For) and loopvar is None and isinstance(st.target, ast.Name) and not st.orelse:
            lst = _var_list(st.iter)
            env[st.target.id] = ("var", lst)
            tt = []
            for x in st.body:
                size_stmt(x, st.target.id, tt)
            del env[st.target.id]
            if len(tt) != 1:
                raise TranslationError("size loop over %s: exactly one `+=` expected" % lst)
            nm, term = tt[0]
            if not term.atoms() <= {"b.n", "b.size"}:
                raise TranslationError("size term of %s depends on `%s`" % (lst, sorted(term.atoms())))
            nonlocal_acc(nm)
            size_lines.append("  let s := L.accum %s (fun b => %s) s" % (lst, term.lean()))
            return
        raise TranslationError("unsupported statement in the size count: `%s`" % _u(st))

    def nonlocal_acc(nm):
        nonlocal acc
        if acc is None or nm != acc:
            raise TranslationError("size loop adds to `%s`, which is not the size accumulator" % nm)

    # phase 1: up to `count = self.ensemble_size * ensemble_member_size`
    count_name = None
    while k < len(body):
        st = body[k]
        k += 1
        if isinstance(st, ast.Assign) and len(st.targets) == 1 and isinstance(st.targets[0], ast.Name) and acc is not None:
            try:
                p = ev.poly(st.value)
            except TranslationError:
                p = None
            if p is not None and "I.E" in p.atoms():
                if p != _Poly.atom("I.E").mul(_Poly.atom("s")):
                    raise TranslationError("`%s` is not ensemble_size * ensemble_member_size" % _u(st))
                count_name = st.targets[0].id
                break
        size_stmt(st)
    if count_name is None:
        raise TranslationError("`count = self.ensemble_size * ensemble_member_size` not found")
    env[acc] = ("poly", _Poly.atom("memberSizeGen I"))
    env[count_name] = ("poly", _Poly.atom("stateCountGen I"))
    # phase 2: indices = [{} ...]; member loop
    idx_name = None
    member_loop = None
    rest = []
    for st in body[k:]:
        if isinstance(st, ast.Expr) and isinstance(st.value, ast.Constant):
            continue
        if member_loop is None and isinstance(st, ast.Assign) and isinstance(st.targets[0], ast.Name) \
                and isinstance(st.value, ast.ListComp):
            if not (_u(st.value.elt) == "{}" and len(st.value.generators) == 1
                    and _is_member_range(st.value.generators[0].iter)):
                raise TranslationError("`indices = [{} for … in range(self.ensemble_size)]` expected")
            idx_name = st.targets[0].id
        elif member_loop is None and isinstance(st, ast.For) and _is_member_range(st.iter):
            member_loop = st
        elif member_loop is not None:
            rest.append(st)
        else:
            raise TranslationError("unexpected statement before the member loop: `%s`" % _u(st))
    if idx_name is None or member_loop is None or not isinstance(member_loop.target, ast.Name):
        raise TranslationError("index table / member loop of discretize_states not found")
    mname = member_loop.target.id
    env[mname] = ("poly", _Poly.atom("m"))
    lines = []
    off_name = None
    nloops = 0
    for st in member_loop.body:
        if isinstance(st, ast.Expr) and isinstance(st.value, ast.Constant):
            continue
        if isinstance(st, ast.Assign) and len(st.targets) == 1 and isinstance(st.targets[0], ast.Name) and off_name is None:
            off_name = st.targets[0].id
            lines.append("  let offset := %s" % ev.poly(st.value).lean())
            env[off_name] = ("poly", _Poly.atom("offset"))
            continue
        if isinstance(st, ast.For) and isinstance(st.target, ast.Name) and off_name is not None and not st.orelse:
            lst = _var_list(st.iter)
            lv = st.target.id
            benv = dict(env)
            benv[lv] = ("var", lst)
            benv[off_name] = ("poly", _Poly.atom("offset"))
            slot = _alloc_body(st.body, benv, idx_name, mname, lv)
            new = benv[off_name][1].without("offset")
            if new is None or not new.atoms() <= {"b.n", "b.size"}:
                raise TranslationError("allocation loop over %s: the offset is not advanced by a width of the variable" % lst)
            nloops += 1
            start = "offset" if nloops == 1 else "r%d.2" % (nloops - 1)
            lines.append("  let r%d := L.alloc (fun b offset => %s) (fun b => %s) %s %s"
                         % (nloops, slot, new.lean(), lst, start))
            continue
        raise TranslationError("unsupported statement in the member loop of discretize_states: `%s`" % _u(st))
    if nloops == 0:
        raise TranslationError("no allocation loop found")
    lines.append("  " + " ++ ".join("r%d.1" % (j + 1) for j in range(nloops)))
    _check_tail(rest, count_name, idx_name)
    return "\n".join(size_lines + ["  s"]), "\n".join(lines)


def _alloc_body(stmts, env, idx_name, mname, lv):
    """body of one allocation loop; returns the slot term, leaves the new offset in env"""
    ev = _Nat(env)
    slot = None
    for st in stmts:
        if isinstance(st, ast.Expr) and isinstance(st.value, ast.Constant):
            continue
        if isinstance(st, ast.Assert):
            continue
        if isinstance(st, ast.If) and _is_integrate_states(st.test):
            s2 = _alloc_body(st.orelse, env, idx_name, mname, lv)
            if s2 is not None:
                if slot is not None:
                    raise TranslationError("the variable's index is assigned twice")
                slot = s2
            continue
        if isinstance(st, ast.Assign) and len(st.targets) == 1:
            tg = st.targets[0]
            if isinstance(tg, ast.Name):
                env[tg.id] = ev.val(st.value)
                continue
            if _u(tg).replace(" ", "") == "%s[%s][%s]" % (idx_name, mname, lv):
                if slot is not None:
                    raise TranslationError("the variable's index is assigned twice")
                slot = ev.slot(st.value)
                continue
        if isinstance(st, ast.AugAssign) and isinstance(st.op, ast.Add) and isinstance(st.target, ast.Name) \
                and env.get(st.target.id, ("",))[0] == "poly":
            env[st.target.id] = ("poly", env[st.target.id][1].add(ev.poly(st.value)))
            continue
        raise TranslationError("unsupported statement in an allocation loop: `%s`" % _u(st))
    return slot


def _check_tail(rest, count_name, idx_name):
    """`lbx, ubx = self._collint_get_lbx_ubx(count, indices)` … `return count, …, indices`"""
    seen = False
    for st in rest:
        if isinstance(st, ast.Assign) and _is_self_call(st.value, "_collint_get_lbx_ubx"):
            if [_u(a) for a in st.value.args] != [count_name, idx_name]:
                raise TranslationError("_collint_get_lbx_ubx is not called with (count, indices)")
            seen = True
        elif isinstance(st, ast.Return):
            elts = st.value.elts if isinstance(st.value, ast.Tuple) else []
            if len(elts) != 6 or _u(elts[0]) != count_name or _u(elts[5]) != idx_name:
                raise TranslationError("`return count, discrete, lbx, ubx, x0, indices` expected")
        elif isinstance(st, ast.Assign) and (_is_self_call(st.value, "_collint_get_discrete")
                                             or _is_self_call(st.value, "_collint_get_x0")):
            pass
        elif isinstance(st, ast.Expr) and isinstance(st.value, ast.Constant):
            pass
        else:
            raise TranslationError("unexpected statement after the allocation: `%s`" % _u(st))
    if not seen:
        raise TranslationError("call of _collint_get_lbx_ubx not found")


def _tr_discretize_control(fn):
    a = [x.arg for x in fn.args.args]
    if len(a) != 5:
        raise TranslationError("discretize_control: five parameters expected")
    _, pvar, _pm, ptimes, poff = a
    body = [s for s in fn.body if not (isinstance(s, ast.Expr) and isinstance(s.value, ast.Constant))]
    if len(body) != 1 or not isinstance(body[0], ast.Try):
        raise TranslationError("discretize_control: `try: return cache[variable] except KeyError:` expected")
    tr = body[0]
    if len(tr.body) != 1 or not isinstance(tr.body[0], ast.Return) or tr.orelse or tr.finalbody \
            or len(tr.handlers) != 1 or _u(tr.handlers[0].type) != "KeyError":
        raise TranslationError("discretize_control: `try: return cache[variable] except KeyError:` expected")
    r = tr.body[0].value
    if not (isinstance(r, ast.Subscript) and _attr_self(r.value, ("__discretize_control_cache",)) and _u(r.slice) == pvar):
        raise TranslationError("discretize_control: the cached entry of `variable` is not what is returned")
    env = {poff: ("poly", _Poly.atom("offset")), ptimes: ("ntimes_arg",)}
    ev = _Nat(env)
    stored = ret = None
    for st in tr.handlers[0].body:
        if isinstance(st, ast.Assign) and len(st.targets) == 1 and isinstance(st.targets[0], ast.Name):
            env[st.targets[0].id] = ("slot", ev.slot(st.value))
        elif isinstance(st, ast.Assign) and len(st.targets) == 1 and isinstance(st.targets[0], ast.Subscript) \
                and _attr_self(st.targets[0].value, ("__discretize_control_cache",)) and _u(st.targets[0].slice) == pvar \
                and stored is None:
            stored = ev.slot(st.value)
        elif isinstance(st, ast.Return) and ret is None:
            ret = ev.slot(st.value)
        else:
            raise TranslationError("discretize_control: unsupported statement `%s`" % _u(st))
    if stored is None or ret is None:
        raise TranslationError("discretize_control: the new slice is not cached / not returned")
    return ("  match cache.lookup var with\n  | some s => (s, cache)\n  | none => (%s, (var, %s) :: cache)" % (ret, stored))


def _tr_discretize_controls(fn):
    body = [s for s in fn.body if not (isinstance(s, ast.Expr) and isinstance(s.value, ast.Constant))]
    idx_name = count_name = None
    loop = None
    rest = []
    cache_init = False
    for st in body:
        if loop is not None:
            rest.append(st)
        elif isinstance(st, ast.Assign) and _attr_self(st.targets[0], ("__discretize_control_cache",)) and _u(st.value) == "{}":
            cache_init = True
        elif isinstance(st, ast.Assign) and isinstance(st.targets[0], ast.Name) and isinstance(st.value, ast.ListComp):
            if not (_u(st.value.elt) == "{}" and len(st.value.generators) == 1
                    and _is_member_range(st.value.generators[0].iter)):
                raise TranslationError("`indices = [{} for … in range(self.ensemble_size)]` expected")
            idx_name = st.targets[0].id
        elif isinstance(st, ast.Assign) and isinstance(st.targets[0], ast.Name) and _u(st.value) == "0":
            count_name = st.targets[0].id
        elif isinstance(st, ast.For):
            loop = st
        else:
            raise TranslationError("discretize_controls: unexpected statement `%s`" % _u(st))
    if not cache_init or idx_name is None or count_name is None or loop is None:
        raise TranslationError("discretize_controls: cache reset / index table / `count = 0` / loop not found")
    if _var_list(loop.iter) != "I.controls" or not isinstance(loop.target, ast.Name):
        raise TranslationError("discretize_controls: the outer loop is not over self.controls")
    lv = loop.target.id
    env = {lv: ("var", "I.controls"), count_name: ("count",)}
    ev = _Nat(env)
    inner = None
    for st in loop.body:
        if isinstance(st, ast.Assign) and len(st.targets) == 1 and isinstance(st.targets[0], ast.Name) and inner is None:
            env[st.targets[0].id] = ev.val(st.value)
        elif isinstance(st, ast.For) and inner is None and _is_member_range(st.iter) and isinstance(st.target, ast.Name):
            inner = st
        else:
            raise TranslationError("discretize_controls: unexpected statement in the loop over controls `%s`" % _u(st))
    if inner is None:
        raise TranslationError("discretize_controls: loop over the ensemble members not found")
    mname = inner.target.id
    out = None
    new_count = None
    for st in inner.body:
        if isinstance(st, ast.Expr) and isinstance(st.value, ast.Constant):
            continue
        if isinstance(st, ast.Assign) and len(st.targets) == 1:
            tg, v = st.targets[0], st.value
            if isinstance(tg, ast.Name) and _is_self_call(v, "discretize_control"):
                if len(v.args) != 4 or v.keywords or _u(v.args[0]) != lv or _u(v.args[1]) != mname \
                        or env.get(_u(v.args[2])) != ("times", "I.controls") or _u(v.args[3]) != count_name:
                    raise TranslationError("discretize_control is not called with (variable, ensemble_member, times, count)")
                if any(x == ("slot", "r.1") for x in env.values()):
                    raise TranslationError("discretize_control is called twice")
                env[tg.id] = ("slot", "r.1")
                continue
            if _u(tg).replace(" ", "") == "%s[%s][%s]" % (idx_name, mname, lv):
                if out is not None or ev.val(v) != ("slot", "r.1"):
                    raise TranslationError("indices[ensemble_member][variable] is not the value of discretize_control")
                out = "r.1"
                continue
            if isinstance(tg, ast.Name) and tg.id == count_name:
                if not (isinstance(v, ast.Call) and _u(v.func) == "max" and len(v.args) == 2):
                    raise TranslationError("`count = max(count, stop)` expected")
                args = sorted(_count_term(ev, x) for x in v.args)
                if new_count is not None:
                    raise TranslationError("count is assigned twice")
                new_count = "max %s %s" % (args[1], args[0]) if args[0].startswith("r.1") else "max %s %s" % tuple(args)
                continue
            if isinstance(tg, ast.Name):
                env[tg.id] = ("stop", _count_term(ev, v))
                continue
        raise TranslationError("discretize_controls: unsupported statement in the member loop `%s`" % _u(st))
    if out is None or new_count is None:
        raise TranslationError("discretize_controls: index assignment / count update not found")
    _check_tail(rest, count_name, idx_name)
    return ("  let r := discretizeControlGen st.cache var b.n st.count\n  (%s, { cache := r.2, count := %s })" % (out, new_count))


def _count_term(ev, node):
    """`count`, `X.stop`, `X.stop if isinstance(X, slice) else …` as a Lean Nat term"""
    if isinstance(node, ast.Name):
        v = ev.env.get(node.id)
        if v == ("count",):
            return "st.count"
        if v is not None and v[0] == "stop":
            return v[1]
    if isinstance(node, ast.Attribute) and node.attr == "stop" and ev.val(node.value) == ("slot", "r.1"):
        return "r.1.stop"
    if isinstance(node, ast.IfExp):
        t = node.test
        if isinstance(t, ast.Call) and _u(t.func) == "isinstance" and len(t.args) == 2 and _u(t.args[1]) == "slice" \
                and ev.val(t.args[0]) == ("slot", "r.1"):
            return _count_term(ev, node.body)
    raise TranslationError("unsupported count expression `%s`" % _u(node))


def _tr_merge(tr):
    """the merge of the index tables in transcribe(): (Lean arms of shiftGen)"""
    names = {}
    for st in tr.body:
        if isinstance(st, ast.Assign) and isinstance(st.targets[0], ast.Tuple) and len(st.targets[0].elts) == 6:
            for meth in ("discretize_controls", "discretize_states"):
                if _is_self_call(st.value, meth):
                    names[meth] = [_u(e) for e in st.targets[0].elts]
    if set(names) != {"discretize_controls", "discretize_states"}:
        raise TranslationError("calls of discretize_controls / discretize_states not found in transcribe()")
    csize, cind = names["discretize_controls"][0], names["discretize_controls"][5]
    sind = names["discretize_states"][5]
    loop = None
    for k, st in enumerate(tr.body):
        if isinstance(st, ast.Assign) and _attr_self(st.targets[0], ("__indices",)):
            if _u(st.value) != cind:
                raise TranslationError("self.__indices is not initialised with the control indices")
            loop = tr.body[k + 1]
            break
    if loop is None or not (isinstance(loop, ast.For) and _is_member_range(loop.iter) and len(loop.body) == 1
                            and isinstance(loop.body[0], ast.For)):
        raise TranslationError("merge loop of the index tables not found")
    mname = _u(loop.target)
    inner = loop.body[0]
    if _u(inner.iter).replace(" ", "") != "%s[%s].items()" % (sind, mname) or not isinstance(inner.target, ast.Tuple) \
            or len(inner.target.elts) != 2:
        raise TranslationError("merge loop: `for key, value in indices_state[ensemble_member].items()` expected")
    kname, vname = _u(inner.target.elts[0]), _u(inner.target.elts[1])
    arms = {}
    for case in ("slice", "int"):
        env = {csize: ("poly", _Poly.atom("controlSize"))}
        ev = _Nat(env)
        cur = {"v": ("slotval", case)}

        def val(node):
            if isinstance(node, ast.Attribute) and isinstance(node.value, ast.Name) and node.value.id == vname \
                    and cur["v"] == ("slotval", "slice") and node.attr in ("start", "stop"):
                return _Poly.atom("s" if node.attr == "start" else "e")
            if isinstance(node, ast.Name) and node.id == vname and cur["v"] == ("slotval", "int"):
                return _Poly.atom("i")
            if isinstance(node, ast.BinOp) and isinstance(node.op, ast.Add):
                return val(node.left).add(val(node.right))
            return ev.poly(node)

        def run(stmts):
            for st in stmts:
                if isinstance(st, ast.If) and _u(st.test).replace(" ", "") == "isinstance(%s,slice)" % vname:
                    if cur["v"][0] != "slotval":
                        raise TranslationError("merge loop: isinstance test after the value was rebuilt")
                    run(st.body if case == "slice" else st.orelse)
                elif isinstance(st, ast.Assign) and _u(st.targets[0]) == vname:
                    v = st.value
                    if isinstance(v, ast.Call) and _u(v.func) == "slice" and len(v.args) == 2:
                        cur["v"] = ("done", ".slice (%s) (%s)" % (val(v.args[0]).lean(), val(v.args[1]).lean()))
                    else:
                        raise TranslationError("merge loop: unsupported value `%s`" % _u(v))
                elif isinstance(st, ast.AugAssign) and isinstance(st.op, ast.Add) and _u(st.target) == vname \
                        and cur["v"] == ("slotval", "int"):
                    cur["v"] = ("done", ".int (%s)" % _Poly.atom("i").add(val(st.value)).lean())
                elif isinstance(st, ast.Assign) and _u(st.targets[0]).replace(" ", "") == "self.__indices[%s][%s]" % (mname, kname):
                    if _u(st.value) != vname or "w" in cur:
                        raise TranslationError("merge loop: self.__indices[m][key] is not assigned the shifted value")
                    cur["w"] = cur["v"]
                else:
                    raise TranslationError("merge loop: unsupported statement `%s`" % _u(st))

        run(inner.body)
        if "w" not in cur:
            raise TranslationError("merge loop: self.__indices[m][key] is never assigned")
        if cur["w"][0] != "done":
            cur["w"] = ("done", ".slice (s) (e)" if case == "slice" else ".int (i)")
        arms[case] = cur["w"][1]
    return "  | .slice s e => %s\n  | .int i => %s" % (arms["slice"], arms["int"])


# -- history block ---------------------------------------------------------------------------------------

def _v(name):
    return "v_" + name


class _Hist:
    """symbolic execution of one iteration of the history-pin loop / the initial-derivative loop"""

    def __init__(self, kind, lv, iv, hist_name, mname):
        self.kind = kind            # "pin" | "der"
        self.lv, self.iv, self.hist_name, self.mname = lv, iv, hist_name, mname
        self.env = {}               # python name -> tagged value
        self.H = None               # python name bound to history[variable]

    # values: ("x", leanterm) float ; ("method",) ; ("idx",) ; ("deridx",) ; ("dername",) ; ("nomvar",) ; ("nomder",)
    def is_H_attr(self, node, attr):
        return isinstance(node, ast.Attribute) and node.attr == attr and isinstance(node.value, ast.Name) \
            and node.value.id == self.H

    def neg_index(self, node, attr):
        """H.attr[-k] -> k"""
        if isinstance(node, ast.Subscript) and self.is_H_attr(node.value, attr):
            s = node.slice
            if isinstance(s, ast.UnaryOp) and isinstance(s.op, ast.USub) and isinstance(s.operand, ast.Constant) \
                    and s.operand.value in (1, 2):
                return s.operand.value
        return None

    def nan(self, node):
        if not _is_np(node, "nan"):
            raise TranslationError("fill value `%s` is not np.nan" % _u(node))
        return "XVal.nan"

    def expr(self, node):
        if isinstance(node, ast.Name):
            if node.id == "t0":
                return ("t0",)
            if node.id not in self.env:
                raise TranslationError("unknown name `%s`" % node.id)
            return self.env[node.id]
        if _is_self_call(node, "interpolation_method") and len(node.args) == 1 and _u(node.args[0]) == self.lv:
            return ("method",)
        if _is_self_call(node, "variable_nominal") and len(node.args) == 1:
            a = node.args[0]
            if _u(a) == self.lv:
                return ("nomvar",)
            if isinstance(a, ast.Name) and self.env.get(a.id) == ("dername",):
                return ("nomder",)
            raise TranslationError("nominal of `%s`" % _u(a))
        if _is_self_call(node, "interpolate"):
            if len(node.args) != 6 or node.keywords:
                raise TranslationError("self.interpolate: expected 6 positional arguments")
            a = node.args
            if not (_u(a[0]) == "t0" and self.is_H_attr(a[1], "times") and self.is_H_attr(a[2], "values")
                    and self.expr(a[5]) == ("method",)):
                raise TranslationError("self.interpolate: arguments are not (t0, H.times, H.values, fl, fr, method)")
            return ("interp", "L.interpolate b h %s %s t0" % (self.nan(a[3]), self.nan(a[4])))
        k = self.neg_index(node, "values")
        if k:
            return ("x", "(L.valAt%d h)" % k)
        k = self.neg_index(node, "times")
        if k:
            return ("time", k)
        if isinstance(node, ast.Subscript) and _attr_self(node.value, ("__initial_derivative_names",)) \
                and self.iv is not None and _u(node.slice) == self.iv:
            return ("dername",)
        if isinstance(node, ast.Subscript) and _u(node).replace(" ", "") == \
                "self.__indices_as_lists[%s][%s][0]" % (self.mname, self.lv):
            return ("idx",)
        if isinstance(node, ast.Subscript) and isinstance(node.value, ast.Subscript) \
                and _attr_self(node.value.value, ("__indices",)) and _u(node.value.slice) == self.mname \
                and isinstance(node.slice, ast.Name) and self.env.get(node.slice.id) == ("dername",):
            return ("deridx",)
        if isinstance(node, ast.BinOp) and isinstance(node.op, ast.Div):
            lft, rgt = node.left, node.right
            if isinstance(lft, ast.BinOp) and isinstance(lft.op, ast.Sub) and isinstance(rgt, ast.BinOp) \
                    and isinstance(rgt.op, ast.Sub):
                a = self.expr(lft.left)
                if a[0] == "x" and self.neg_index(lft.right, "values") == 2 and _u(rgt.left) == "t0" \
                        and self.neg_index(rgt.right, "times") == 2:
                    return ("x", "(L.backDiff %s (L.valAt2 h) (L.timeAt2 h) t0)" % a[1])
            raise TranslationError("unsupported quotient `%s`" % _u(node))
        raise TranslationError("unsupported expression `%s`" % _u(node))

    def cond(self, node):
        if isinstance(node, ast.UnaryOp) and isinstance(node.op, ast.Not):
            return "¬ (%s)" % self.cond(node.operand)
        if isinstance(node, ast.BoolOp) and isinstance(node.op, ast.Or):
            return " ∨ ".join(self.cond(x) for x in node.values)
        if isinstance(node, ast.Call) and _is_np(node.func, "isnan") and len(node.args) == 1:
            v = self.expr(node.args[0])
            if v[0] != "x":
                raise TranslationError("np.isnan of `%s`" % _u(node.args[0]))
            return "L.isnan %s = true" % v[1]
        if isinstance(node, ast.Compare) and len(node.ops) == 1:
            lft, rgt = node.left, node.comparators[0]
            if isinstance(node.ops[0], ast.LtE) and isinstance(lft, ast.Call) and _u(lft.func) == "len" \
                    and len(lft.args) == 1 and self.is_H_attr(lft.args[0], "times") and isinstance(rgt, ast.Constant) \
                    and isinstance(rgt.value, int):
                return "h.times.length ≤ %d" % rgt.value
            if isinstance(node.ops[0], ast.Eq):
                for x, y in ((lft, rgt), (rgt, lft)):
                    if self.neg_index(x, "times") == 1 and _u(y) == "t0":
                        return "L.timeAt1 h = some t0"
        raise TranslationError("unsupported condition `%s`" % _u(node))

    def is_bound_write(self, st):
        return isinstance(st, ast.Assign) and any(
            isinstance(t, ast.Subscript) and isinstance(t.value, ast.Name) and t.value.id in ("lbx", "ubx")
            for t in st.targets)

    def write(self, st):
        """`lbx[idx] = ubx[idx] = val` -> ({array: index tag}, value term)"""
        tg = {}
        for t in st.targets:
            if not (isinstance(t, ast.Subscript) and isinstance(t.value, ast.Name) and t.value.id in ("lbx", "ubx")):
                raise TranslationError("unsupported write `%s`" % _u(st))
            tg[t.value.id] = self.expr(t.slice)
        v = self.expr(st.value)
        if v[0] != "x":
            raise TranslationError("the value written is not a number: `%s`" % _u(st.value))
        return tg, v[1]

    def block(self, stmts, ind):
        """returns Lean text (lines) for the statements; the result of the block is the last line"""
        pad = "  " * ind
        if not stmts:
            return [pad + self.done()]
        st, rest = stmts[0], stmts[1:]
        if isinstance(st, ast.Pass) or _is_logging(st) or (isinstance(st, ast.Expr) and isinstance(st.value, ast.Constant)):
            return self.block(rest, ind)
        if isinstance(st, ast.If) and not st.orelse and all(_is_logging(x) for x in st.body):
            return self.block(rest, ind)          # `if …: logger.warning(...)`
        if isinstance(st, ast.Assign) and len(st.targets) == 1 and isinstance(st.targets[0], ast.Name):
            nm = st.targets[0].id
            v = self.expr(st.value)
            if v[0] == "interp":
                fail = "none" if self.kind == "pin" else "DerPin.raise"
                self.env[nm] = ("x", _v(nm))
                return [pad + "match %s with" % v[1], pad + "| none => %s" % fail, pad + "| some %s =>" % _v(nm)] \
                    + self.block(rest, ind + 1)
            if v[0] == "x":
                self.env[nm] = ("x", _v(nm))
                return [pad + "let %s := %s" % (_v(nm), v[1].strip("()") if v[1].startswith("(L.") else v[1])] \
                    + self.block(rest, ind)
            self.env[nm] = v
            return self.block(rest, ind)
        if isinstance(st, ast.AugAssign) and isinstance(st.op, ast.Div) and isinstance(st.target, ast.Name):
            nm = st.target.id
            cur = self.env.get(nm)
            d = self.expr(st.value)
            if cur is None or cur[0] != "x":
                raise TranslationError("`%s /=` of something that is not a number" % nm)
            if d == ("nomvar",) and self.kind == "pin":
                line = "let %s := xdivPos %s (L.nominal b)" % (_v(nm), cur[1])
            elif d == ("nomder",) and self.kind == "der":
                line = "let %s := L.divNom %s nomDer" % (_v(nm), cur[1])
            else:
                raise TranslationError("division by `%s`" % _u(st.value))
            self.env[nm] = ("x", _v(nm))
            return [pad + line] + self.block(rest, ind)
        if self.is_bound_write(st):
            if rest:
                raise TranslationError("statements after the pin write: `%s`" % _u(rest[0]))
            tg, val = self.write(st)
            if self.kind == "pin":
                if any(v != ("idx",) for v in tg.values()):
                    raise TranslationError("the history pin is not written at the variable's first entry")
                return [pad + "some (%s, %s)" % ("lbx.set idx %s" % val if "lbx" in tg else "lbx",
                                                 "ubx.set idx %s" % val if "ubx" in tg else "ubx")]
            if set(tg) != {"lbx", "ubx"} or any(v != ("deridx",) for v in tg.values()):
                raise TranslationError("the initial-derivative pin does not write lbx and ubx at the derivative's entry")
            return [pad + "L.pinOf %s" % val]
        if isinstance(st, ast.If):
            if self.kind == "pin":
                if st.orelse or rest:
                    raise TranslationError("history pin: only a final `if` without else is supported")
                return [pad + "if %s then" % self.cond(st.test)] + self.block(st.body, ind + 1) \
                    + [pad + "else " + self.done()]
            # der: `if c: continue`, `if c: A else: B`
            if len(st.body) == 1 and isinstance(st.body[0], ast.Continue) and not st.orelse:
                return [pad + "if %s then DerPin.free" % self.cond(st.test), pad + "else"] + self.block(rest, ind + 1)
            if st.orelse and not rest:
                c = self.cond(st.test)
                return [pad + "if %s then" % c] + self.branch(st.body, ind + 1) + [pad + "else"] \
                    + self.branch(st.orelse, ind + 1)
        if isinstance(st, ast.Assert) and self.kind == "der":
            return [pad + "if ¬ (%s) then DerPin.raise" % self.cond(st.test), pad + "else"] + self.block(rest, ind + 1)
        raise TranslationError("unsupported statement in the history block: `%s`" % _u(st))

    def branch(self, stmts, ind):
        """a branch of the der loop: the symbolic-row branch is recognised by its single append"""
        appends = [s for s in stmts if isinstance(s, ast.Expr) and isinstance(s.value, ast.Call)
                   and isinstance(s.value.func, ast.Attribute) and s.value.func.attr == "append"]
        if appends:
            if len(appends) != 1 or any(self.is_bound_write(s) for s in stmts) \
                    or _u(appends[0].value.func.value) != "initial_derivative_constraints":
                raise TranslationError("symbolic initial-derivative branch: one appended row and no bound write expected")
            return ["  " * ind + "DerPin.symbolic"]
        return self.block(stmts, ind)

    def done(self):
        return "some (lbx, ubx)" if self.kind == "pin" else "DerPin.free"

    def run(self, loop):
        body = [s for s in loop.body if not (isinstance(s, ast.Expr) and isinstance(s.value, ast.Constant))]
        if len(body) != 1 or not isinstance(body[0], ast.Try):
            raise TranslationError("history loop: `try: H = history[variable] except KeyError: pass else:` expected")
        tr = body[0]
        if len(tr.body) != 1 or len(tr.handlers) != 1 or _u(tr.handlers[0].type) != "KeyError" or tr.finalbody \
                or not all(isinstance(x, ast.Pass) for x in tr.handlers[0].body):
            raise TranslationError("history loop: `try: H = history[variable] except KeyError: pass else:` expected")
        first = tr.body[0]
        if not (isinstance(first, ast.Assign) and isinstance(first.targets[0], ast.Name)
                and _u(first.value).replace(" ", "") == "%s[%s]" % (self.hist_name, self.lv)):
            raise TranslationError("history loop: `H = history[variable]` expected")
        self.H = first.targets[0].id
        lines = self.block(list(tr.orelse), 2)
        return "\n".join(["  match h with", "  | none => " + self.done(), "  | some h =>"] + lines)


def _tr_history(tr):
    """locate the history block of transcribe(): (pinVars term, pin body, der body)"""
    found = []
    for node in ast.walk(tr):
        stmts = getattr(node, "body", None)
        if not isinstance(stmts, list):
            continue
        for k, st in enumerate(stmts):
            if isinstance(st, ast.Assign) and isinstance(st.targets[0], ast.Name) and _is_self_call(st.value, "history") \
                    and k + 1 < len(stmts) and isinstance(stmts[k + 1], ast.For) \
                    and _u(stmts[k + 1].iter.func if isinstance(stmts[k + 1].iter, ast.Call) else stmts[k + 1].iter) \
                    == "itertools.chain":
                found.append((stmts, k))
    if len(found) != 1:
        raise TranslationError("history-pin block of transcribe() not found (or ambiguous)")
    stmts, k = found[0]
    hcall = stmts[k].value
    if len(hcall.args) != 1 or not isinstance(hcall.args[0], ast.Name):
        raise TranslationError("self.history(ensemble_member) expected")
    mname = hcall.args[0].id
    hist_name = stmts[k].targets[0].id
    pin_loop = stmts[k + 1]
    pinvars = _var_list(pin_loop.iter)
    if not isinstance(pin_loop.target, ast.Name):
        raise TranslationError("history-pin loop variable")
    pin = _Hist("pin", pin_loop.target.id, None, hist_name, mname).run(pin_loop)
    der_loop = None
    for st in stmts[k + 2:]:
        if isinstance(st, ast.For):
            der_loop = st
            break
        if not (isinstance(st, ast.Assign) and _u(st.value) == "[]"):
            raise TranslationError("unexpected statement between the two history loops: `%s`" % _u(st))
    if der_loop is None or not (isinstance(der_loop.iter, ast.Call) and _u(der_loop.iter.func) == "enumerate"
                                and len(der_loop.iter.args) == 1 and _var_list(der_loop.iter.args[0]) == "I.states"
                                and isinstance(der_loop.target, ast.Tuple) and len(der_loop.target.elts) == 2):
        raise TranslationError("initial-derivative loop `for i, variable in enumerate(self.differentiated_states)` not found")
    iv, lv = _u(der_loop.target.elts[0]), _u(der_loop.target.elts[1])
    der = _Hist("der", lv, iv, hist_name, mname).run(der_loop)
    return pinvars, pin, der


# -- nominals of the initial derivatives (start of transcribe()) ---------------------------------------------

class _DerNom:
    """path-expanding symbolic execution of the loop body that fills self.__initial_derivative_nominals:
    names are substituted, every `if` / the try splits the rest of the body (a decision tree of writes)"""

    def __init__(self, lv, dername, h0name):
        self.lv, self.dername, self.h0name = lv, dername, h0name

    def expr(self, node, env):
        if isinstance(node, ast.Constant) and isinstance(node.value, int) and not isinstance(node.value, bool):
            return ("const", node.value)
        if isinstance(node, ast.Name):
            if node.id not in env:
                raise TranslationError("unknown name `%s`" % node.id)
            return env[node.id]
        if _is_self_call(node, "times") and len(node.args) == 1 and _u(node.args[0]) == self.lv:
            return ("tlist", "b.times")
        if _is_self_call(node, "variable_nominal") and len(node.args) == 1 and _u(node.args[0]) == self.lv:
            return ("rat", "L.nominal b")
        if isinstance(node, ast.Attribute) and node.attr in ("times", "values") and isinstance(node.value, ast.Name) \
                and env.get(node.value.id) == ("hist",):
            return ("tlist", "h.times") if node.attr == "times" else ("vlist", "h.vals")
        if isinstance(node, ast.Subscript):
            v = self.expr(node.value, env)
            if v[0] == "tlist":
                s = node.slice
                if isinstance(s, ast.Constant) and s.value in (0, 1):
                    return ("opt", "%s[%d]?" % (v[1], s.value))
                if isinstance(s, ast.UnaryOp) and isinstance(s.op, ast.USub) and isinstance(s.operand, ast.Constant) \
                        and s.operand.value in (1, 2):
                    return ("opt", "L.last%d %s" % (s.operand.value, v[1]))
            raise TranslationError("unsupported subscript `%s`" % _u(node))
        if isinstance(node, ast.Call) and _u(node.func) == "len" and len(node.args) == 1:
            v = self.expr(node.args[0], env)
            if v[0] in ("tlist", "vlist"):
                return ("nat", "%s.length" % v[1])
            raise TranslationError("len of `%s`" % _u(node.args[0]))
        if isinstance(node, ast.BinOp) and isinstance(node.op, (ast.Sub, ast.Div)):
            a, b = self.rat(node.left, env), self.rat(node.right, env)
            return ("rat", "(%s %s %s)" % (a, "-" if isinstance(node.op, ast.Sub) else "/", b))
        raise TranslationError("unsupported expression `%s`" % _u(node))

    def rat(self, node, env):
        v = self.expr(node, env)
        if v[0] == "rat":
            return v[1]
        if v[0] == "const":
            return "(%d : Rat)" % v[1]
        if v[0] == "opt":
            return "(%s).getD 0" % v[1]
        raise TranslationError("`%s` is not a number" % _u(node))

    def cond(self, node, env):
        if isinstance(node, ast.BoolOp) and isinstance(node.op, ast.Or):
            return " ∨ ".join(self.cond(x, env) for x in node.values)
        if isinstance(node, ast.Compare) and len(node.ops) == 1:
            a, b = self.expr(node.left, env), self.expr(node.comparators[0], env)
            op = node.ops[0]
            if isinstance(op, ast.Eq) and a[0] == "opt" and b[0] == "opt":
                return "%s = %s" % (a[1], b[1])
            if isinstance(op, (ast.Eq, ast.Gt)) and a[0] == "nat" and b[0] == "const" and b[1] >= 0:
                return "%s %s %d" % (a[1], "=" if isinstance(op, ast.Eq) else ">", b[1])
            if isinstance(op, ast.Gt) and a[0] in ("rat", "const") and b == ("const", 0):
                return "%s > 0" % self.rat(node.left, env)
        raise TranslationError("unsupported condition `%s`" % _u(node))

    def block(self, stmts, env, ind):
        pad = "  " * ind
        if not stmts:
            raise TranslationError("a path through the nominal loop writes no nominal")
        st, rest = stmts[0], stmts[1:]
        if isinstance(st, ast.Expr) and isinstance(st.value, ast.Constant):
            return self.block(rest, env, ind)
        if isinstance(st, ast.Assign) and len(st.targets) == 1 and isinstance(st.targets[0], ast.Name):
            env = dict(env)
            env[st.targets[0].id] = self.expr(st.value, env)
            return self.block(rest, env, ind)
        if isinstance(st, ast.Assign) and len(st.targets) == 1 and isinstance(st.targets[0], ast.Subscript) \
                and _attr_self(st.targets[0].value, ("__initial_derivative_nominals",)) \
                and _u(st.targets[0].slice) == self.dername:
            if rest:
                raise TranslationError("statements after the nominal is stored: `%s`" % _u(rest[0]))
            return [pad + "some (%s)" % self.rat(st.value, env)]
        if isinstance(st, ast.If):
            return [pad + "if %s then" % self.cond(st.test, env)] + self.block(list(st.body) + rest, env, ind + 1) \
                + [pad + "else"] + self.block(list(st.orelse) + rest, env, ind + 1)
        if isinstance(st, ast.Assert):
            return [pad + "if ¬ (%s) then none" % self.cond(st.test, env), pad + "else"] + self.block(rest, env, ind + 1)
        if isinstance(st, ast.Try):
            if len(st.handlers) != 1 or _u(st.handlers[0].type) != "KeyError" or st.finalbody or st.orelse or not st.body:
                raise TranslationError("nominal loop: `try: h = history_0[variable] … except KeyError:` expected")
            first = st.body[0]
            if not (isinstance(first, ast.Assign) and isinstance(first.targets[0], ast.Name)
                    and _u(first.value).replace(" ", "") == "%s[%s]" % (self.h0name, self.lv)):
                raise TranslationError("nominal loop: the try block does not start with `h = history_0[variable]`")
            henv = dict(env)
            henv[first.targets[0].id] = ("hist",)
            return [pad + "match h0 with", pad + "| none =>"] + self.block(list(st.handlers[0].body) + rest, env, ind + 1) \
                + [pad + "| some h =>"] + self.block(list(st.body[1:]) + rest, henv, ind + 1)
        raise TranslationError("unsupported statement in the nominal loop: `%s`" % _u(st))


def _tr_der_nominals(tr):
    for k, st in enumerate(tr.body):
        if isinstance(st, ast.Assign) and _attr_self(st.targets[0], ("__initial_derivative_nominals",)) and _u(st.value) == "{}":
            h0, loop = tr.body[k + 1], tr.body[k + 2]
            if not (isinstance(h0, ast.Assign) and isinstance(h0.targets[0], ast.Name) and _is_self_call(h0.value, "history")
                    and [_u(a) for a in h0.value.args] == ["0"]):
                raise TranslationError("`history_0 = self.history(0)` expected after the nominal dictionary is reset")
            if not (isinstance(loop, ast.For) and isinstance(loop.iter, ast.Call) and _u(loop.iter.func) == "zip"
                    and len(loop.iter.args) == 2 and _var_list(loop.iter.args[0]) == "I.states"
                    and _var_list(loop.iter.args[1]) == "(L.derBlocks I)" and isinstance(loop.target, ast.Tuple)
                    and len(loop.target.elts) == 2):
                raise TranslationError("nominal loop `for variable, initial_der_name in zip(states, names)` not found")
            lv, dn = _u(loop.target.elts[0]), _u(loop.target.elts[1])
            return "\n".join(_DerNom(lv, dn, h0.targets[0].id).block(list(loop.body), {}, 1))
    raise TranslationError("reset of self.__initial_derivative_nominals not found in transcribe()")


GEN2 = """import RtcVerif.Model.C05Layout
import RtcVerif.Proofs.C05Layout
/-!
GENERATED on every run of the C05 check by harness/translate_c05.py from `discretize_states`,
`discretize_control`, `discretize_controls` and two fragments of `transcribe()` (the merge of the index
tables; the history-pin and initial-derivative loops) in
/repo/src/rtctools/optimization/collocated_integrated_optimization_problem.py (the construct table is in
the translator).  Do not edit.  The `…_eq_model` theorems tie the source, read this way, to the
reference definitions `RtcVerif.C05.L`; the `…_is_…` theorems (through `Proofs/C05Layout.lean`) to the
model functions `stateIndex`, `ctrlIndex`, `pinIndex`, `derIndex`, `applyPins`, `derPin` of the C05 theorems.
-/
set_option linter.unusedVariables false
namespace RtcVerif.Gen.LayoutPins
open RtcVerif RtcVerif.C05

/-- `ensemble_member_size` of `discretize_states` -/
def memberSizeGen (I : Inst) : Nat :=
%(size)s

/-- `count` of `discretize_states` -/
def stateCountGen (I : Inst) : Nat := I.E * memberSizeGen I

/-- `indices[m]` of `discretize_states`, in insertion order -/
def stateSlotsGen (I : Inst) (m : Nat) : List L.Slot :=
%(slots)s

/-- the shift of a state index in the merge of `transcribe()` -/
def shiftGen (controlSize : Nat) : L.Slot → L.Slot
%(shift)s

/-- `discretize_control(variable, ensemble_member, times, offset)`, `ntimes = len(times)` -/
def discretizeControlGen (cache : L.Cache) (var ntimes offset : Nat) : L.Slot × L.Cache :=
%(dc)s

/-- body of the member loop of `discretize_controls` -/
def ctrlStepGen (b : Blk) (var : Nat) (st : L.CSt) : L.Slot × L.CSt :=
%(cstep)s

/-- loop nest of `discretize_controls` (controls outside, members inside; cache and count start empty / 0) -/
def ctrlSlotsGen (I : Inst) : List (List L.Slot) × Nat :=
  let r := L.ctrlNest I.E ctrlStepGen I.controls 0 { cache := [], count := 0 }
  (r.1, r.2.count)

/-- `self.__indices[m][v]` after the merge, `v` the `k`-th variable of the history-pin loop -/
def pinSlotGen (I : Inst) (m k : Nat) : Option L.Slot :=
  let ns := I.states.length + I.algs.length
  if k < ns then ((stateSlotsGen I m)[k]?).map (shiftGen (ctrlSlotsGen I).2)
  else ((ctrlSlotsGen I).1[k - ns]?).bind (·[m]?)

/-- `self.__indices[m][initial_der_name]` of the `i`-th differentiated state -/
def derSlotGen (I : Inst) (m i : Nat) : Option L.Slot :=
  ((stateSlotsGen I m)[I.states.length + I.algs.length + I.paths.length + I.extras.length + i]?).map
    (shiftGen (ctrlSlotsGen I).2)

/-- iteration order of the history-pin loop -/
def pinVarsGen (I : Inst) : List Blk := %(pinvars)s

/-- one iteration of the history-pin loop; `idx` = first entry of the variable's indices -/
def pinStepGen (t0 : Rat) (b : Blk) (h : Option Hist) (idx : Nat) (lbx ubx : List XVal) :
    Option (List XVal × List XVal) :=
%(pin)s

/-- one iteration of the initial-derivative loop; `nomDer` = nominal of the initial derivative -/
def derStepGen (t0 : Rat) (b : Blk) (h : Option Hist) (nomDer : Rat) : DerPin :=
%(der)s

/-- the nominal of the initial derivative of one state; `h0` = its entry in `self.history(0)` -/
def derNominalGen (b : Blk) (h0 : Option Hist) : Option Rat :=
%(dernom)s

theorem memberSizeGen_eq_model (I : Inst) :
    memberSizeGen I = L.memberSizeK I ∧ stateCountGen I = L.stateCountK I := ⟨rfl, rfl⟩

theorem stateSlotsGen_eq_model (I : Inst) (m : Nat) : stateSlotsGen I m = L.stateSlotsK I m := rfl

theorem shiftGen_eq_model (k : Nat) (s : L.Slot) : shiftGen k s = L.shiftK k s := by
  cases s <;> rfl

theorem discretizeControlGen_eq_model (cache : L.Cache) (var ntimes offset : Nat) :
    discretizeControlGen cache var ntimes offset = L.discretizeControlK cache var ntimes offset := rfl

theorem ctrlSlotsGen_eq_model (I : Inst) : ctrlSlotsGen I = L.ctrlSlotsK I := rfl

theorem pinVarsGen_eq_model (I : Inst) : pinVarsGen I = C05.pinVars I := by
  simp [pinVarsGen, C05.pinVars]

theorem pinStepGen_eq_model (t0 : Rat) (b : Blk) (h : Option Hist) (idx : Nat) (lbx ubx : List XVal) :
    pinStepGen t0 b h idx lbx ubx = L.pinStepK t0 b h idx lbx ubx := rfl

theorem derStepGen_eq_model (t0 : Rat) (b : Blk) (h : Option Hist) (nomDer : Rat) :
    derStepGen t0 b h nomDer = L.derStepK t0 b h nomDer := rfl

theorem derNominalGen_eq_model (b : Blk) (h0 : Option Hist) : derNominalGen b h0 = L.derNominalK b h0 := rfl

/-- the nominal the initial-derivative pin is divided by is the model's `derNominal` -/
theorem derNominalGen_is_derNominal (b : Blk) (h0 : Option Hist) : derNominalGen b h0 = derNominal b h0 :=
  L.derNominalK_eq b h0

private theorem shiftGen_fun (k : Nat) : shiftGen k = L.shiftK k := funext (shiftGen_eq_model k)

/-- the index table built by the source is the layout model of `stateIndex_range / injective / surjective` -/
theorem layoutGen_is_stateIndex (I : Inst) (m j : Nat) (b : Blk) (hE : 0 < I.E)
    (hsz : ∀ b ∈ I.controls, b.size = 1) (hex : L.ExtrasOneStamp I) (hb : (stateBlocks I)[j]? = some b) :
    memberSizeGen I = memberSize I ∧
    ∃ s, ((stateSlotsGen I m)[j]?).map (shiftGen (ctrlSlotsGen I).2) = some s ∧ s.stop = s.first + b.len ∧
      ∀ c i, s.first + (c * b.n + i) = stateIndex I m j c i := by
  rw [shiftGen_fun]
  exact ⟨L.memberSizeK_eq I hex, L.stateSlot_is_stateIndex I m j b hE hsz hex hb⟩

/-- ... and of `ctrlIndex_*` (one shared slice per control) -/
theorem layoutGen_is_ctrlIndex (I : Inst) (hE : 0 < I.E) (hsz : ∀ b ∈ I.controls, b.size = 1)
    (m j : Nat) (b : Blk) (hm : m < I.E) (hb : I.controls[j]? = some b) :
    (ctrlSlotsGen I).2 = ctrlSize I ∧
    ∃ s, ((ctrlSlotsGen I).1[j]?).bind (·[m]?) = some s ∧ s.stop = s.first + b.n ∧
      ∀ i, s.first + i = ctrlIndex I j i :=
  L.ctrlSlot_is_ctrlIndex I hE hsz m j b hm hb

/-- the entry the history pin writes is the model's `pinIndex`, the pin is one step of `applyPins` -/
theorem pinGen_is_applyPins (I : Inst) (m k : Nat) (b : Blk) (h : Option Hist) (lo hi : List XVal)
    (hE : 0 < I.E) (hm : m < I.E) (hex : L.ExtrasOneStamp I) (hsz : ∀ b ∈ I.controls, b.size = 1)
    (hk : k < (pinVarsGen I).length) :
    ∃ s, pinSlotGen I m k = some s ∧ s.first = pinIndex I m k ∧
      pinStepGen I.t0 b h s.first lo hi = applyPins I m [(b, h)] k (lo, hi) := by
  rw [pinVarsGen_eq_model] at hk
  obtain ⟨s, h1, h2⟩ := L.pinSlot_first I m k hE hm hex hsz hk
  refine ⟨s, ?_, h2, ?_⟩
  · unfold pinSlotGen; rw [shiftGen_fun]; exact h1
  · rw [h2]; exact L.pinStepK_eq I m k b h lo hi

/-- the initial-derivative iteration is the model's `derPin`, written at the model's `derIndex` -/
theorem derGen_is_derPin (I : Inst) (m i : Nat) (b : Blk) (h : Option Hist) (nomDer : Rat)
    (hE : 0 < I.E) (hex : L.ExtrasOneStamp I) (hsz : ∀ b ∈ I.controls, b.size = 1) (hi : i < I.states.length) :
    derStepGen I.t0 b h nomDer = derPin I.t0 b h nomDer ∧
    ∃ s, derSlotGen I m i = some s ∧ s.first = derIndex I m i := by
  refine ⟨L.derStepK_eq I.t0 b h nomDer, ?_⟩
  obtain ⟨s, h1, h2⟩ := L.derSlot_first I m i hex hE hsz hi
  exact ⟨s, by unfold derSlotGen; rw [shiftGen_fun]; exact h1, h2⟩

end RtcVerif.Gen.LayoutPins
"""

THEOREMS2 = ["memberSizeGen_eq_model", "stateSlotsGen_eq_model", "shiftGen_eq_model", "discretizeControlGen_eq_model",
             "ctrlSlotsGen_eq_model", "pinVarsGen_eq_model", "pinStepGen_eq_model", "derStepGen_eq_model",
             "derNominalGen_eq_model", "derNominalGen_is_derNominal",
             "layoutGen_is_stateIndex", "layoutGen_is_ctrlIndex", "pinGen_is_applyPins", "derGen_is_derPin"]


def translate_layout_pins():
    path = os.path.join(REPO, SRC)
    tree = ast.parse(open(path).read())
    size, slots = _tr_discretize_states(_find_method(tree, CLS, "discretize_states"))
    dc = _tr_discretize_control(_find_method(tree, CLS, "discretize_control"))
    cstep = _tr_discretize_controls(_find_method(tree, CLS, "discretize_controls"))
    tr = _find_method(tree, CLS, "transcribe")
    shift = _tr_merge(tr)
    pinvars, pin, der = _tr_history(tr)
    dernom = _tr_der_nominals(tr)
    return dict(dernom=dernom, size=size, slots=slots, dc=dc, cstep=cstep, shift=shift, pinvars=pinvars.strip("()"), pin=pin, der=der)


def gen_layout_pins(c):
    """(re)generate lean/RtcVerif/Gen/LayoutPins.lean; returns the extra obligation spec for c.prove"""
    gdir = os.path.join(LEAN_DIR, "RtcVerif", "Gen")
    os.makedirs(gdir, exist_ok=True)
    path = os.path.join(gdir, "LayoutPins.lean")
    what = "translator: discretize_states / discretize_controls / history pins of transcribe()"
    try:
        parts = translate_layout_pins()
    except TranslationError as e:
        c.broken.append((what, str(e)))
        return []
    except (OSError, SyntaxError) as e:
        c.broken.append((what, "cannot read/parse the source: %s" % e))
        return []
    text = GEN2 % parts
    old = open(path).read() if os.path.exists(path) else None
    if old != text:
        tmp = path + ".tmp%d" % os.getpid()
        with open(tmp, "w") as f:
            f.write(text)
        os.replace(tmp, path)
    return [("RtcVerif.Gen.LayoutPins", "RtcVerif.Gen.LayoutPins", THEOREMS2)]
