"""
Source-to-Lean translation of the per-variable kernels of `_collint_get_lbx_ubx` (bounds, C05) and
`_collint_get_x0` (seed scaling, C08) in collocated_integrated_optimization_problem.py — a second tie
besides the correspondence checks.  On every run the two methods are parsed from
`$RTC_REPO/src/...`, the body that handles one (member, variable) is executed PATH BY PATH (one run
per kind of bound side: None / scalar / ndarray / 1-D Timeseries / 2-D Timeseries, and per kind of
nominal: scalar / ndarray), and `lean/RtcVerif/Gen/BoundsKernel.lean` is (re)generated with

  nominalGen / seedNominalGen   the per-entry nominal array            = K.nominalK
  lowerGen / upperGen           what is written into lbx / ubx          = K.blockWriteK b b.lo -inf / b.hi +inf
  seedGen                       what is written into x0                 = K.seedWriteK
  initLowerGen / initUpperGen   the fill of `np.full(count, ∓np.inf)`   = C05.fillOf

`K.*` (lean/RtcVerif/Model/C05Kernel.lean) are the reference definitions in the shape of the source;
`Proofs/C05Kernel.lean` proves `K.blockWriteK = C05.blockWrite`, the function the C05 / C08 property
theorems are about.  A change of the source breaks a generated theorem or is rejected here; the
check then goes on to its failing-input search as usual.

CLOSED TABLE  Python construct  →  model term   (anything else is REJECTED).  `b : Blk` is the
variable, `s` the bound side / seed, `q` / `qs` a scalar / array nominal.  The mapping of the library
idioms is part of the trusted base.

  frame (checked, not translated)
    lbx = np.full(count, -np.inf, ...) / ubx = np.full(count, np.inf, ...)     initLowerGen / initUpperGen
    for ensemble_member ...: for variable, inds in indices[ensemble_member].items():   one Blk at a time
    if variable in scalar_variables_set: times = self.initial_time; n_times = 1
    else: times = self.times(variable); n_times = len(times)                   `times` = b.times (scalar query
                                                                                for scalarT), `n_times` = b.n
    variable_size = variable_sizes[variable]                                   b.size
    try: bound = bounds[variable] / seed_k = seed[variable]  except KeyError: pass    missing key = side None
    logger.*(...), `if np.any(np.isnan(...)): logger...`                       nothing
  values
    self.variable_nominal(variable)                  the nominal: `q` (scalar) or `qs` (ndarray)
    self.interpolation_method(variable)              b.mode (only as last argument of self.interpolate)
    bound[0] / bound[1] / seed_k                     the side b.lo / b.hi / s
    X is not None                                    side ≠ .none
    isinstance(X, Timeseries) / isinstance(X, np.ndarray)    case of the side (.ts1/.ts2 ; .vec) or of the
                                                     nominal (.vec); a flattened interpolation result is an ndarray
    self.interpolate(times, S.times, S.values, fl, fr, interpolation_method)   K.interpolate b S fl fr
         fills: -np.inf → -inf, np.inf / +np.inf → +inf, 0 / 0.0 → 0, np.nan → NaN
    np.asarray(V)                                    V
    np.broadcast_to(A, (n_times, variable_size))     K.broadcastNom b qs (A the nominal) / K.broadcastVec b xs (A a side)
    M.transpose().ravel()                            K.cm / Val.cm     (component-major)
    M.ravel()   (no transpose)                       K.tm b.n / Val.tm b.n   (time-major)
    np.tile(nominal, n_times)                        K.tileNom b qs
    a scalar side used as array operand              K.scalar x (one-element array: NumPy broadcasting)
    a scalar nominal used as divisor                 K.scalarNom b q (array with equal entries)
    an ndarray seed assigned as it is                xs.map XVal.e
  writes
    T[inds] = V / nominal                            K.bindAssign b V nominal          (T = lbx / ubx / x0)
    T[inds] = V ; T[inds] /= nominal                 the same
    if isinstance(inds, (int, np.integer)) and isinstance(X, np.ndarray): X = X.item()   nothing
                                                     (a one-element array is the scalar)
"""
import ast
import os

from .common import LEAN_DIR, REPO
from .translate import TranslationError, _find_method

SRC = os.path.join("src", "rtctools", "optimization", "collocated_integrated_optimization_problem.py")
CLS = "CollocatedIntegratedOptimizationProblem"
SIDE_CASES = ("none", "sc", "vec", "ts1", "ts2")
SIDE_PAT = {"none": ".none", "sc": ".sc x", "vec": ".vec xs", "ts1": ".ts1 t vals", "ts2": ".ts2 t rows"}
SIDE_TERM = {"ts1": "(.ts1 t vals)", "ts2": "(.ts2 t rows)"}
FILL = {"ninf": "XVal.ninf", "pinf": "XVal.pinf", "zero": "(XVal.fin 0)", "nan": "XVal.nan"}


def _u(node, n=90):
    try:
        return ast.unparse(node)[:n]
    except Exception:
        return ast.dump(node)[:n]


def _is_np(node, name):
    return isinstance(node, ast.Attribute) and isinstance(node.value, ast.Name) and node.value.id == "np" \
        and node.attr == name


def _is_self_call(node, name):
    return isinstance(node, ast.Call) and isinstance(node.func, ast.Attribute) \
        and isinstance(node.func.value, ast.Name) and node.func.value.id == "self" and node.func.attr == name


def _is_logging(st):
    if isinstance(st, ast.Expr) and isinstance(st.value, ast.Call) and isinstance(st.value.func, ast.Attribute) \
            and isinstance(st.value.func.value, ast.Name) and st.value.func.value.id == "logger":
        return True
    if isinstance(st, ast.If) and all(_is_logging(x) for x in st.body) and not st.orelse:
        return "isnan" in _u(st.test, 200)
    return False


class _Path:
    """one path through the per-variable body: the kind of every side and of the nominal is fixed"""

    def __init__(self, sides, nomcase, targets, seed_name=None):
        self.sides = sides            # {key: case}   key 0 / 1 / "seed"
        self.nomcase = nomcase        # "sc" | "vec"
        self.targets = targets        # names of the arrays written (lbx, ubx / x0)
        self.env = {"times": ("times",), "n_times": ("ntimes",), "variable_size": ("size",),
                    "variable": ("variable",), "inds": ("inds",)}
        self.writes = {}              # target -> dict(side=key, flat=term, nom=term | None)
        if seed_name:
            self.env[seed_name] = ("side", "seed")

    # -- values ------------------------------------------------------------------------------
    def nominal_list(self, v):
        if v[0] == "nomlist":
            return v[1]
        if v[0] == "nomraw":
            return "K.scalarNom b q" if self.nomcase == "sc" else "qs"
        raise TranslationError("divisor is not the nominal")

    def flat(self, v):
        """Lean term : Option (List XVal) for an array operand"""
        if v[0] == "flat":
            return v[1]
        if v[0] == "side":
            case = self.sides[v[1]]
            if case == "sc":
                return "some (K.scalar x)"
            if case == "vec":
                return "some (xs.map XVal.e)"
            raise TranslationError("a %s side used as an array" % case)
        if v[0] == "val":
            raise TranslationError("2-D value used without ravel()")
        raise TranslationError("unsupported array operand %r" % (v,))

    def fill(self, node):
        if isinstance(node, ast.UnaryOp) and isinstance(node.op, ast.USub) and _is_np(node.operand, "inf"):
            return "ninf"
        if isinstance(node, ast.UnaryOp) and isinstance(node.op, ast.UAdd) and _is_np(node.operand, "inf"):
            return "pinf"
        if _is_np(node, "inf"):
            return "pinf"
        if _is_np(node, "nan"):
            return "nan"
        if isinstance(node, ast.Constant) and node.value in (0, 0.0) and not isinstance(node.value, bool):
            return "zero"
        raise TranslationError("unsupported fill value `%s`" % _u(node))

    def expr(self, node):
        if isinstance(node, ast.Name):
            if node.id not in self.env:
                raise TranslationError("unknown name `%s`" % node.id)
            return self.env[node.id]
        if isinstance(node, ast.Subscript) and isinstance(node.value, ast.Name) \
                and self.env.get(node.value.id) == ("boundpair",) and isinstance(node.slice, ast.Constant) \
                and node.slice.value in (0, 1):
            return ("side", node.slice.value)
        if isinstance(node, ast.Attribute) and node.attr in ("times", "values"):
            v = self.expr(node.value)
            if v[0] == "side" and self.sides[v[1]] in ("ts1", "ts2"):
                return ("side" + node.attr, v[1])
            raise TranslationError("`.%s` of something that is not a Timeseries side" % node.attr)
        if _is_self_call(node, "variable_nominal") and len(node.args) == 1 and self.expr(node.args[0]) == ("variable",):
            return ("nomraw",)
        if _is_self_call(node, "interpolation_method") and len(node.args) == 1 \
                and self.expr(node.args[0]) == ("variable",):
            return ("method",)
        if _is_self_call(node, "interpolate"):
            if len(node.args) != 6 or node.keywords:
                raise TranslationError("self.interpolate: expected 6 positional arguments")
            a = [self.expr(x) if i not in (3, 4) else None for i, x in enumerate(node.args)]
            if a[0] != ("times",) or a[1][0] != "sidetimes" or a[2] != ("sidevalues", a[1][1]) or a[5] != ("method",):
                raise TranslationError("self.interpolate: arguments are not (times, S.times, S.values, fl, fr, method)")
            fl, frr = self.fill(node.args[3]), self.fill(node.args[4])
            return ("val", "K.interpolate b %s %s %s" % (SIDE_TERM[self.sides[a[1][1]]], FILL[fl], FILL[frr]))
        if isinstance(node, ast.Call) and _is_np(node.func, "asarray") and len(node.args) == 1 and not node.keywords:
            return self.expr(node.args[0])
        if isinstance(node, ast.Call) and _is_np(node.func, "broadcast_to") and len(node.args) == 2:
            shp = node.args[1]
            if not (isinstance(shp, ast.Tuple) and len(shp.elts) == 2 and self.expr(shp.elts[0]) == ("ntimes",)
                    and self.expr(shp.elts[1]) == ("size",)):
                raise TranslationError("np.broadcast_to: shape is not (n_times, variable_size)")
            v = self.expr(node.args[0])
            if v == ("nomraw",) and self.nomcase == "vec":
                return ("nommat", "K.broadcastNom b qs")
            if v[0] == "side" and self.sides[v[1]] == "vec":
                return ("val", "K.broadcastVec b xs")
            raise TranslationError("np.broadcast_to of `%s` on this path" % _u(node.args[0]))
        if isinstance(node, ast.Call) and _is_np(node.func, "tile") and len(node.args) == 2 \
                and self.expr(node.args[0]) == ("nomraw",) and self.expr(node.args[1]) == ("ntimes",) \
                and self.nomcase == "vec":
            return ("nomlist", "K.tileNom b qs")
        if isinstance(node, ast.Call) and isinstance(node.func, ast.Attribute) and not node.args and not node.keywords:
            if node.func.attr == "transpose":
                return ("T", self.expr(node.func.value))
            if node.func.attr == "ravel":
                v = self.expr(node.func.value)
                cm = v[0] == "T"
                if cm:
                    v = v[1]
                if v[0] == "nommat":
                    return ("nomlist", ("K.cm (%s)" if cm else "K.tm b.n (%s)") % v[1])
                if v[0] == "val":
                    return ("flat", ("(%s).map K.Val.cm" if cm else "(%s).map (K.Val.tm b.n)") % v[1])
                if v[0] == "flat" and not cm:
                    return v
                raise TranslationError("ravel() of `%s`" % _u(node.func.value))
        if isinstance(node, ast.BinOp) and isinstance(node.op, ast.Div):
            return ("quot", self.flat(self.expr(node.left)), self.nominal_list(self.expr(node.right)))
        raise TranslationError("unsupported expression `%s`" % _u(node))

    # -- conditions (decided on this path) ------------------------------------------------------
    def cond(self, node):
        if isinstance(node, ast.Compare) and len(node.ops) == 1 and isinstance(node.ops[0], ast.IsNot) \
                and isinstance(node.comparators[0], ast.Constant) and node.comparators[0].value is None:
            v = self.expr(node.left)
            if v[0] == "side":
                return self.sides[v[1]] != "none"
        if isinstance(node, ast.Call) and isinstance(node.func, ast.Name) and node.func.id == "isinstance" \
                and len(node.args) == 2:
            v = self.expr(node.args[0])
            cls = _u(node.args[1])
            if cls not in ("Timeseries", "np.ndarray"):
                raise TranslationError("isinstance against `%s`" % cls)
            if v[0] == "side":
                case = self.sides[v[1]]
                return case in ("ts1", "ts2") if cls == "Timeseries" else case == "vec"
            if v == ("nomraw",) and cls == "np.ndarray":
                return self.nomcase == "vec"
            if v[0] in ("flat",) and cls == "np.ndarray":
                return True
        raise TranslationError("unsupported condition `%s`" % _u(node))

    # -- statements -----------------------------------------------------------------------------
    def block(self, stmts):
        for st in stmts:
            self.stmt(st)

    def stmt(self, st):
        if isinstance(st, ast.Pass) or _is_logging(st):
            return
        if isinstance(st, ast.Expr) and isinstance(st.value, ast.Constant):
            return
        if isinstance(st, ast.If):
            t = st.test
            # `.item()` of a one-element array for single-entry variables: the scalar itself
            if isinstance(t, ast.BoolOp) and isinstance(t.op, ast.And) and len(t.values) == 2 \
                    and _u(t.values[0], 200).replace(" ", "") == "isinstance(inds,(int,np.integer))" \
                    and len(st.body) == 1 and not st.orelse and isinstance(st.body[0], ast.Assign) \
                    and _u(st.body[0].value) == _u(st.body[0].targets[0]) + ".item()":
                self.cond(t.values[1])
                return
            return self.block(st.body if self.cond(t) else st.orelse)
        if isinstance(st, ast.Assign) and len(st.targets) == 1:
            tg = st.targets[0]
            if isinstance(tg, ast.Name):
                if tg.id in self.targets or tg.id in ("times", "n_times", "variable_size", "variable", "inds"):
                    raise TranslationError("assignment to `%s`" % tg.id)
                self.env[tg.id] = self.expr(st.value)
                return
            if isinstance(tg, ast.Subscript) and isinstance(tg.value, ast.Name) and tg.value.id in self.targets \
                    and self.expr(tg.slice) == ("inds",):
                v = self.expr(st.value)
                if tg.value.id in self.writes:
                    raise TranslationError("`%s[inds]` written twice" % tg.value.id)
                if v[0] == "quot":
                    self.writes[tg.value.id] = dict(flat=v[1], nom=v[2])
                else:
                    self.writes[tg.value.id] = dict(flat=self.flat(v), nom=None)
                return
        if isinstance(st, ast.AugAssign) and isinstance(st.op, ast.Div) and isinstance(st.target, ast.Subscript) \
                and isinstance(st.target.value, ast.Name) and st.target.value.id in self.writes \
                and self.expr(st.target.slice) == ("inds",):
            w = self.writes[st.target.value.id]
            if w["nom"] is not None:
                raise TranslationError("`%s[inds]` divided twice" % st.target.value.id)
            w["nom"] = self.nominal_list(self.expr(st.value))
            return
        raise TranslationError("unsupported statement `%s`" % _u(st))


def _frame(fn, target_fills, key_name):
    """check the frame of the method and return (per-variable body, name bound to the dict entry)"""
    fills = {}
    loop = None
    for st in fn.body:
        if isinstance(st, ast.Assign) and len(st.targets) == 1 and isinstance(st.targets[0], ast.Name) \
                and st.targets[0].id in target_fills:
            v = st.value
            nm = st.targets[0].id
            if isinstance(v, ast.Call) and _is_np(v.func, "full") and len(v.args) >= 2:
                fills[nm] = _Path({}, "sc", ()).fill(v.args[1])
            elif isinstance(v, ast.Call) and _is_np(v.func, "zeros"):
                fills[nm] = "zero"
            else:
                raise TranslationError("initial value of `%s`: `%s`" % (nm, _u(v)))
        if isinstance(st, ast.For):
            loop = st
    for nm, want in target_fills.items():
        if fills.get(nm) != want:
            raise TranslationError("`%s` is not initialised with %s" % (nm, want))
    if loop is None or _u(loop.iter).replace(" ", "") != "range(self.ensemble_size)":
        raise TranslationError("outer loop over the ensemble members not found")
    inner = [s for s in loop.body if isinstance(s, ast.For)]
    if len(inner) != 1 or _u(inner[0].iter).replace(" ", "") != "indices[ensemble_member].items()" \
            or _u(inner[0].target).replace(" ", "") not in ("variable,inds", "(variable,inds)"):
        raise TranslationError("loop `for variable, inds in indices[ensemble_member].items()` not found")
    body = inner[0].body
    tr = None
    seen_times = False
    for st in body:
        txt = _u(st, 400).replace(" ", "").replace("\n", "")
        if isinstance(st, ast.If) and txt.startswith("ifvariableinscalar_variables_set:"):
            want = "ifvariableinscalar_variables_set:times=self.initial_timen_times=1else:times=self.times(variable)" \
                   "n_times=len(times)"
            if txt != want:
                raise TranslationError("the definition of `times` / `n_times` changed")
            seen_times = True
        elif isinstance(st, ast.Assign) and txt == "variable_size=variable_sizes[variable]":
            pass
        elif isinstance(st, ast.Try):
            tr = st
        elif _is_logging(st):
            pass
        else:
            raise TranslationError("unexpected statement in the per-variable loop: `%s`" % _u(st))
    if not seen_times or tr is None:
        raise TranslationError("per-variable frame (times / try) not found")
    if len(tr.handlers) != 1 or _u(tr.handlers[0].type) != "KeyError" \
            or not all(isinstance(x, ast.Pass) for x in tr.handlers[0].body) or tr.finalbody:
        raise TranslationError("`except KeyError: pass` expected")
    stmts = list(tr.body) + list(tr.orelse)
    first = stmts[0]
    if not (isinstance(first, ast.Assign) and isinstance(first.targets[0], ast.Name)
            and _u(first.value).replace(" ", "") == key_name + "[variable]"):
        raise TranslationError("`<x> = %s[variable]` expected at the start of the try block" % key_name)
    return stmts[1:], first.targets[0].id


def _run_paths(stmts, entry_name, kind, targets):
    """all paths; returns {nomcase: {(sidekey, case): writes}}"""
    out = {}
    keys = (0, 1) if kind == "bounds" else ("seed",)
    for nomcase in ("sc", "vec"):
        out[nomcase] = {}
        for key in keys:
            for case in SIDE_CASES:
                sides = {k: "none" for k in keys}
                sides[key] = case
                p = _Path(sides, nomcase, targets, seed_name=(entry_name if kind == "seed" else None))
                if kind == "bounds":
                    p.env[entry_name] = ("boundpair",)
                if not (kind == "seed" and case == "none"):  # no seed: KeyError, nothing is executed
                    p.block(stmts)
                for w in p.writes.values():
                    if w["nom"] is None:
                        raise TranslationError("a write is not divided by the nominal")
                out[nomcase][(key, case)] = p.writes
    return out


def _assemble(paths, target, keys):
    """Lean match arms for one target array + the nominal terms used"""
    writer = None
    for key in keys:
        if any(target in paths["sc"][(key, c)] for c in SIDE_CASES):
            if writer is not None:
                raise TranslationError("`%s` is written from two different sides" % target)
            writer = key
    if writer is None:
        raise TranslationError("`%s` is never written" % target)
    noms = {}
    arms = []
    for case in SIDE_CASES:
        flat = None
        for nomcase in ("sc", "vec"):
            w = paths[nomcase][(writer, case)].get(target)
            f = None if w is None else w["flat"]
            if nomcase == "sc":
                flat = f
            elif f != flat:
                raise TranslationError("the value written depends on the kind of the nominal")
            if w is not None:
                if noms.setdefault(nomcase, w["nom"]) != w["nom"]:
                    raise TranslationError("the nominal array depends on the kind of the bound")
        arms.append("  | %s => %s" % (SIDE_PAT[case], "some none" if flat is None
                                      else "K.bindAssign b (%s) (%%s b)" % flat))
    if set(noms) != {"sc", "vec"}:
        raise TranslationError("nominal not used on every path")
    return writer, arms, noms


GEN = """import RtcVerif.Model.C05Kernel
import RtcVerif.Proofs.C05Kernel
/-!
GENERATED on every run of the C05 / C08 checks by harness/translate_c05.py from
`_collint_get_lbx_ubx` and `_collint_get_x0` in
/repo/src/rtctools/optimization/collocated_integrated_optimization_problem.py (path-by-path execution
of the per-variable body; the construct table is in the header of the translator).  Do not edit.
The theorems tie the source, read this way, to the reference kernel `RtcVerif.C05.K`, which
`Proofs/C05Kernel.lean` proves equal to the model function `C05.blockWrite` of the C05 / C08 theorems.
-/
namespace RtcVerif.Gen
open RtcVerif RtcVerif.C05

/-- fill of `lbx` / `ubx` before any bound is written -/
def initLowerGen : XVal := %(init_lo)s
def initUpperGen : XVal := %(init_hi)s

/-- per-entry nominal array in `_collint_get_lbx_ubx` -/
def nominalGen (b : Blk) : List Rat :=
  match b.nom with
  | .sc q => %(nom_sc)s
  | .vec qs => %(nom_vec)s

/-- per-entry nominal array in `_collint_get_x0` -/
def seedNominalGen (b : Blk) : List Rat :=
  match b.nom with
  | .sc q => %(snom_sc)s
  | .vec qs => %(snom_vec)s

/-- what is written into `lbx[inds]` for one (member, variable) -/
def lowerGenS (b : Blk) (s : Side) : Option (Option (List XVal)) :=
  match s with
%(lower_arms)s
def lowerGen (b : Blk) : Option (Option (List XVal)) := lowerGenS b %(lower_side)s

/-- what is written into `ubx[inds]` -/
def upperGenS (b : Blk) (s : Side) : Option (Option (List XVal)) :=
  match s with
%(upper_arms)s
def upperGen (b : Blk) : Option (Option (List XVal)) := upperGenS b %(upper_side)s

/-- what is written into `x0[inds]` for the seed `s` of one (member, variable) -/
def seedGen (b : Blk) (s : Side) : Option (Option (List XVal)) :=
  match s with
%(seed_arms)s

theorem initFillGen_eq_model : initLowerGen = C05.fillOf true ∧ initUpperGen = C05.fillOf false := ⟨rfl, rfl⟩

theorem nominalGen_eq_model (b : Blk) : nominalGen b = K.nominalK b := rfl

theorem seedNominalGen_eq_model (b : Blk) : seedNominalGen b = K.nominalK b := rfl

theorem lowerGen_eq_model (b : Blk) : lowerGen b = K.blockWriteK b b.lo XVal.ninf := by
  show lowerGenS b b.lo = _
  generalize b.lo = s
  cases s <;> rfl

theorem upperGen_eq_model (b : Blk) : upperGen b = K.blockWriteK b b.hi XVal.pinf := by
  show upperGenS b b.hi = _
  generalize b.hi = s
  cases s <;> rfl

theorem seedGen_eq_model (b : Blk) (s : Side) : seedGen b s = K.seedWriteK b s := by
  cases s <;> rfl

/-- ... and hence the model function of the C05 / C08 property theorems -/
theorem boundsGen_eq_blockWrite (b : Blk) :
    lowerGen b = C05.blockWrite b b.lo (C05.fillOf true) ∧ upperGen b = C05.blockWrite b b.hi (C05.fillOf false) :=
  ⟨by rw [lowerGen_eq_model, K.blockWriteK_eq]; rfl, by rw [upperGen_eq_model, K.blockWriteK_eq]; rfl⟩

theorem seedGen_eq_blockWrite (b : Blk) (s : Side) (h : ∀ xs, s = .vec xs → b.n = 1 ∧ xs.length = b.size) :
    seedGen b s = C05.blockWrite b s (XVal.fin 0) := by
  rw [seedGen_eq_model, K.seedWriteK_eq b s h]

end RtcVerif.Gen
"""

THEOREMS = ["initFillGen_eq_model", "nominalGen_eq_model", "seedNominalGen_eq_model", "lowerGen_eq_model",
            "upperGen_eq_model", "seedGen_eq_model", "boundsGen_eq_blockWrite", "seedGen_eq_blockWrite"]


def translate():
    path = os.path.join(REPO, SRC)
    tree = ast.parse(open(path).read())
    fb = _find_method(tree, CLS, "_collint_get_lbx_ubx")
    stmts, entry = _frame(fb, {"lbx": "ninf", "ubx": "pinf"}, "bounds")
    paths = _run_paths(stmts, entry, "bounds", ("lbx", "ubx"))
    wl, lower_arms, nl = _assemble(paths, "lbx", (0, 1))
    wu, upper_arms, nu = _assemble(paths, "ubx", (0, 1))
    if nl != nu:
        raise TranslationError("lbx and ubx are divided by different nominal arrays")
    fx = _find_method(tree, CLS, "_collint_get_x0")
    sstmts, sentry = _frame(fx, {"x0": "zero"}, "seed")
    spaths = _run_paths(sstmts, sentry, "seed", ("x0",))
    _, seed_arms, ns = _assemble(spaths, "x0", ("seed",))
    side = {0: "b.lo", 1: "b.hi"}
    return dict(init_lo=FILL["ninf"], init_hi=FILL["pinf"], nom_sc=nl["sc"], nom_vec=nl["vec"],
                snom_sc=ns["sc"], snom_vec=ns["vec"],
                lower_arms="\n".join(a % "nominalGen" if "%s" in a else a for a in lower_arms),
                upper_arms="\n".join(a % "nominalGen" if "%s" in a else a for a in upper_arms),
                seed_arms="\n".join(a % "seedNominalGen" if "%s" in a else a for a in seed_arms),
                lower_side=side[wl], upper_side=side[wu])


def gen_bounds_kernel(c):
    """(re)generate lean/RtcVerif/Gen/BoundsKernel.lean; returns the extra obligation spec for c.prove"""
    gdir = os.path.join(LEAN_DIR, "RtcVerif", "Gen")
    os.makedirs(gdir, exist_ok=True)
    path = os.path.join(gdir, "BoundsKernel.lean")
    try:
        parts = translate()
    except TranslationError as e:
        c.broken.append(("translator: _collint_get_lbx_ubx / _collint_get_x0", str(e)))
        return []
    except (OSError, SyntaxError) as e:
        c.broken.append(("translator: _collint_get_lbx_ubx / _collint_get_x0", "cannot read/parse the source: %s" % e))
        return []
    text = GEN % parts
    old = open(path).read() if os.path.exists(path) else None
    if old != text:
        tmp = path + ".tmp%d" % os.getpid()
        with open(tmp, "w") as f:
            f.write(text)
        os.replace(tmp, path)
    return [("RtcVerif.Gen.BoundsKernel", "RtcVerif.Gen", THEOREMS)]
